import Asn1Proofs.Lemmas.PrepHistory
/-
  Reordering the type assignments of one module: name lookups do not see the order (names are
  distinct), so every pass computes the same thing for every assignment.
-/
namespace Asn1.SpecDict
open Preprocess

/-- a permutation of lists given uniformly for all element types (reverse, rotate, swap two
positions, reorder by a list of indices, …) -/
structure NatPerm where
  app : ∀ {α : Type}, List α → List α
  map : ∀ {α β : Type} (f : α → β) (l : List α), app (l.map f) = (app l).map f
  perm : ∀ {α : Type} (l : List α), (app l).Perm l

/-! ### association lists -/

theorem mapSnd_eq_map {α : Type} (f : α → α) (l : List (String × α)) :
    mapSnd f l = l.map (fun p => (p.1, f p.2)) := by
  induction l with
  | nil => rfl
  | cons x t ih => obtain ⟨k, v⟩ := x; simp [mapSnd, ih]

theorem typesSkel_eq_map (l : List (String × Desc)) :
    typesSkel l = l.map (fun p => (p.1, p.2.attrs.core)) := by
  induction l with
  | nil => rfl
  | cons x t ih => obtain ⟨k, v⟩ := x; simp [typesSkel, ih]

theorem find?_eq_none_of_not_mem {α : Type} {k : String} {l : List (String × α)}
    (h : k ∉ l.map Prod.fst) : find? k l = none := by
  induction l with
  | nil => rfl
  | cons x t ih =>
    obtain ⟨a, b⟩ := x
    simp only [List.map_cons, List.mem_cons, not_or] at h
    simp only [find?]
    rw [if_neg (fun e => h.1 e.symm)]
    exact ih h.2

/-- with distinct keys a lookup does not depend on the order -/
theorem find?_perm {α : Type} (k : String) {l l' : List (String × α)} (hp : l.Perm l')
    (hn : (l.map Prod.fst).Nodup) : find? k l = find? k l' := by
  induction hp with
  | nil => rfl
  | cons x _ ih =>
    obtain ⟨a, b⟩ := x
    simp only [List.map_cons, List.nodup_cons] at hn
    simp only [find?]
    split
    · rfl
    · exact ih hn.2
  | swap x y l =>
    obtain ⟨a, b⟩ := x
    obtain ⟨c, d⟩ := y
    simp only [List.map_cons, List.nodup_cons, List.mem_cons, not_or] at hn
    simp only [find?]
    by_cases h1 : a = k
    · by_cases h2 : c = k
      · exact absurd (h2.trans h1.symm) hn.1.1
      · simp [h1, h2]
    · by_cases h2 : c = k <;> simp [h1, h2]
  | trans h₁ _ ih₁ ih₂ =>
    exact (ih₁ hn).trans (ih₂ ((h₁.map Prod.fst).nodup_iff.1 hn))

theorem find?_modifyAt_cases {α : Type} (g : α → α) (i : Nat) (l : List (String × α)) (k : String) :
    find? k (modifyAt g i l) = find? k l ∨
      ∃ v, l[i]? = some (k, v) ∧ find? k l = some v ∧ find? k (modifyAt g i l) = some (g v) := by
  induction l generalizing i with
  | nil => cases i <;> exact .inl rfl
  | cons x t ih =>
    obtain ⟨a, b⟩ := x
    cases i with
    | zero =>
      by_cases h : a = k
      · subst h; exact .inr ⟨b, by simp, by simp [find?], by simp [modifyAt, find?]⟩
      · exact .inl (by simp [modifyAt, find?, h])
    | succ i =>
      by_cases h : a = k
      · exact .inl (by simp [modifyAt, find?, h])
      · rcases ih i with h1 | ⟨v, h1, h2, h3⟩
        · exact .inl (by simp [modifyAt, find?, h, h1])
        · exact .inr ⟨v, by simpa using h1, by simp [find?, h, h2], by simp [modifyAt, find?, h, h3]⟩

theorem find?_skel (k : String) (s : Spec) : find? k (skel s) = (find? k s).map Module.skel := by
  induction s with
  | nil => rfl
  | cons x t ih =>
    obtain ⟨a, m⟩ := x
    simp only [skel, find?]
    split
    · rfl
    · exact ih

theorem find?_typesSkel (k : String) (l : List (String × Desc)) :
    find? k (typesSkel l) = (find? k l).map (fun d => d.attrs.core) := by
  induction l with
  | nil => rfl
  | cons x t ih =>
    obtain ⟨a, d⟩ := x
    simp only [typesSkel, find?]
    split
    · rfl
    · exact ih

/-- the lookup on the skeleton is the lookup on the dictionary -/
theorem lookupCore_skel (s : Spec) (f : Nat) (name mod : String) :
    lookupCore (skel s) f name mod
      = (lookupType s f name mod).map (fun p => (p.1.attrs.core, p.2)) := by
  induction f generalizing mod with
  | zero => rfl
  | succ f ih =>
    simp only [lookupCore, lookupType, find?_skel]
    cases find? mod s with
    | none => rfl
    | some m =>
      simp only [Option.map_some, Module.skel, find?_typesSkel]
      cases find? name m.types with
      | some td => rfl
      | none =>
        simp only [Option.map_none]
        cases importFrom name m.imports with
        | none => rfl
        | some frm => exact ih frm

/-! ### two dictionaries whose modules answer every lookup alike -/

/-- the modules found under a name have the same imports and answer every type lookup alike -/
def ModEquiv : Option Module → Option Module → Prop
  | none, none => True
  | some m', some m => m'.imports = m.imports ∧ ∀ name, find? name m'.types = find? name m.types
  | _, _ => False

def LookupEquiv (s' s : Spec) : Prop := ∀ mod, ModEquiv (find? mod s') (find? mod s)

theorem lookupType_congr {s' s : Spec} (h : LookupEquiv s' s) (f : Nat) (name mod : String) :
    lookupType s' f name mod = lookupType s f name mod := by
  induction f generalizing mod with
  | zero => rfl
  | succ f ih =>
    simp only [lookupType]
    have hm := h mod
    cases h1 : find? mod s' with
    | none =>
      cases h2 : find? mod s with
      | none => rfl
      | some m => rw [h1, h2] at hm; exact hm.elim
    | some m' =>
      cases h2 : find? mod s with
      | none => rw [h1, h2] at hm; exact hm.elim
      | some m =>
        rw [h1, h2] at hm
        simp only [ModEquiv] at hm
        simp only [hm.1, hm.2 name]
        cases find? name m.types with
        | some td => rfl
        | none =>
          simp only
          cases importFrom name m.imports with
          | none => rfl
          | some frm => exact ih frm

theorem expandWith_congr {s' s : Spec} (h : LookupEquiv s' s)
    {rec' rec : String → List Item → List Item} (hrec : ∀ mod ms, rec' mod ms = rec mod ms)
    (lf : Nat) (mod : String) (l : List Item) :
    expandWith rec' s' lf mod l = expandWith rec s lf mod l := by
  induction l with
  | nil => rfl
  | cons i t ih =>
    cases i with
    | compOf r =>
      simp only [expandWith, lookupType_congr h, ih]
      congr 1
      split <;> simp [hrec]
    | marker => simp [expandWith, ih]
    | group g => simp [expandWith, ih]
    | desc d => simp [expandWith, ih]

theorem expandItems_congr {s' s : Spec} (h : LookupEquiv s' s) (lf f : Nat) (mod : String)
    (l : List Item) : expandItems s' lf f mod l = expandItems s lf f mod l := by
  induction f generalizing mod l with
  | zero => rfl
  | succ f ih => exact expandWith_congr h (fun mod ms => ih mod ms) lf mod l

/-! ### two skeletons that resolve every reference alike -/

structure SkelEquiv (sk' sk : Skel) : Prop where
  lookup : ∀ f name mod, lookupCore sk' f name mod = lookupCore sk f name mod
  lf : lookupFuel sk' = lookupFuel sk
  rf : resolveFuel sk' = resolveFuel sk

theorem resolveCore_congr {sk' sk : Skel} (h : SkelEquiv sk' sk) (lf f : Nat) (c : Core)
    (mod : String) : resolveCore sk' lf f c mod = resolveCore sk lf f c mod := by
  induction f generalizing c mod with
  | zero => rfl
  | succ f ih =>
    simp only [resolveCore, h.lookup]
    split
    · rfl
    · split
      · rfl
      · exact ih _ _

theorem resolve_congr {sk' sk : Skel} (h : SkelEquiv sk' sk) (c : Core) (mod : String) :
    resolve sk' c mod = resolve sk c mod := by
  unfold resolve
  rw [h.lf, h.rf]
  exact resolveCore_congr h _ _ c mod

section
variable {sk' sk : Skel} (h : SkelEquiv sk' sk)
include h

theorem kindAttrs_congr (mt mn : String) (a : Attrs) :
    kindAttrs sk' mt mn a = kindAttrs sk mt mn a := by
  unfold kindAttrs defaultKind
  rw [resolve_congr h]

theorem convAttrs_congr (n : Bool) (mn : String) (a : Attrs) :
    convAttrs sk' n mn a = convAttrs sk n mn a := by
  unfold convAttrs
  rw [resolve_congr h]

mutual
  theorem tagDesc_congr (mt mn : String) (k : Option Nat) (d : Desc) :
      tagDesc sk' mt mn k d = tagDesc sk mt mn k d := by
    cases d with
    | mk a b => simp only [tagDesc]; rw [kindAttrs_congr h, tagBody_congr mt mn b]
  theorem tagBody_congr (mt mn : String) (b : Body) :
      tagBody sk' mt mn b = tagBody sk mt mn b := by
    cases b with
    | leaf => simp [tagBody]
    | members ms => simp only [tagBody]; rw [tagItems_congr mt mn _ ms]
    | element e => simp only [tagBody]; rw [tagDesc_congr mt mn none e]
  theorem tagItems_congr (mt mn : String) (k : Option Nat) (l : List Item) :
      tagItems sk' mt mn k l = tagItems sk mt mn k l := by
    cases l with
    | nil => simp [tagItems]
    | cons i t =>
      cases i with
      | marker => simp only [tagItems]; rw [tagItems_congr mt mn k t]
      | compOf r => simp only [tagItems]; rw [tagItems_congr mt mn k t]
      | group g => simp only [tagItems]; rw [tagDescs_congr mt mn k g, tagItems_congr mt mn _ t]
      | desc d => simp only [tagItems]; rw [tagDesc_congr mt mn k d, tagItems_congr mt mn _ t]
  theorem tagDescs_congr (mt mn : String) (k : Option Nat) (g : List Desc) :
      tagDescs sk' mt mn k g = tagDescs sk mt mn k g := by
    cases g with
    | nil => simp [tagDescs]
    | cons d t => simp only [tagDescs]; rw [tagDesc_congr mt mn k d, tagDescs_congr mt mn _ t]
end

mutual
  theorem defDesc_congr (n : Bool) (mn : String) (c : Bool) (d : Desc) :
      defDesc sk' n mn c d = defDesc sk n mn c d := by
    cases d with
    | mk a b => simp only [defDesc]; rw [convAttrs_congr h, defBody_congr n mn _ b]
  theorem defBody_congr (n : Bool) (mn : String) (c : Bool) (b : Body) :
      defBody sk' n mn c b = defBody sk n mn c b := by
    cases b with
    | leaf => simp [defBody]
    | members ms => simp only [defBody]; rw [defItems_congr n mn c ms]
    | element e => simp only [defBody]; rw [defDesc_congr n mn false e]
  theorem defItems_congr (n : Bool) (mn : String) (c : Bool) (l : List Item) :
      defItems sk' n mn c l = defItems sk n mn c l := by
    cases l with
    | nil => simp [defItems]
    | cons i t => simp only [defItems]; rw [defItem_congr n mn c i, defItems_congr n mn c t]
  theorem defItem_congr (n : Bool) (mn : String) (c : Bool) (i : Item) :
      defItem sk' n mn c i = defItem sk n mn c i := by
    cases i with
    | marker => simp [defItem]
    | compOf r => simp [defItem]
    | group g => simp only [defItem]; rw [defDescs_congr n mn c g]
    | desc d => simp only [defItem]; rw [defDesc_congr n mn c d]
  theorem defDescs_congr (n : Bool) (mn : String) (c : Bool) (g : List Desc) :
      defDescs sk' n mn c g = defDescs sk n mn c g := by
    cases g with
    | nil => simp [defDescs]
    | cons d t => simp only [defDescs]; rw [defDesc_congr n mn c d, defDescs_congr n mn c t]
end

theorem locDesc_congr (n : Bool) (mn mt : String) (ext : Bool) (d : Desc) :
    locDesc sk' n mn mt ext d = locDesc sk n mn mt ext d := by
  unfold locDesc
  rw [tagDesc_congr h, defDesc_congr h]

end

end Asn1.SpecDict
