import Asn1Model.PyPrim
import Asn1Model.Prim
/-
  The Python primitives of `Asn1Model/PyPrim.lean` on non-negative operands are the `Nat` operations.
-/
namespace Py

theorem band_natCast (a b : Nat) : Py.band (a : Int) (b : Int) = ((a &&& b : Nat) : Int) := rfl

theorem bor_natCast (a b : Nat) : Py.bor (a : Int) (b : Int) = ((a ||| b : Nat) : Int) := rfl

theorem shr_natCast (a k : Nat) : Py.shr (a : Int) (k : Int) = ((a >>> k : Nat) : Int) := by
  show Int.shiftRight (Int.ofNat a) (Int.toNat (k : Int)) = _
  rw [Int.toNat_natCast]; rfl

theorem shr_natCast_div (a k : Nat) : Py.shr (a : Int) (k : Int) = ((a / 2 ^ k : Nat) : Int) := by
  rw [shr_natCast, Nat.shiftRight_eq_div_pow]

theorem shl_natCast (a k : Nat) : Py.shl (a : Int) (k : Int) = ((a * 2 ^ k : Nat) : Int) := by
  unfold Py.shl
  rw [Int.toNat_natCast]
  simp [Int.natCast_mul, Int.natCast_pow]

theorem pow_natCast (a : Int) (k : Nat) : Py.pow a (k : Int) = a ^ k := by
  unfold Py.pow; rw [Int.toNat_natCast]

theorem fdiv_natCast (a b : Nat) : Py.fdiv (a : Int) (b : Int) = ((a / b : Nat) : Int) := by
  unfold Py.fdiv
  rw [Int.fdiv_eq_ediv_of_nonneg _ (Int.natCast_nonneg b)]
  rfl

theorem fmod_natCast (a b : Nat) : Py.fmod (a : Int) (b : Int) = ((a % b : Nat) : Int) := by
  unfold Py.fmod
  rw [Int.fmod_eq_emod_of_nonneg _ (Int.natCast_nonneg b)]
  rfl

theorem bitLength_natCast (n : Nat) : Py.bitLength (n : Int) = (Asn1.bitLength n : Int) := by
  unfold Py.bitLength Asn1.bitLength
  simp only [Int.natAbs_natCast]
  split <;> simp

theorem len_eq {α : Type} (xs : List α) : Py.len xs = (xs.length : Int) := rfl

theorem fuelOfInt_natCast (n : Nat) : Py.fuelOfInt (n : Int) = n := by
  simp [Py.fuelOfInt]

/-! ### `Nat` bit facts in the shape the translated code produces them -/

theorem and_255 (a : Nat) : a &&& 255 = a % 256 := Nat.and_two_pow_sub_one_eq_mod a 8

theorem and_127 (a : Nat) : a &&& 127 = a % 128 := Nat.and_two_pow_sub_one_eq_mod a 7

theorem shr_8 (a : Nat) : a >>> 8 = a / 256 := by rw [Nat.shiftRight_eq_div_pow]

theorem shr_7 (a : Nat) : a >>> 7 = a / 128 := by rw [Nat.shiftRight_eq_div_pow]

/-- OR of disjoint bit ranges is addition -/
theorem mul_pow_or (a : Nat) {b n : Nat} (h : b < 2 ^ n) : a * 2 ^ n ||| b = a * 2 ^ n + b := by
  rw [Nat.mul_comm]; exact (Nat.two_pow_add_eq_or_of_lt h a).symm

theorem or_128 {b : Nat} (h : b < 128) : 128 ||| b = 128 + b := by
  have := mul_pow_or 1 (n := 7) (b := b) h
  simpa using this

theorem or_256 {b : Nat} (h : b < 256) : 256 ||| b = 256 + b := by
  have := mul_pow_or 1 (n := 8) (b := b) h
  simpa using this

theorem and_two_pow_eq_zero (x j : Nat) : x &&& 2 ^ j = 0 ↔ x.testBit j = false := by
  constructor
  · intro h
    have := congrArg (·.testBit j) h
    simpa [Nat.testBit_and, Nat.testBit_two_pow] using this
  · intro h
    apply Nat.eq_of_testBit_eq
    intro i
    simp only [Nat.testBit_and, Nat.testBit_two_pow, Nat.zero_testBit]
    by_cases hji : j = i
    · subst hji; simp [h]
    · simp [hji]

/-- for `x < 2^(j+1)`, bit `j` is clear iff `x < 2^j` -/
theorem and_two_pow_eq_zero_of_lt {x j : Nat} (hx : x < 2 ^ (j + 1)) : x &&& 2 ^ j = 0 ↔ x < 2 ^ j := by
  rw [and_two_pow_eq_zero, Nat.testBit_eq_decide_div_mod_eq]
  have hp : 0 < 2 ^ j := Nat.two_pow_pos j
  have h2 : x / 2 ^ j < 2 := by
    rw [Nat.div_lt_iff_lt_mul hp]; rw [Nat.pow_succ] at hx; omega
  constructor
  · intro h
    have h3 : x / 2 ^ j = 0 := by
      have : ¬ (x / 2 ^ j % 2 = 1) := by simpa using h
      generalize x / 2 ^ j = d at *
      omega
    exact (Nat.div_eq_zero_iff_lt hp).1 h3
  · intro h
    have : x / 2 ^ j = 0 := (Nat.div_eq_zero_iff_lt hp).2 h
    simp [this]

/-! ### literal operands -/

theorem band255 (a : Nat) : Py.band (a : Int) 255 = ((a % 256 : Nat) : Int) := by
  rw [← and_255]; exact band_natCast a 255

theorem band127 (a : Nat) : Py.band (a : Int) 127 = ((a % 128 : Nat) : Int) := by
  rw [← and_127]; exact band_natCast a 127

theorem shr8 (a : Nat) : Py.shr (a : Int) 8 = ((a / 256 : Nat) : Int) := by
  rw [← shr_8]; exact shr_natCast a 8

theorem shr7 (a : Nat) : Py.shr (a : Int) 7 = ((a / 128 : Nat) : Int) := by
  rw [← shr_7]; exact shr_natCast a 7

theorem bor128 {b : Nat} (h : b < 128) : Py.bor 128 (b : Int) = ((128 + b : Nat) : Int) := by
  rw [← or_128 h]; exact bor_natCast 128 b

theorem bor256 {b : Nat} (h : b < 256) : Py.bor 256 (b : Int) = ((256 + b : Nat) : Int) := by
  rw [← or_256 h]; exact bor_natCast 256 b

theorem shl7 (a : Nat) : Py.shl (a : Int) 7 = ((a * 128 : Nat) : Int) := shl_natCast a 7

theorem shl1 (a : Nat) : Py.shl (a : Int) 1 = ((a * 2 : Nat) : Int) := shl_natCast a 1

theorem fdiv8 (a : Nat) : Py.fdiv (a : Int) 8 = ((a / 8 : Nat) : Int) := fdiv_natCast a 8

theorem fmod8 (a : Nat) : Py.fmod (a : Int) 8 = ((a % 8 : Nat) : Int) := fmod_natCast a 8

end Py
