import Asn1Proofs.Lemmas.ExtOerBase
/-
  C07, OER: DEFAULT values, SEQUENCE OF, CHOICE.
-/
set_option linter.unusedSimpArgs false
set_option linter.unusedVariables false
namespace Asn1.Ext.OerX
open Asn1 Asn1.Oer Asn1.Ext

/-! ### DEFAULT values -/

/-- the encoder omits a member whose value `isDefault`; the decoder then returns the DEFAULT value,
which is what it would have seen of the value -/
theorem view_of_isDefault {tD tE : Ty} (hc : Compat tD tE) (v d : Val)
    (hd : view false tD tE d = d) (h : isDefault tE v d = true) : view false tD tE v = d := by
  unfold isDefault at h
  split at h
  · rename_i c a n b m
    cases hc
    simp only [view] at hd ⊢
    simp only [Bool.and_eq_true, beq_iff_eq] at h
    obtain ⟨h1, h2⟩ := h
    subst h1
    have hcb := (Val.bits.inj hd).1
    rw [h2, hcb]
  · have := Val.eq_of_beq _ _ h
    subst this
    exact hd

/-! ### SEQUENCE OF -/

theorem xt_sequenceOf {eD eE : Ty} (c : SizeC) (ih : XTd eD eE) :
    XTd (.sequenceOf eD c) (.sequenceOf eE c) := by
  intro v bytes rest hwf hwf2 hd hdk ht hu hns he
  cases v <;> try (simp only [hasType, Bool.false_eq_true] at ht; done)
  rename_i vs
  simp only [hasType, Bool.and_eq_true, List.all_eq_true] at ht
  simp only [Ty.wf, Bool.and_eq_true] at hwf
  simp only [oerWf] at hwf2
  simp only [Ty.defaultsOk] at hd
  simp only [dOk] at hdk
  simp only [utf8Ok, List.all_eq_true] at hu
  simp only [noSwallow, List.all_eq_true] at hns
  simp only [view]
  rw [enc] at he
  rw [dec]
  split at he
  · rename_i items q hitems hq
    cases he
    simp only [bind, Except.bind, List.append_assoc]
    rw [decUnsigned_encUnsigned hq]
    simp only
    rw [decRepeat_mapM (enc eE) (view false eD eE) (dec eD) vs items rest ?_ hitems]
    intro x hx bs r hbs
    exact ih x bs r hwf.1 hwf2 hd hdk (ht.1 x hx) (hu x hx) (hns x hx) hbs
  · cases he
  · cases he

/-! ### alternatives -/

/-- pointwise relation on the common prefix of two lists of alternatives (same names) -/
def AltsX (P : Ty → Ty → Prop) : Alts → Alts → Prop
  | .cons n tD mD, .cons n' tE mE => n = n' ∧ P tD tE ∧ AltsX P mD mE
  | _, _ => True

theorem viewAlt_nil_left (aE : Alts) (name : String) (v : Val) : viewAlt false .nil aE name v = none := by
  cases aE <;> rfl

theorem viewAlt_nil_right (aD : Alts) (name : String) (v : Val) : viewAlt false aD .nil name v = none := by
  cases aD <;> rfl

theorem viewAlt_cons (n n' : String) (tD tE : Ty) (mD mE : Alts) (name : String) (v : Val) :
    viewAlt false (.cons n tD mD) (.cons n' tE mE) name v =
      if n == name then some (view false tD tE v) else viewAlt false mD mE name v := rfl

/-- the alternative the encoder selects is the decoder's alternative at the same position, or lies
beyond the decoder's alternatives -/
theorem alts_find {P : Ty → Ty → Prop} (name : String) (v : Val) (aE : Alts) :
    ∀ (aD : Alts), AltsX P aD aE → dOkAlts false aD aE →
    ∀ (j : Nat) (tE' : Ty), aE.findO name = some (j, tE') →
      (∃ tD', aD.findO name = some (j, tD') ∧ P tD' tE' ∧ dOk false tD' tE' ∧
        viewAlt false aD aE name v = some (view false tD' tE' v)) ∨
      (aD.length ≤ j ∧ viewAlt false aD aE name v = none) := by
  induction aE using Alts.ind with
  | nil => intro aD _ _ j tE' hf; simp [Alts.findO] at hf
  | cons n tE rest ih =>
    intro aD hx hdk j tE' hf
    cases aD with
    | nil => exact Or.inr ⟨by simp [Alts.length], viewAlt_nil_left _ _ _⟩
    | cons n' tD restD =>
      simp only [AltsX] at hx
      obtain ⟨hn, hp, hx'⟩ := hx
      subst hn
      simp only [dOkAlts] at hdk
      rw [viewAlt_cons]
      simp only [Alts.findO] at hf ⊢
      by_cases hname : (n' == name) = true
      · simp only [hname, if_true, Option.some.injEq, Prod.mk.injEq] at hf ⊢
        obtain ⟨h1, h2⟩ := hf
        subst h1; subst h2
        exact Or.inl ⟨tD, ⟨rfl, rfl⟩, hp, hdk.1, rfl⟩
      · simp only [hname, if_false, Bool.false_eq_true] at hf ⊢
        simp only [Option.map_eq_some_iff] at hf
        obtain ⟨⟨j', t''⟩, h1, h2⟩ := hf
        cases h2
        rcases ih restD hx' hdk.2 j' _ h1 with ⟨tD', h3, h4, h5, h6⟩ | ⟨h3, h4⟩
        · exact Or.inl ⟨tD', by rw [h3]; rfl, h4, h5, h6⟩
        · exact Or.inr ⟨by simp [Alts.length]; omega, h4⟩

theorem alts_find_none {P : Ty → Ty → Prop} (name : String) (v : Val) (aE : Alts) :
    ∀ (aD : Alts), AltsX P aD aE → aE.findO name = none → viewAlt false aD aE name v = none := by
  induction aE using Alts.ind with
  | nil => intro aD _ _; exact viewAlt_nil_right _ _ _
  | cons n tE rest ih =>
    intro aD hx hf
    cases aD with
    | nil => exact viewAlt_nil_left _ _ _
    | cons n' tD restD =>
      simp only [AltsX] at hx
      obtain ⟨hn, hp, hx'⟩ := hx
      subst hn
      rw [viewAlt_cons]
      simp only [Alts.findO] at hf
      by_cases hname : (n' == name) = true
      · simp only [hname, if_true] at hf; cases hf
      · simp only [hname, if_false, Bool.false_eq_true, Option.map_eq_none_iff] at hf ⊢
        exact ih restD hx' hf

theorem decAltAdd_none (as : Alts) (idx i : Nat) (bs : Bytes) (h : i + as.length ≤ idx) :
    decAltAdd as (encTag idx 0x80) i bs = none := by
  induction as using Alts.ind generalizing i with
  | nil => rfl
  | cons n t rest ih =>
    simp only [Alts.length] at h
    have hne : (encTag idx 0x80 == encTag i 0x80) = false := by
      rw [beq_eq_false_iff_ne]
      intro e
      have := encTag_inj e
      omega
    simp only [decAltAdd, hne, Bool.false_eq_true, if_false]
    exact ih (i + 1) (by omega)

/-! ### CHOICE -/

theorem xt_choice {rD rE aD aE : Alts} (x : Bool)
    (hr : AltsX XTd rD rE) (hlen : rD.length = rE.length) (ha : AltsX XTd aD aE) :
    XTd (.choice rD x aD) (.choice rE x aE) := by
  intro v bytes rest hwf hwf2 hd hdk ht hu hns he
  cases v <;> try (simp only [hasType, Bool.false_eq_true] at ht; done)
  rename_i name v
  simp only [hasType] at ht
  simp only [Ty.wf, Bool.and_eq_true, decide_eq_true_eq, Bool.or_eq_true, beq_iff_eq] at hwf
  obtain ⟨⟨⟨⟨hwr, hwa⟩, _⟩, hnd⟩, hext⟩ := hwf
  simp only [oerWf, Bool.and_eq_true] at hwf2
  simp only [Ty.defaultsOk, Bool.and_eq_true] at hd
  simp only [dOk] at hdk
  simp only [utf8Ok, Bool.and_eq_true] at hu
  simp only [noSwallow, Bool.and_eq_true] at hns
  rw [utf8OkAlt_find, utf8OkAlt_find] at hu
  rw [noSwallowAlt_find, noSwallowAlt_find] at hns
  simp only [view]
  rw [enc, encAlt_find, encAlt_find] at he
  rw [dec]
  rcases choice_typed hnd ht with ⟨j, t, hf, hty⟩ | ⟨hf, j, t, hfa, hty⟩
  · simp only [hf, Option.map_some, Nat.zero_add] at he hu hns
    have hwt := find_all_oer name rE j t hf (alts_all_wf_oer rE hwr)
    have hwt2 := find_all_oer name rE j t hf (alts_all_oerWf rE hwf2.1)
    have hdt := find_all_oer name rE j t hf (alts_all_defaultsOk_oer rE hd.1)
    have hj := find_lt_oer name rE j t hf
    rcases alts_find name v rE rD hr hdk.1 j t hf with ⟨tD', hfD, hxt, hdk', hview⟩ | ⟨hle, _⟩
    · rw [hview]
      simp only
      split at he
      · cases he
      · rename_i body hbody
        cases he
        simp only [bind, Except.bind, List.append_assoc]
        rw [readTag_encTag]
        simp only
        have := decAlt_find rD name j tD' hfD 0 (body ++ rest)
        rw [Nat.zero_add] at this
        rw [this]
        simp only [bind, Except.bind]
        rw [hxt v body rest hwt hwt2 hdt hdk' hty hu.1 hns.1 hbody]
    · omega
  · simp only [hf, hfa, Option.map_some, Option.map_none] at he hu hns
    have hwt := find_all_oer name aE j t hfa (alts_all_wf_oer aE hwa)
    have hwt2 := find_all_oer name aE j t hfa (alts_all_oerWf aE hwf2.2)
    have hdt := find_all_oer name aE j t hfa (alts_all_defaultsOk_oer aE hd.2)
    have hj := find_lt_oer name aE j t hfa
    rw [alts_find_none name v rE rD hr hf]
    simp only
    split at he
    · cases he
    · rename_i body hbody
      simp only [bind, Except.bind] at he
      split at he
      · cases he
      · rename_i l hl
        cases he
        simp only [bind, Except.bind, List.append_assoc]
        rw [readTag_encTag]
        simp only
        rw [decAlt_none rD _ 0 _ (by omega)]
        simp only
        rcases alts_find name v aE aD ha hdk.2 j t hfa with ⟨tD', hfD, hxt, hdk', hview⟩ | ⟨hle, hview⟩
        · rw [hview]
          simp only
          rw [← hlen, decAltAdd_find aD name j tD' hfD rD.length]
          simp only [bind, Except.bind]
          rw [readLenDet_lenDet hl]
          simp only
          rw [hxt v body rest hwt hwt2 hdt hdk' hty hu.2 hns.2 hbody]
        · rw [hview]
          simp only
          rw [decAltAdd_none aD _ rD.length _ (by omega)]
          have hx : x = true := by
            rcases hext with h | h
            · exact h
            · omega
          subst hx
          simp only [if_true, bind, Except.bind]
          rw [readLenDet_lenDet hl]
          simp only
          rw [readBytes_append body rest rfl]

end Asn1.Ext.OerX
