import Asn1Proofs.Lemmas.DerRoundtrip
/-
  Machine-checked counterexamples showing that the two hypotheses of `Der.roundtrip_der` /
  `roundtrip_ber` that go beyond `t.wf`, `t.defaultsOk`, `hasType t v` are necessary.

  1. `Oer.oerWf` (enumeration values pairwise distinct over root AND additions):
       E ::= ENUMERATED { a(0), ..., b(0) },  value b  |->  0a 01 00  |->  a
  2. `X690.defaultsOkV` instead of `Ty.defaultsOk` (the DEFAULT value itself must spell out the
     DEFAULT-valued extension additions of its own type, because the decoders return the DEFAULT
     as written but fill in such additions when they decode an encoding):
       S ::= SEQUENCE { x SEQUENCE { a BOOLEAN, ..., b INTEGER DEFAULT 5 } DEFAULT { a TRUE } }
       value { x { a TRUE } }  |->  30 00  |->  { x { a TRUE } },  canonical value { x { a TRUE, b 5 } }
     (with the PER / OER normal form `Typing.canon` as canonical value the statement fails too:
      { x { a TRUE, b 5 } } is encoded as 30 05 a0 03 80 01 ff and decoded as itself, but
      `canon` drops nothing and adds nothing there -- it is the *decoder* that differs: see
      `cex_canon_not_enough`.)
-/
namespace Asn1.Der
open Asn1.X690 (canonV defaultsOkV)

theorem ne_of_beq_false {a b : Val} (h : (a == b) = false) : a ≠ b := by
  intro e; subst e; rw [Val.beq_self] at h; cases h

/-! ### 1. duplicate enumeration value in the additions -/

def cexEnumTy : Ty := .enumerated [("a", 0)] (some [("b", 0)])

theorem cex_enum_hyps : cexEnumTy.wf = true ∧ cexEnumTy.defaultsOk = true ∧ defaultsOkV cexEnumTy = true ∧
    hasType cexEnumTy (.enum "b") = true ∧ Oer.oerWf cexEnumTy = false := by
  refine ⟨by decide, by decide, by decide, by decide, by decide⟩

theorem cex_enum_enc : encode cexEnumTy (.enum "b") = .ok [0x0a, 1, 0] := by rfl
theorem cex_enum_dec : decodeWithLength cexEnumTy [0x0a, 1, 0] = .ok (.enum "a", 3) := by rfl
theorem cex_enum_dec_ber : BerCodec.decodeWithLength cexEnumTy [0x0a, 1, 0] = .ok (.enum "a", 3) := by rfl

/-- without `Oer.oerWf` the round trip fails (DER; the same bytes and result for BER) -/
theorem roundtrip_without_enum_distinct_false :
    ¬ (∀ (t : Ty) (v : Val) (bytes rest : Bytes),
        t.wf = true → defaultsOkV t = true → hasType t v = true → encode t v = .ok bytes →
        decodeWithLength t (bytes ++ rest) = .ok (canon' t v, bytes.length)) := by
  intro h
  have := h cexEnumTy (.enum "b") [0x0a, 1, 0] [] (by decide) (by decide) (by decide) cex_enum_enc
  rw [List.append_nil, cex_enum_dec] at this
  have hv : Val.enum "a" = canon' cexEnumTy (.enum "b") := by
    injection this with h1; exact (Prod.mk.inj h1).1
  exact ne_of_beq_false (by rfl) hv

/-! ### 2. a DEFAULT value that is not in `canonV` normal form -/

def cexInner : Ty := .sequence (.cons "a" .mandatory .boolean .nil) true
  (.cons "b" (.default (.int 5)) (.integer ⟨none, none, false⟩) .nil)
def cexDefTy : Ty := .sequence (.cons "x" (.default (.record [("a", .bool true)])) cexInner .nil) false .nil
def cexDefVal : Val := .record [("x", .record [("a", .bool true)])]

theorem cex_def_hyps : cexDefTy.wf = true ∧ Oer.oerWf cexDefTy = true ∧ cexDefTy.defaultsOk = true ∧
    hasType cexDefTy cexDefVal = true ∧ defaultsOkV cexDefTy = false := by
  refine ⟨by decide, by decide, by decide, by decide, by decide⟩

theorem cex_def_enc : encode cexDefTy cexDefVal = .ok [0x30, 0] := by rfl
theorem cex_def_dec : decodeWithLength cexDefTy [0x30, 0] = .ok (cexDefVal, 2) := by rfl
theorem cex_def_dec_ber : BerCodec.decodeWithLength cexDefTy [0x30, 0] = .ok (cexDefVal, 2) := by rfl
theorem cex_def_canon : canon' cexDefTy cexDefVal
    = .record [("x", .record [("a", .bool true), ("b", .int 5)])] := by rfl

/-- with `Ty.defaultsOk` in place of `X690.defaultsOkV` the round trip fails -/
theorem roundtrip_with_plain_defaultsOk_false :
    ¬ (∀ (t : Ty) (v : Val) (bytes rest : Bytes),
        t.wf = true → Oer.oerWf t = true → t.defaultsOk = true → hasType t v = true →
        encode t v = .ok bytes →
        decodeWithLength t (bytes ++ rest) = .ok (canon' t v, bytes.length)) := by
  intro h
  have := h cexDefTy cexDefVal [0x30, 0] [] (by decide) (by decide) (by decide) (by decide) cex_def_enc
  rw [List.append_nil, cex_def_dec] at this
  have hv : cexDefVal = canon' cexDefTy cexDefVal := by
    injection this with h1; exact (Prod.mk.inj h1).1
  exact ne_of_beq_false (by rfl) hv

/-- ... and `Typing.canon` is not the canonical value of the BER / DER decoders: an absent
DEFAULT extension addition comes back filled in -/
theorem cex_canon_not_enough :
    encode cexInner (.record [("a", .bool true)]) = .ok [0x30, 3, 0x80, 1, 0xff] ∧
    decodeWithLength cexInner [0x30, 3, 0x80, 1, 0xff]
      = .ok (.record [("a", .bool true), ("b", .int 5)], 5) ∧
    canon cexInner (.record [("a", .bool true)]) = .record [("a", .bool true)] := by
  refine ⟨by rfl, by rfl, by rfl⟩

end Asn1.Der

#print axioms Asn1.Der.roundtrip_without_enum_distinct_false
#print axioms Asn1.Der.roundtrip_with_plain_defaultsOk_false
