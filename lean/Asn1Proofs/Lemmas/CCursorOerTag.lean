import Asn1Proofs.Lemmas.CCursorOerFunDec
/-
  C10, functional layer: `decoder_read_tag` against the Python-codec model `Oer.readTag`.
  The C function returns the tag octets packed big endian into a `uint32_t` (wrapping modulo 2^32
  for tags longer than four octets); the Python model returns the octets themselves.
-/
namespace Asn1.C10
open Asn1 Asn1.CCursor Asn1.CCursorOer

/-- one step of big-endian accumulation -/
def accStep (a b : Nat) : Nat := 256 * a + b

theorem bytesToNat_eq_foldl (bs : Bytes) : bytesToNat bs = bs.foldl accStep 0 := rfl

theorem foldl_accStep_mod (t : Bytes) : ∀ a : Nat,
    (t.foldl accStep (a % 4294967296)) % 4294967296 = (t.foldl accStep a) % 4294967296 := by
  induction t with
  | nil => intro a; simp
  | cons x t ih =>
    intro a
    simp only [List.foldl_cons]
    rw [← ih (accStep (a % 4294967296) x), ← ih (accStep a x)]
    congr 2
    unfold accStep
    omega

/-- `tag <<= 8; tag |= (uint32_t)octet` -/
theorem tag_step_toNat (tag : UInt32) (b : UInt8) :
    (tag <<< 8 ||| b.toUInt32).toNat = accStep tag.toNat b.toNat % 4294967296 := by
  have hb := b.toNat_lt
  rw [UInt32.toNat_or, UInt32.toNat_shiftLeft]
  simp only [UInt8.toNat_toUInt32]
  have h8 : (8 : UInt32).toNat % 32 = 8 := by decide
  rw [h8, Nat.shiftLeft_eq, or_eq_add _ _ 8 (by omega) (by omega)]
  unfold accStep
  omega

theorem remaining_adv_of_fits {d : ODec} (hf : d.fits 1) : (d.adv 1).remaining + 1 = d.remaining := by
  rw [adv_of_fits hf]
  obtain ⟨h0, h1⟩ := hf
  unfold ODec.remaining
  simp only
  omega

/-- the `do … while` loop against `readTagRest` of the Python model -/
theorem tagLoop_readTagRest (f : Nat) : ∀ (fuel : Nat) (tag : UInt32) {d : ODec} {t r : Bytes},
    DInv d → 0 ≤ d.size → d.remaining + 1 ≤ fuel → Oer.readTagRest f d.rest = .ok (t, r) →
    ∃ v d', tagLoopSpec fuel tag d = (some v, d') ∧
      v.toNat = (t.foldl accStep tag.toNat) % 4294967296 ∧ d'.rest = r ∧ 0 ≤ d'.size ∧ DInv d' := by
  induction f with
  | zero => intro fuel tag d t r _ _ _ hr; simp [Oer.readTagRest] at hr
  | succ f ih =>
    intro fuel tag d t r h h0 hfuel hr
    obtain ⟨fuel', rfl⟩ : ∃ k, fuel = k + 1 := ⟨fuel - 1, by omega⟩
    unfold Oer.readTagRest at hr
    cases hrest : d.rest with
    | nil => rw [hrest] at hr; simp [Oer.readByte, bind, Except.bind] at hr
    | cons b r0 =>
      have hf1 : d.fits 1 := fits_of_le_rest h h0 (by rw [hrest]; simp)
      have hsp := rest_split h hf1
      rw [next1 h hf1, hrest] at hsp
      simp only [List.cons_append, List.nil_append, List.cons.injEq] at hsp
      obtain ⟨hb, ht⟩ := hsp
      have h1 := DInv_adv h 1
      have h10 := size_adv_of_fits hf1
      rw [hrest] at hr
      simp only [Oer.readByte, bind, Except.bind] at hr
      unfold tagLoopSpec
      simp only []
      by_cases hlt : b < 128
      · simp only [hlt, if_true] at hr
        cases hr
        have hc : ¬ ((tag <<< 8 ||| d.u8.toUInt32) &&& 0x80 = 0x80) := by
          rw [tag_continue_iff]; omega
        rw [if_neg hc]
        refine ⟨_, _, rfl, ?_, ht.symm, h10, h1⟩
        rw [tag_step_toNat, hb]
        rfl
      · simp only [hlt, if_false] at hr
        have hc : (tag <<< 8 ||| d.u8.toUInt32) &&& 0x80 = 0x80 := by
          rw [tag_continue_iff]; omega
        rw [if_pos hc]
        cases hrr : Oer.readTagRest f r0 with
        | error e => rw [hrr] at hr; cases hr
        | ok x =>
          obtain ⟨t', r'⟩ := x
          rw [hrr] at hr
          simp only at hr
          cases hr
          rw [ht] at hrr
          have hrem := remaining_adv_of_fits hf1
          obtain ⟨v, d', hv, hval, hr', hs', hi'⟩ :=
            ih fuel' (tag <<< 8 ||| d.u8.toUInt32) h1 h10 (by omega) hrr
          refine ⟨v, d', hv, ?_, hr', hs', hi'⟩
          rw [hval, tag_step_toNat, foldl_accStep_mod, hb]
          rfl

theorem mask3f (b : UInt8) : (b.toUInt32 &&& 0x3f = 0x3f) ↔ b.toNat % 64 = 63 := by
  rw [← UInt32.toNat_inj, UInt32.toNat_and]
  simp only [UInt8.toNat_toUInt32]
  have h3f : (0x3f : UInt32).toNat = 2 ^ 6 - 1 := by decide
  rw [h3f, Nat.and_two_pow_sub_one_eq_mod]

/-- FUNCTIONAL, `decoder_read_tag`: whenever the Python codec's `read_tag` succeeds on the remaining
input with tag octets `tb`, the C function returns those octets packed big endian (modulo 2^32)
and leaves the same remaining input -/
theorem readTag_readTag {d : ODec} (h : DInv d) (h0 : 0 ≤ d.size) (j : Junk) (hj : j.Pre)
    {tb r : Bytes} (hr : Oer.readTag d.rest = .ok (tb, r)) :
    ∃ v d', d.readTag j = .ok (some v, d') ∧ v.toNat = bytesToNat tb % 4294967296 ∧
      d'.rest = r ∧ 0 ≤ d'.size ∧ DInv d' := by
  rw [readTag_eq h j hj]
  unfold Oer.readTag at hr
  cases hrest : d.rest with
  | nil => rw [hrest] at hr; simp [Oer.readByte, bind, Except.bind] at hr
  | cons b r0 =>
    have hf1 : d.fits 1 := fits_of_le_rest h h0 (by rw [hrest]; simp)
    have hsp := rest_split h hf1
    rw [next1 h hf1, hrest] at hsp
    simp only [List.cons_append, List.nil_append, List.cons.injEq] at hsp
    obtain ⟨hb, ht⟩ := hsp
    have h1 := DInv_adv h 1
    have h10 := size_adv_of_fits hf1
    have hblt := d.u8.toNat_lt
    rw [hrest] at hr
    simp only [Oer.readByte, bind, Except.bind] at hr
    unfold tagSpec
    simp only []
    by_cases hm : b % 64 = 63
    · simp only [hm, if_true] at hr
      have hc : d.u8.toUInt32 &&& 0x3f = 0x3f := by rw [mask3f]; omega
      rw [if_pos hc]
      cases hrr : Oer.readTagRest (r0.length + 1) r0 with
      | error e => rw [hrr] at hr; cases hr
      | ok x =>
        obtain ⟨t', r'⟩ := x
        rw [hrr] at hr
        simp only at hr
        cases hr
        rw [ht] at hrr
        obtain ⟨v, d', hv, hval, hr', hs', hi'⟩ :=
          tagLoop_readTagRest _ (((d.adv 1).size - (d.adv 1).pos).toNat + 2) d.u8.toUInt32 h1 h10
            (by unfold ODec.remaining; omega) hrr
        refine ⟨v, d', by rw [hv], ?_, hr', hs', hi'⟩
        rw [hval, bytesToNat_eq_foldl, List.foldl_cons, UInt8.toNat_toUInt32, hb]
        have : accStep 0 d.u8.toNat = d.u8.toNat := by unfold accStep; omega
        rw [this]
    · simp only [hm, if_false] at hr
      cases hr
      have hc : ¬ (d.u8.toUInt32 &&& 0x3f = 0x3f) := by rw [mask3f]; omega
      rw [if_neg hc]
      refine ⟨_, _, rfl, ?_, ht.symm, h10, h1⟩
      rw [UInt8.toNat_toUInt32, bytesToNat_eq_foldl, hb]
      simp [accStep]

end Asn1.C10
