import Asn1Proofs.Lemmas.PerDefs
/-
  Aligned PER: round trip and totality for BOOLEAN, NULL, INTEGER, ENUMERATED.
-/
set_option linter.unusedSimpArgs false
namespace Asn1.Per
open Asn1.Uper (smallLen sortByVal nameIndex encUnconstrained encNsnnwn canon_boolean canon_null
  canon_integer canon_enumerated nameIndex_spec nameIndex_of_mem nameIndex_none mem_namesOf_sortByVal)

theorem rt_boolean : RT .boolean := by
  intro v pos pos' bits rest fuel _ _ _ ht _ _ he _
  cases v <;> simp only [hasType, Bool.false_eq_true] at ht
  rw [enc] at he; cases he
  rw [dec, canon_boolean]; rfl

theorem rt_null : RT .null := by
  intro v pos pos' bits rest fuel _ _ _ ht _ _ he _
  cases v <;> simp only [hasType, Bool.false_eq_true] at ht
  rw [enc] at he; cases he
  rw [dec, canon_null]; rfl

theorem rt_integer (c : IntC) : RT (.integer c) := by
  intro v pos pos' bits rest fuel hwf _ _ ht hf hp he _
  cases v <;> simp only [hasType, Bool.false_eq_true] at ht
  rename_i i
  rw [canon_integer]
  rw [enc] at he
  rw [dec]
  rw [Ty.wf] at hwf
  rw [fragFree] at hf
  split at he
  · rename_i lo hi hlo hhi
    simp only [hlo, hhi, decide_eq_true_eq] at hwf hf ⊢
    cases hext : c.ext
    · simp only [hext, Bool.false_eq_true, if_false, Bool.false_or, intInRange, hlo, hhi,
        Bool.and_eq_true, decide_eq_true_eq] at he ht ⊢
      rw [if_pos ht] at he
      cases he
      simp only [bind, Except.bind]
      rw [decConstrainedInt_enc _ _ _ _ _ _ hp ht.1 ht.2]
    · simp only [hext, if_true] at he ⊢
      split at he
      · rename_i hin
        cases he
        simp only [bind, Except.bind, List.cons_append, List.nil_append, readBit_cons,
          Bool.false_eq_true, if_false]
        rw [decConstrainedInt_enc _ _ _ _ _ _ (by omega) hin.1 hin.2]
        simp only [List.length_cons, Except.ok.injEq, Prod.mk.injEq, true_and]
        exact St.eq_of_pos _ (by omega)
      · rename_i hin
        cases he
        have hs : intByteLength i < 16384 := by
          simp only [Bool.or_eq_true, Bool.and_eq_true, decide_eq_true_eq, smallLen] at hf
          rcases hf with hf | hf
          · exact absurd hf hin
          · exact hf
        simp only [bind, Except.bind, List.cons_append, List.nil_append, readBit_cons, if_true,
          List.append_assoc]
        rw [align_alignBits _ _ _ (by omega), decUnconstrained_enc _ i rest hs]
        simp only [List.length_cons, List.length_append, alignBits_length, Except.ok.injEq,
          Prod.mk.injEq, true_and]
        exact St.eq_of_pos _ (by omega)
  · rename_i hno
    have hext : c.ext = false := by
      split at hwf
      · rename_i lo hi hlo hhi; exact absurd hhi (hno lo hi hlo)
      · simpa using hwf
    have hs : intByteLength i < 16384 := by
      split at hf
      · rename_i lo hi hlo hhi; exact absurd hhi (hno lo hi hlo)
      · simpa [smallLen] using hf
    simp only [hext, Bool.false_eq_true, if_false] at he ⊢
    cases he
    simp only [bind, Except.bind, List.append_assoc]
    rw [align_alignBits _ _ _ hp, decUnconstrained_enc _ i rest hs]
    simp only [List.length_append, alignBits_length, Nat.add_assoc]

theorem rt_enumerated (root : List (String × Int)) (ext : Option (List (String × Int))) :
    RT (.enumerated root ext) := by
  intro v pos pos' bits rest fuel hwf _ hns ht hf _ he _
  cases v <;> simp only [hasType, Bool.false_eq_true] at ht
  rename_i name
  rw [canon_enumerated]
  have hroot : ∀ i, nameIndex name (sortByVal root) = some i →
      i < 2 ^ bitLength ((sortByVal root).length - 1) ∧ ∃ x, (sortByVal root)[i]? = some (name, x) := by
    intro i hi
    obtain ⟨h1, x, h2⟩ := nameIndex_spec _ _ _ hi
    exact ⟨lt_two_pow_bitLength_of_le (by omega), x, h2⟩
  cases ext with
  | none =>
    rw [enc] at he
    rw [dec]
    simp only at he ⊢
    split at he
    · rename_i i hi
      cases he
      obtain ⟨h1, x, h2⟩ := hroot i hi
      simp only [bind, Except.bind]
      rw [readNat_natToBits _ _ h1]
      simp only [h2, natToBits_length]
    · cases he
  | some adds =>
    rw [enc] at he
    rw [dec]
    simp only at he ⊢
    split at he
    · rename_i i hi
      cases he
      obtain ⟨h1, x, h2⟩ := hroot i hi
      simp only [bind, Except.bind, List.cons_append, List.nil_append, readBit_cons,
        Bool.not_false, if_true]
      rw [readNat_natToBits _ _ h1]
      simp only [h2, List.length_cons, natToBits_length, Except.ok.injEq, Prod.mk.injEq, true_and]
      exact St.eq_of_pos _ (by omega)
    · split at he
      · rename_i i hi
        cases he
        obtain ⟨h1, x, h2⟩ := nameIndex_spec _ _ _ hi
        simp only [Ty.nsOk] at hns
        simp only [bind, Except.bind, List.cons_append, List.nil_append, readBit_cons,
          Bool.not_true, Bool.false_eq_true, if_false]
        rw [decNsnnwn_enc _ i rest (nsIndexOk_lt hns h1)]
        simp only [h2, List.length_cons, Except.ok.injEq, Prod.mk.injEq, true_and]
        exact St.eq_of_pos _ (by omega)
      · cases he

/-! ### totality -/

theorem et_boolean : ET .boolean := by
  intro v pos _ ht
  cases v <;> simp only [hasType, Bool.false_eq_true] at ht
  exact ⟨_, by rw [enc]⟩

theorem et_null : ET .null := by
  intro v pos _ ht
  exact ⟨_, by rw [enc]⟩

theorem et_integer (c : IntC) : ET (.integer c) := by
  intro v pos hwf ht
  cases v <;> simp only [hasType, Bool.false_eq_true] at ht
  rename_i i
  rw [enc]
  rw [Ty.wf] at hwf
  split
  · rename_i lo hi hlo hhi
    split
    · split <;> exact ⟨_, rfl⟩
    · rename_i hext
      simp only [hext, Bool.false_or, intInRange, hlo, hhi, Bool.and_eq_true,
        decide_eq_true_eq] at ht
      rw [if_pos ht]
      exact ⟨_, rfl⟩
  · rename_i hno
    have hext : c.ext = false := by
      split at hwf
      · rename_i lo hi hlo hhi; exact absurd hhi (hno lo hi hlo)
      · simpa using hwf
    simp only [hext, Bool.false_eq_true, if_false]
    exact ⟨_, rfl⟩

theorem et_enumerated (root : List (String × Int)) (ext : Option (List (String × Int))) :
    ET (.enumerated root ext) := by
  intro v pos hwf ht
  cases v <;> simp only [hasType, Bool.false_eq_true] at ht
  rename_i name
  by_cases hr : name ∈ namesOf root
  · obtain ⟨i, hi⟩ := nameIndex_of_mem name (sortByVal root) ((mem_namesOf_sortByVal _ _).2 hr)
    cases ext <;> rw [enc] <;> simp only [hi] <;> exact ⟨_, rfl⟩
  · have hnone := nameIndex_none name (sortByVal root) (fun h => hr ((mem_namesOf_sortByVal _ _).1 h))
    have hc : (namesOf root).contains name = false := by simpa using hr
    cases ext with
    | none => simp at ht; exact absurd ht hr
    | some adds =>
      rw [enc]
      simp only [hc, Bool.false_or, List.contains_iff_mem] at ht
      obtain ⟨i, hi⟩ := nameIndex_of_mem name adds (by simpa using ht)
      simp only [hnone, hi]
      exact ⟨_, rfl⟩

end Asn1.Per
