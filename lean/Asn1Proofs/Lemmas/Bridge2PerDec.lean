import Asn1Proofs.Lemmas.PyStrLemmas
/-
  BRIDGE, part 2c: the translated `per.Decoder` (the bit string held as a Python `str` of '0' / '1' characters and a
  count of unread bits) refines the `Per.St` readers of `Asn1Model/Per.lean`.
-/
set_option linter.unusedSimpArgs false
namespace Asn1.Bridge
open Asn1 Asn1.Translated
open Asn1.Uper (Err)

/-! ### per.Decoder -/

/-- CHANGED: the field `al` is new.  `Decoder.__init__` sets `total_number_of_bits = 8 * len(encoded)`, and
`Per.align` (which pads the number of bits READ to a multiple of 8) agrees with `Decoder.align_always` (which drops
`number_of_bits & 7` of the REMAINING bits) only because of that; without `al` the statements about
`align_always` and `read_constrained_whole_number` are false (`per_align_always_refines_original_false`). -/
structure PDecInv (d : per_DecoderS) : Prop where
  nb : 0 ≤ d.number_of_bits
  le : d.number_of_bits ≤ d.total_number_of_bits
  len : (d.value.length : Int) = d.total_number_of_bits
  bin : ∀ c ∈ d.value, c = '0' ∨ c = '1'
  al : d.total_number_of_bits % 8 = 0

/-- the invariant as originally stated (no alignment of the total), kept for the counterexample -/
structure PDecInv0 (d : per_DecoderS) : Prop where
  nb : 0 ≤ d.number_of_bits
  le : d.number_of_bits ≤ d.total_number_of_bits
  len : (d.value.length : Int) = d.total_number_of_bits
  bin : ∀ c ∈ d.value, c = '0' ∨ c = '1'

/-- position and remaining bits -/
def pAbs (d : per_DecoderS) : Per.St :=
  ⟨(d.total_number_of_bits - d.number_of_bits).toNat,
   (d.value.drop (d.total_number_of_bits - d.number_of_bits).toNat).map (· == '1')⟩

/-- `Refines` spelled out -/
theorem Refines.cases {σ τ α β : Type} {inv : σ → Prop} {abs : σ → τ} {val : α → β → Prop}
    {x : Except String (σ × α)} {y : Except Err (β × τ)} (h : Refines inv abs val x y) :
    (∃ s' a b, x = .ok (s', a) ∧ y = .ok (b, abs s') ∧ inv s' ∧ val a b) ∨
    (∃ e m, x = .error e ∧ y = .error m ∧ errOk m e) := by
  cases x with
  | error e =>
    cases y with
    | error m => exact .inr ⟨e, m, rfl, rfl, h⟩
    | ok q => exact h.elim
  | ok p =>
    cases y with
    | error m => exact h.elim
    | ok q =>
      obtain ⟨s', a⟩ := p
      obtain ⟨b, t⟩ := q
      obtain ⟨h1, h2, h3⟩ := h
      subst h2
      exact .inl ⟨s', a, b, rfl, rfl, h1, h3⟩

theorem Refines.ok {σ τ α β : Type} {inv : σ → Prop} {abs : σ → τ} {val : α → β → Prop} {s : σ} {a : α} {b : β} {t : τ}
    (h1 : inv s) (h2 : abs s = t) (h3 : val a b) : Refines inv abs val (.ok (s, a)) (.ok (b, t)) := ⟨h1, h2, h3⟩

theorem Refines.err {σ τ α β : Type} {inv : σ → Prop} {abs : σ → τ} {val : α → β → Prop} {e : String} {m : Err}
    (h : errOk m e) : Refines inv abs val (.error e : Except String (σ × α)) (.error m : Except Err (β × τ)) := h

theorem PDecInv.view {d : per_DecoderS} (h : PDecInv d) :
    ∃ (N T : Nat) (val : List Char), d = ⟨(N : Int), (T : Int), val⟩ ∧ N ≤ T ∧ val.length = T ∧
      (∀ c ∈ val, c = '0' ∨ c = '1') ∧ T % 8 = 0 := by
  obtain ⟨nb, tot, val⟩ := d
  obtain ⟨N, hN⟩ := Int.eq_ofNat_of_zero_le h.nb
  have hle := h.le
  have hlen := h.len
  have hal := h.al
  simp only at hN hle hlen hal
  subst hN
  obtain ⟨T, hT⟩ := Int.eq_ofNat_of_zero_le (show 0 ≤ tot by omega)
  subst hT
  exact ⟨N, T, val, rfl, by omega, by omega, h.bin, by omega⟩

theorem pdec_inv_mk (N T : Nat) (val : List Char) (h1 : N ≤ T) (h2 : val.length = T)
    (h3 : ∀ c ∈ val, c = '0' ∨ c = '1') (h4 : T % 8 = 0) : PDecInv ⟨(N : Int), (T : Int), val⟩ :=
  ⟨by show (0 : Int) ≤ (N : Int); omega, by show (N : Int) ≤ (T : Int); omega,
   by show (val.length : Int) = (T : Int); omega, h3, by show (T : Int) % 8 = 0; omega⟩

theorem pAbs_mk (N T : Nat) (val : List Char) (h : N ≤ T) :
    pAbs ⟨(N : Int), (T : Int), val⟩ = ⟨T - N, (val.drop (T - N)).map (· == '1')⟩ := by
  unfold pAbs
  simp only
  rw [show (T : Int) - (N : Int) = ((T - N : Nat) : Int) by omega, Int.toNat_natCast]

theorem pAbs_advance (N T n : Nat) (val : List Char) (hn : n ≤ N) (h : N ≤ T) :
    pAbs ⟨((N - n : Nat) : Int), (T : Int), val⟩ = ⟨T - N + n, ((val.drop (T - N)).map (· == '1')).drop n⟩ := by
  rw [pAbs_mk _ _ _ (by omega), ← List.map_drop, List.drop_drop]
  congr 2
  · omega
  · congr 1; omega

theorem pAbs_bs_length (N T : Nat) (val : List Char) (h : N ≤ T) (hlen : val.length = T) :
    ((val.drop (T - N)).map (· == '1')).length = N := by
  rw [List.length_map, List.length_drop]; omega

theorem per_readNat_eq (n : Nat) (s : Per.St) :
    Per.readNat n s = if n ≤ s.bs.length then .ok (bitsToNat (s.bs.take n), ⟨s.pos + n, s.bs.drop n⟩)
      else .error .decodeError := by
  unfold Per.readNat
  rw [splitExact_eq]
  by_cases h : n ≤ s.bs.length <;> simp [h]

theorem per_readBits_eq (n : Nat) (s : Per.St) :
    Per.readBits n s = if n ≤ s.bs.length then .ok (s.bs.take n, ⟨s.pos + n, s.bs.drop n⟩)
      else .error .decodeError := by
  unfold Per.readBits
  rw [splitExact_eq]
  by_cases h : n ≤ s.bs.length <;> simp [h]

/-! #### simple methods -/

theorem per_number_of_read_bits (d : per_DecoderS) (h : PDecInv d) :
    per_Decoder_number_of_read_bits d = ((pAbs d).pos : Int) := by
  unfold per_Decoder_number_of_read_bits pAbs
  have := h.le
  simp only
  omega

theorem band7 (a : Nat) : Py.band (a : Int) 7 = ((a % 8 : Nat) : Int) := by
  rw [show (7 : Int) = ((7 : Nat) : Int) from rfl, Py.band_natCast]
  congr 1
  exact Nat.and_two_pow_sub_one_eq_mod a 3

theorem per_align_always_refines (d : per_DecoderS) (h : PDecInv d) :
    PDecInv (per_Decoder_align_always d) ∧ pAbs (per_Decoder_align_always d) = Per.align (pAbs d) := by
  obtain ⟨N, T, val, rfl, hNT, hlen, hbin, hal⟩ := h.view
  unfold per_Decoder_align_always
  simp only [band7]
  rw [show (N : Int) - ((N % 8 : Nat) : Int) = ((N - N % 8 : Nat) : Int) by omega]
  refine ⟨pdec_inv_mk _ _ _ (by omega) hlen hbin hal, ?_⟩
  rw [pAbs_advance N T (N % 8) val (by omega) hNT, pAbs_mk N T val hNT]
  unfold Per.align Per.padLen
  simp only
  rw [show (8 - (T - N) % 8) % 8 = N % 8 by omega]

/-- ORIGINAL (false without the alignment of `total_number_of_bits`): with `PDecInv0` in place of `PDecInv`.
Three unread bits of four: the code drops 3 bits (position 4), the model pads position 1 up to 8. -/
theorem per_align_always_refines_original_false :
    ¬ (∀ d : per_DecoderS, PDecInv0 d →
        PDecInv0 (per_Decoder_align_always d) ∧ pAbs (per_Decoder_align_always d) = Per.align (pAbs d)) := by
  intro hall
  have h := hall ⟨3, 4, ['0', '0', '0', '0']⟩
    ⟨by decide, by decide, by decide, by decide⟩
  have h2 := congrArg Per.St.pos h.2
  revert h2
  decide

theorem per_skip_bits_refines (d : per_DecoderS) (h : PDecInv d) (n : Nat) :
    Refines PDecInv pAbs (fun (_ : Unit) (_ : Bits) => True)
      ((per_Decoder_skip_bits d n).map (fun s => (s, ()))) (Per.readBits n (pAbs d)) := by
  obtain ⟨N, T, val, rfl, hNT, hlen, hbin, hal⟩ := h.view
  rw [per_readBits_eq, pAbs_mk N T val hNT]
  simp only [pAbs_bs_length N T val hNT hlen]
  unfold per_Decoder_skip_bits
  by_cases hn : n ≤ N
  · rw [if_pos hn, decide_eq_false (by omega : ¬ ((n : Int) > (N : Int)))]
    simp only [Bool.false_eq_true, if_false]
    rw [show (N : Int) - (n : Int) = ((N - n : Nat) : Int) by omega]
    exact Refines.ok (pdec_inv_mk _ _ _ (by omega) hlen hbin hal) (pAbs_advance N T n val hn hNT) trivial
  · rw [if_neg hn, decide_eq_true (by omega : ((n : Int) > (N : Int)))]
    exact Refines.err (.inl rfl)

theorem per_read_bit_refines (d : per_DecoderS) (h : PDecInv d) :
    Refines PDecInv pAbs bitVal (per_Decoder_read_bit d) (Per.readBit (pAbs d)) := by
  obtain ⟨N, T, val, rfl, hNT, hlen, hbin, hal⟩ := h.view
  rw [pAbs_mk N T val hNT]
  unfold per_Decoder_read_bit per_Decoder_number_of_read_bits Per.readBit
  by_cases h0 : N = 0
  · subst h0
    rw [decide_eq_true (by rfl : ((0 : Nat) : Int) = 0), List.drop_of_length_le (by omega)]
    exact Refines.err (.inl rfl)
  · rw [decide_eq_false (by omega : ¬ ((N : Int) = 0))]
    simp only [Bool.false_eq_true, if_false]
    have hidx : T - N < val.length := by omega
    rw [show (T : Int) - (N : Int) = ((T - N : Nat) : Int) by omega, strIdx_eq val (T - N) hidx,
      List.drop_eq_getElem_cons hidx]
    have hc := hbin _ (List.getElem_mem hidx)
    simp only [bind, Except.bind, intOfDec_bit _ hc, List.map_cons]
    rw [show (N : Int) - 1 = ((N - 1 : Nat) : Int) by omega]
    refine Refines.ok (pdec_inv_mk _ _ _ (by omega) hlen hbin hal) ?_ rfl
    rw [pAbs_mk _ _ _ (by omega)]
    congr 3 <;> omega

/-! #### `read_non_negative_binary_integer` -/

theorem mem_slice {val : List Char} (hbin : ∀ c ∈ val, c = '0' ∨ c = '1') (a n : Nat) :
    ∀ c ∈ (val.drop a).take n, c = '0' ∨ c = '1' :=
  fun c hc => hbin c (List.mem_of_mem_drop (List.mem_of_mem_take hc))

theorem per_rnnbi_mk (N T n : Nat) (val : List Char) (hNT : N ≤ T) (hlen : val.length = T)
    (hbin : ∀ c ∈ val, c = '0' ∨ c = '1') :
    per_Decoder_read_non_negative_binary_integer ⟨(N : Int), (T : Int), val⟩ (n : Int) =
      if n ≤ N then
        .ok (⟨((N - n : Nat) : Int), (T : Int), val⟩,
          ((bitsToNat (((val.drop (T - N)).map (· == '1')).take n) : Nat) : Int))
      else .error "OutOfDataError" := by
  unfold per_Decoder_read_non_negative_binary_integer per_Decoder_number_of_read_bits
  by_cases hn : n ≤ N
  · rw [if_pos hn, decide_eq_false (by omega : ¬ ((n : Int) > (N : Int)))]
    simp only [Bool.false_eq_true, if_false]
    by_cases h0 : n = 0
    · subst h0
      rfl
    · rw [decide_eq_false (by omega : ¬ ((n : Int) = 0))]
      simp only [Bool.false_eq_true, if_false]
      rw [show (T : Int) - (N : Int) = ((T - N : Nat) : Int) by omega, slice_eq val (T - N) n (by omega),
        show (N : Int) - (n : Int) = ((N - n : Nat) : Int) by omega]
      have hne : (val.drop (T - N)).take n ≠ [] := by
        intro h
        have := congrArg List.length h
        rw [List.length_take, List.length_drop] at this
        simp at this; omega
      rw [intOfBin_eq _ hne (mem_slice hbin _ _), List.map_take]
      rfl
  · rw [if_neg hn, decide_eq_true (by omega : ((n : Int) > (N : Int)))]
    rfl

theorem per_read_non_negative_binary_integer_refines (d : per_DecoderS) (h : PDecInv d) (n : Nat) :
    Refines PDecInv pAbs natVal (per_Decoder_read_non_negative_binary_integer d n) (Per.readNat n (pAbs d)) := by
  obtain ⟨N, T, val, rfl, hNT, hlen, hbin, hal⟩ := h.view
  rw [per_readNat_eq, pAbs_mk N T val hNT, per_rnnbi_mk N T n val hNT hlen hbin]
  simp only [pAbs_bs_length N T val hNT hlen]
  by_cases hn : n ≤ N
  · rw [if_pos hn, if_pos hn]
    exact Refines.ok (pdec_inv_mk _ _ _ (by omega) hlen hbin hal) (pAbs_advance N T n val hn hNT) rfl
  · rw [if_neg hn, if_neg hn]
    exact Refines.err (.inl rfl)

/-! #### `read_bits` -/

/-- `int('10000000' + value + '0' * p, 2)` -/
theorem intOfBin_sentinel (v : List Char) (hb : ∀ c ∈ v, c = '0' ∨ c = '1') (p k : Nat) (hk : 8 * k = v.length + p) :
    Py.intOfBin ((['1', '0', '0', '0', '0', '0', '0', '0'] : List Char) ++ v ++ List.replicate p '0')
      = .ok (((128 * 256 ^ k + bitsToNat (v.map (· == '1') ++ List.replicate p false) : Nat)) : Int) ∧
    bitsToNat (v.map (· == '1') ++ List.replicate p false) < 256 ^ k := by
  have hl : (v.map (· == '1') ++ List.replicate p false).length = 8 * k := by
    simp only [List.length_append, List.length_map, List.length_replicate]; omega
  constructor
  · rw [intOfBin_eq _ (by simp)]
    · have e : ((['1', '0', '0', '0', '0', '0', '0', '0'] : List Char) ++ v ++ List.replicate p '0').map (· == '1')
          = [true, false, false, false, false, false, false, false] ++ (v.map (· == '1') ++ List.replicate p false) := by
        simp only [List.map_append, List.map_replicate, List.append_assoc]
        rfl
      rw [e, bitsToNat_append, hl, pow256]
      rfl
    · intro c hc
      simp only [List.mem_append, List.mem_replicate] at hc
      rcases hc with (hc | hc) | hc
      · simp at hc; rcases hc with rfl | rfl <;> simp
      · exact hb c hc
      · exact .inl hc.2
  · have := bitsToNat_lt (v.map (· == '1') ++ List.replicate p false)
    rw [hl, ← pow256] at this
    exact this

/-- `read_bits` returns the bits packed into octets, zero padded -/
theorem per_read_bits_refines (d : per_DecoderS) (h : PDecInv d) (n : Nat) :
    Refines PDecInv pAbs (fun a (bits : Bits) => a = ofNats (packBits bits))
      (per_Decoder_read_bits d n) (Per.readBits n (pAbs d)) := by
  obtain ⟨N, T, val, rfl, hNT, hlen, hbin, hal⟩ := h.view
  rw [per_readBits_eq, pAbs_mk N T val hNT]
  simp only [pAbs_bs_length N T val hNT hlen]
  unfold per_Decoder_read_bits per_Decoder_number_of_read_bits
  by_cases hn : n ≤ N
  · rw [if_pos hn, decide_eq_false (by omega : ¬ ((n : Int) > (N : Int)))]
    simp only [Bool.false_eq_true, if_false]
    rw [show (T : Int) - (N : Int) = ((T - N : Nat) : Int) by omega, slice_eq val (T - N) n (by omega),
      show (N : Int) - (n : Int) = ((N - n : Nat) : Int) by omega, Py.fmod8]
    generalize hv : (val.drop (T - N)).take n = v
    have hvl : v.length = n := by
      rw [← hv, List.length_take, List.length_drop]; omega
    have hvb : ∀ c ∈ v, c = '0' ∨ c = '1' := by rw [← hv]; exact mem_slice hbin _ _
    have hbits : ((val.drop (T - N)).map (· == '1')).take n = v.map (· == '1') := by
      rw [← hv, List.map_take]
    have hfin : ∀ (p k : Nat), p = (8 - n % 8) % 8 → 8 * k = n + p →
        Refines PDecInv pAbs (fun a (bits : Bits) => a = ofNats (packBits bits))
          (do
            let a ← Py.intOfBin ((['1', '0', '0', '0', '0', '0', '0', '0'] : List Char) ++ v ++ List.replicate p '0')
            let b ← Py.unhexAfter4 a
            pure (({ number_of_bits := ((N - n : Nat) : Int), total_number_of_bits := (T : Int), value := val }
              : per_DecoderS), b))
          (.ok (((val.drop (T - N)).map (· == '1')).take n,
            ⟨T - N + n, ((val.drop (T - N)).map (· == '1')).drop n⟩)) := by
      intro p k hp hk
      obtain ⟨i1, i2⟩ := intOfBin_sentinel v hvb p k (by omega)
      rw [i1]
      simp only [bind, Except.bind]
      rw [unhexAfter4_sentinel k _ i2]
      refine Refines.ok (pdec_inv_mk _ _ _ (by omega) hlen hbin hal) (pAbs_advance N T n val hn hNT) ?_
      rw [hbits]
      exact (packBits_eq (v.map (· == '1')) k p (by rw [List.length_map, hvl]; exact hp)
        (by rw [List.length_map, hvl]; exact hk)).symm
    by_cases hm : n % 8 = 0
    · rw [decide_eq_false (by omega : ¬ ((8 : Int) - ((n % 8 : Nat) : Int) ≠ 8))]
      simp only [Bool.false_eq_true, if_false, bind, Except.bind, pure, Except.pure]
      have := hfin 0 (n / 8) (by omega) (by omega)
      simp only [List.replicate_zero, List.append_nil, bind, Except.bind, pure, Except.pure] at this
      exact this
    · rw [decide_eq_true (by omega : ((8 : Int) - ((n % 8 : Nat) : Int) ≠ 8)),
        show (8 : Int) - ((n % 8 : Nat) : Int) = ((8 - n % 8 : Nat) : Int) by omega, strRepeat_zero]
      simp only [if_true, bind, Except.bind, pure, Except.pure]
      have := hfin (8 - n % 8) (n / 8 + 1) (by omega) (by omega)
      simp only [bind, Except.bind, pure, Except.pure] at this
      exact this
  · rw [if_neg hn, decide_eq_true (by omega : ((n : Int) > (N : Int)))]
    exact Refines.err (.inl rfl)

/-! #### length determinant -/

theorem per_readNat_lt {n : Nat} {s : Per.St} {v : Nat} {t : Per.St} (h : Per.readNat n s = .ok (v, t)) :
    v < 2 ^ n := by
  rw [per_readNat_eq] at h
  by_cases c : n ≤ s.bs.length
  · rw [if_pos c] at h
    cases h
    have := bitsToNat_lt (s.bs.take n)
    rw [List.length_take, Nat.min_eq_left c] at this
    exact this
  · rw [if_neg c] at h; cases h

/-- `read_non_negative_binary_integer` in the form used for composition -/
theorem per_rnnbi_cases (d : per_DecoderS) (h : PDecInv d) (n : Nat) :
    (∃ (d' : per_DecoderS) (v : Nat), per_Decoder_read_non_negative_binary_integer d (n : Int) = .ok (d', (v : Int)) ∧
      Per.readNat n (pAbs d) = .ok (v, pAbs d') ∧ PDecInv d' ∧ v < 2 ^ n ∧
      ∃ bits, Per.readBits n (pAbs d) = .ok (bits, pAbs d') ∧ bitsToNat bits = v) ∨
    (per_Decoder_read_non_negative_binary_integer d (n : Int) = .error "OutOfDataError" ∧
      Per.readNat n (pAbs d) = .error .decodeError ∧ Per.readBits n (pAbs d) = .error .decodeError) := by
  obtain ⟨N, T, val, rfl, hNT, hlen, hbin, hal⟩ := h.view
  rw [per_rnnbi_mk N T n val hNT hlen hbin]
  by_cases hn : n ≤ N
  · have e : Per.readNat n (pAbs ⟨(N : Int), (T : Int), val⟩)
        = .ok (bitsToNat (((val.drop (T - N)).map (· == '1')).take n), pAbs ⟨((N - n : Nat) : Int), (T : Int), val⟩) := by
      rw [per_readNat_eq, pAbs_mk N T val hNT, pAbs_advance N T n val hn hNT]
      simp only [pAbs_bs_length N T val hNT hlen]
      rw [if_pos hn]
    have e' : Per.readBits n (pAbs ⟨(N : Int), (T : Int), val⟩)
        = .ok (((val.drop (T - N)).map (· == '1')).take n, pAbs ⟨((N - n : Nat) : Int), (T : Int), val⟩) := by
      rw [per_readBits_eq, pAbs_mk N T val hNT, pAbs_advance N T n val hn hNT]
      simp only [pAbs_bs_length N T val hNT hlen]
      rw [if_pos hn]
    rw [if_pos hn]
    exact .inl ⟨_, _, rfl, e, pdec_inv_mk _ _ _ (by omega) hlen hbin hal, per_readNat_lt e, _, e', rfl⟩
  · rw [if_neg hn]
    refine .inr ⟨rfl, ?_, ?_⟩
    · rw [per_readNat_eq, pAbs_mk N T val hNT]
      simp only [pAbs_bs_length N T val hNT hlen]
      rw [if_neg hn]
    · rw [per_readBits_eq, pAbs_mk N T val hNT]
      simp only [pAbs_bs_length N T val hNT hlen]
      rw [if_neg hn]

theorem and192 (v : Nat) (h : v < 256) : v &&& 192 = v / 64 * 64 := by
  have h1 : (v &&& 192) % 2 ^ 6 = 0 := by
    rw [Nat.and_mod_two_pow]
    show v % 2 ^ 6 &&& 0 = 0
    exact Nat.and_zero _
  have h2 : (v &&& 192) >>> 6 = v / 64 := by
    rw [Nat.shiftRight_and_distrib]
    show (v >>> 6) &&& (2 ^ 2 - 1) = _
    rw [Nat.and_two_pow_sub_one_eq_mod, Nat.shiftRight_eq_div_pow]
    omega
  rw [Nat.shiftRight_eq_div_pow] at h2
  omega

theorem band192 (v : Nat) (h : v < 256) : Py.band (v : Int) 192 = ((v / 64 * 64 : Nat) : Int) := by
  rw [show (192 : Int) = ((192 : Nat) : Int) from rfl, Py.band_natCast, and192 v h]

theorem lendet_two (v w : Nat) (hw : w < 256) :
    Py.bor (Py.shl (Py.band (v : Int) 127) 8) (w : Int) = ((v % 128 * 256 + w : Nat) : Int) := by
  rw [Py.band127, show (8 : Int) = ((8 : Nat) : Int) from rfl, Py.shl_natCast, Py.bor_natCast,
    Py.mul_pow_or _ (by omega : w < 2 ^ 8)]

theorem per_read_length_determinant_refines (d : per_DecoderS) (h : PDecInv d) :
    Refines PDecInv pAbs natVal (per_Decoder_read_length_determinant d) (Per.readLenDet (pAbs d)) := by
  unfold per_Decoder_read_length_determinant Per.readLenDet
  have r8 := per_rnnbi_cases d h 8
  rw [show ((8 : Nat) : Int) = (8 : Int) from rfl] at r8
  rcases r8 with ⟨d1, v, e1, e2, hi, hv, _⟩ | ⟨e1, e2, _⟩
  · rw [e1, e2]
    simp only [bind, Except.bind]
    by_cases c1 : v < 128
    · rw [band128_zero c1, if_pos c1, decide_eq_true rfl]
      exact Refines.ok hi rfl rfl
    · rw [decide_eq_false (band128_nonzero (by omega) (by omega)), if_neg c1, band192 v (by omega)]
      simp only [Bool.false_eq_true, if_false]
      by_cases c2 : v < 192
      · rw [decide_eq_true (by omega : ((v / 64 * 64 : Nat) : Int) = 128), if_pos c2]
        simp only [if_true]
        have r8' := per_rnnbi_cases d1 hi 8
        rw [show ((8 : Nat) : Int) = (8 : Int) from rfl] at r8'
        rcases r8' with ⟨d2, w, f1, f2, hi2, hw, _⟩ | ⟨f1, f2, _⟩
        · rw [f1, f2]
          simp only [pure, Except.pure]
          rw [lendet_two v w (by omega)]
          refine Refines.ok hi2 rfl ?_
          show ((v % 128 * 256 + w : Nat) : Int) = (((v - 128) * 256 + w : Nat) : Int)
          rw [show v % 128 = v - 128 by omega]
        · rw [f1, f2]
          exact Refines.err (.inl rfl)
      · rw [decide_eq_false (by omega : ¬ ((v / 64 * 64 : Nat) : Int) = 128), if_neg c2]
        simp only [Bool.false_eq_true, if_false]
        by_cases c3 : v = 193
        · subst c3; exact Refines.ok hi rfl rfl
        rw [decide_eq_false (by omega : ¬ ((v : Int) = 193)), if_neg c3]
        simp only [Bool.false_eq_true, if_false]
        by_cases c4 : v = 194
        · subst c4; exact Refines.ok hi rfl rfl
        rw [decide_eq_false (by omega : ¬ ((v : Int) = 194)), if_neg c4]
        simp only [Bool.false_eq_true, if_false]
        by_cases c5 : v = 195
        · subst c5; exact Refines.ok hi rfl rfl
        rw [decide_eq_false (by omega : ¬ ((v : Int) = 195)), if_neg c5]
        simp only [Bool.false_eq_true, if_false]
        by_cases c6 : v = 196
        · subst c6; exact Refines.ok hi rfl rfl
        rw [decide_eq_false (by omega : ¬ ((v : Int) = 196)), if_neg c6]
        simp only [Bool.false_eq_true, if_false]
        exact Refines.err (.inr rfl)
  · rw [e1, e2]
    exact Refines.err (.inl rfl)

/-! #### compositions -/

theorem per_read_bit_cases (d : per_DecoderS) (h : PDecInv d) :
    (∃ (d' : per_DecoderS) (b : Bool), per_Decoder_read_bit d = .ok (d', if b then 1 else 0) ∧
      Per.readBit (pAbs d) = .ok (b, pAbs d') ∧ PDecInv d') ∨
    (∃ e, per_Decoder_read_bit d = .error e ∧ Per.readBit (pAbs d) = .error .decodeError ∧ errOk .decodeError e) := by
  rcases (per_read_bit_refines d h).cases with ⟨d1, a, b, e1, e2, hi, hv⟩ | ⟨e, m, e1, e2, hm⟩
  · unfold bitVal at hv
    subst hv
    exact .inl ⟨d1, b, e1, e2, hi⟩
  · refine .inr ⟨e, e1, ?_⟩
    have : m = .decodeError := by
      unfold Per.readBit at e2
      split at e2
      · cases e2; rfl
      · cases e2
    subst this
    exact ⟨e2, hm⟩

theorem per_read_length_determinant_cases (d : per_DecoderS) (h : PDecInv d) :
    (∃ (d' : per_DecoderS) (n : Nat), per_Decoder_read_length_determinant d = .ok (d', (n : Int)) ∧
      Per.readLenDet (pAbs d) = .ok (n, pAbs d') ∧ PDecInv d') ∨
    (∃ e m, per_Decoder_read_length_determinant d = .error e ∧ Per.readLenDet (pAbs d) = .error m ∧ errOk m e) := by
  rcases (per_read_length_determinant_refines d h).cases with ⟨d1, a, b, e1, e2, hi, hv⟩ | ⟨e, m, e1, e2, hm⟩
  · unfold natVal at hv
    subst hv
    exact .inl ⟨d1, b, e1, e2, hi⟩
  · exact .inr ⟨e, m, e1, e2, hm⟩

theorem truthy_bit (b : Bool) : (!Py.truthyInt (if b = true then (1 : Int) else 0)) = !b := by
  cases b <;> rfl

theorem per_read_normally_small_non_negative_whole_number_refines (d : per_DecoderS) (h : PDecInv d) :
    Refines PDecInv pAbs natVal (per_Decoder_read_normally_small_non_negative_whole_number d) (Per.decNsnnwn (pAbs d)) := by
  unfold per_Decoder_read_normally_small_non_negative_whole_number Per.decNsnnwn
  rcases per_read_bit_cases d h with ⟨d1, b, e1, e2, hi⟩ | ⟨e, e1, e2, hm⟩
  · rw [e1, e2]
    simp only [bind, Except.bind, truthy_bit]
    cases b
    · simp only [Bool.not_false, if_true]
      have r6 := per_rnnbi_cases d1 hi 6
      rw [show ((6 : Nat) : Int) = (6 : Int) from rfl] at r6
      rcases r6 with ⟨d2, v, f1, f2, hi2, _⟩ | ⟨f1, f2, _⟩
      · rw [f1, f2]; exact Refines.ok hi2 rfl rfl
      · rw [f1, f2]; exact Refines.err (.inl rfl)
    · simp only [Bool.not_true, Bool.false_eq_true, if_false]
      rcases per_read_length_determinant_cases d1 hi with ⟨d2, n, f1, f2, hi2⟩ | ⟨e, m, f1, f2, hm⟩
      · rw [f1, f2]
        simp only [show (8 : Int) * (n : Int) = ((8 * n : Nat) : Int) by omega]
        rcases per_rnnbi_cases d2 hi2 (8 * n) with ⟨d3, v, g1, g2, hi3, _⟩ | ⟨g1, g2, _⟩
        · rw [g1, g2]; exact Refines.ok hi3 rfl rfl
        · rw [g1, g2]; exact Refines.err (.inl rfl)
      · rw [f1, f2]; exact Refines.err hm
  · rw [e1, e2]; exact Refines.err hm

theorem per_read_normally_small_length_refines (d : per_DecoderS) (h : PDecInv d) :
    Refines PDecInv pAbs natVal (per_Decoder_read_normally_small_length d) (Per.decNsLength (pAbs d)) := by
  unfold per_Decoder_read_normally_small_length Per.decNsLength
  rcases per_read_bit_cases d h with ⟨d1, b, e1, e2, hi⟩ | ⟨e, e1, e2, hm⟩
  · rw [e1, e2]
    simp only [bind, Except.bind, truthy_bit]
    cases b
    · simp only [Bool.not_false, if_true]
      have r6 := per_rnnbi_cases d1 hi 6
      rw [show ((6 : Nat) : Int) = (6 : Int) from rfl] at r6
      rcases r6 with ⟨d2, v, f1, f2, hi2, _⟩ | ⟨f1, f2, _⟩
      · rw [f1, f2]
        refine Refines.ok hi2 rfl ?_
        show (v : Int) + 1 = ((v + 1 : Nat) : Int)
        omega
      · rw [f1, f2]; exact Refines.err (.inl rfl)
    · simp only [Bool.not_true, Bool.false_eq_true, if_false]
      rcases per_read_bit_cases d1 hi with ⟨d2, b2, f1, f2, hi2⟩ | ⟨e, f1, f2, hm⟩
      · rw [f1, f2]
        simp only [truthy_bit]
        cases b2
        · simp only [Bool.not_false, if_true]
          have r7 := per_rnnbi_cases d2 hi2 7
          rw [show ((7 : Nat) : Int) = (7 : Int) from rfl] at r7
          rcases r7 with ⟨d3, v, g1, g2, hi3, _⟩ | ⟨g1, g2, _⟩
          · rw [g1, g2]; exact Refines.ok hi3 rfl rfl
          · rw [g1, g2]; exact Refines.err (.inl rfl)
        · simp only [Bool.not_true, Bool.false_eq_true, if_false]
          exact Refines.err rfl
      · rw [f1, f2]; exact Refines.err hm
  · rw [e1, e2]; exact Refines.err hm

theorem per_read_constrained_whole_number_refines (d : per_DecoderS) (h : PDecInv d) (lo hi : Int) (nbits : Nat) (hr : lo ≤ hi) :
    Refines PDecInv pAbs (fun a (v : Nat) => a = lo + v)
      (per_Decoder_read_constrained_whole_number d lo hi nbits) (Per.decCwn (hi - lo + 1).toNat nbits (pAbs d)) := by
  unfold per_Decoder_read_constrained_whole_number Per.decCwn
  obtain ⟨R, hR⟩ := Int.eq_ofNat_of_zero_le (show 0 ≤ hi - lo + 1 by omega)
  simp only [hR, Int.toNat_natCast]
  obtain ⟨ai, aa⟩ := per_align_always_refines d h
  have fin : ∀ (x : per_DecoderS) (n : Nat), PDecInv x →
      Refines PDecInv pAbs (fun a (v : Nat) => a = lo + v)
        (do
          let (value, self) ← (do
            let (self, value) ← per_Decoder_read_non_negative_binary_integer x (n : Int)
            pure (value, self))
          pure (self, value + lo))
        (Per.readNat n (pAbs x)) := by
    intro x n hx
    rcases per_rnnbi_cases x hx n with ⟨d2, v, f1, f2, hi2, _⟩ | ⟨f1, f2, _⟩
    · rw [f1, f2]
      exact Refines.ok hi2 rfl (Int.add_comm _ _)
    · rw [f1, f2]; exact Refines.err (.inl rfl)
  have fin2 : ∀ (n : Nat) (ni : Int), (n : Int) = ni →
      (∃ (d2 : per_DecoderS) (v : Nat),
        per_Decoder_read_non_negative_binary_integer (per_Decoder_align_always d) ni = .ok (d2, (v : Int)) ∧
        Per.readNat n (Per.align (pAbs d)) = .ok (v, pAbs d2) ∧ PDecInv d2) ∨
      (per_Decoder_read_non_negative_binary_integer (per_Decoder_align_always d) ni = .error "OutOfDataError" ∧
        Per.readNat n (Per.align (pAbs d)) = .error .decodeError) := by
    intro n ni hni
    subst hni
    rw [← aa]
    rcases per_rnnbi_cases _ ai n with ⟨d2, v, f1, f2, hi2, _⟩ | ⟨f1, f2, _⟩
    · exact .inl ⟨d2, v, f1, f2, hi2⟩
    · exact .inr ⟨f1, f2⟩
  by_cases c1 : R ≤ 255
  · rw [decide_eq_true (by omega : (R : Int) ≤ 255), if_pos c1]
    simp only [if_true]
    exact fin d nbits h
  rw [decide_eq_false (by omega : ¬ (R : Int) ≤ 255), if_neg c1]
  simp only [Bool.false_eq_true, if_false]
  by_cases c2 : R = 256
  · rw [decide_eq_true (by omega : (R : Int) = 256), if_pos c2]
    simp only [if_true]
    rcases fin2 8 8 rfl with ⟨d2, v, f1, f2, hi2⟩ | ⟨f1, f2⟩
    · simp only [f1, f2, bind, Except.bind, pure, Except.pure]
      exact Refines.ok hi2 rfl (Int.add_comm _ _)
    · simp only [f1, f2, bind, Except.bind, pure, Except.pure]
      exact Refines.err (.inl rfl)
  rw [decide_eq_false (by omega : ¬ (R : Int) = 256), if_neg c2]
  simp only [Bool.false_eq_true, if_false]
  by_cases c3 : R ≤ 65536
  · rw [decide_eq_true (by omega : (R : Int) ≤ 65536), if_pos c3]
    simp only [if_true]
    rcases fin2 16 16 rfl with ⟨d2, v, f1, f2, hi2⟩ | ⟨f1, f2⟩
    · simp only [f1, f2, bind, Except.bind, pure, Except.pure]
      exact Refines.ok hi2 rfl (Int.add_comm _ _)
    · simp only [f1, f2, bind, Except.bind, pure, Except.pure]
      exact Refines.err (.inl rfl)
  rw [decide_eq_false (by omega : ¬ (R : Int) ≤ 65536), if_neg c3]
  simp only [Bool.false_eq_true, if_false]
  rcases fin2 nbits nbits rfl with ⟨d2, v, f1, f2, hi2⟩ | ⟨f1, f2⟩
  · simp only [f1, f2, bind, Except.bind, pure, Except.pure]
    exact Refines.ok hi2 rfl (Int.add_comm _ _)
  · simp only [f1, f2, bind, Except.bind, pure, Except.pure]
    exact Refines.err (.inl rfl)

theorem per_read_unconstrained_whole_number_refines (d : per_DecoderS) (h : PDecInv d) :
    Refines PDecInv pAbs (fun a (i : Int) => a = i)
      (per_Decoder_read_unconstrained_whole_number d) (Per.decUnconstrained (pAbs d)) := by
  unfold per_Decoder_read_unconstrained_whole_number Per.decUnconstrained
  rcases per_read_length_determinant_cases d h with ⟨d1, k, e1, e2, hi⟩ | ⟨e, m, e1, e2, hm⟩
  · rw [e1, e2]
    simp only [bind, Except.bind, show (8 : Int) * (k : Int) = ((8 * k : Nat) : Int) by omega]
    rcases per_rnnbi_cases d1 hi (8 * k) with ⟨d2, n, f1, _, hi2, hlt, bits, f2, hbits⟩ | ⟨f1, _, f2⟩
    · rw [f1, f2]
      simp only [hbits]
      by_cases k0 : k = 0
      · subst k0
        rw [shlE_neg _ _ (by decide)]
        exact Refines.err rfl
      · rw [if_neg k0, show ((8 * k : Nat) : Int) - 1 = ((8 * k - 1 : Nat) : Int) by omega, shlE_natCast, shlE_natCast]
        simp only [pure, Except.pure]
        have hP := two_pow_pred (show 1 ≤ 8 * k by omega)
        have hz : Py.band (n : Int) ((1 : Int) * 2 ^ (8 * k - 1)) = 0 ↔ n < 2 ^ (8 * k - 1) := by
          rw [Int.one_mul, ← cast_two_pow, Py.band_natCast,
            ← Py.and_two_pow_eq_zero_of_lt (show n < 2 ^ (8 * k - 1 + 1) by
              rw [show 8 * k - 1 + 1 = 8 * k by omega]; exact hlt)]
          omega
        by_cases cA : n < 2 ^ (8 * k - 1)
        · rw [if_neg (by omega : ¬ (n ≥ 2 ^ (8 * k - 1))), hz.2 cA, show Py.truthyInt 0 = false from rfl]
          exact Refines.ok hi2 rfl rfl
        · have hne : Py.band (n : Int) ((1 : Int) * 2 ^ (8 * k - 1)) ≠ 0 := fun hh => cA (hz.1 hh)
          have t1 : Py.truthyInt (Py.band (n : Int) ((1 : Int) * 2 ^ (8 * k - 1))) = true := by
            simp only [Py.truthyInt, bne_iff_ne]; exact hne
          rw [if_pos (by omega : (n ≥ 2 ^ (8 * k - 1))), t1]
          refine Refines.ok hi2 rfl ?_
          show (n : Int) - ((1 : Int) * 2 ^ (8 * k) - 1) - 1 = (n : Int) - ((2 ^ (8 * k) : Nat) : Int)
          rw [Int.one_mul, ← cast_two_pow]; omega
    · rw [f1, f2]
      exact Refines.err (.inl rfl)
  · rw [e1, e2]; exact Refines.err hm

end Asn1.Bridge
