import Asn1Proofs.Lemmas.ExtDefs
import Asn1Proofs.Lemmas.UperRoundtrip
/-
  C07, UPER: the decoder for `tD` on an encoding under `tE` (`Compat tD tE`) returns `view false tD tE v`
  and leaves exactly the bits that follow the encoding (additions the decoder does not know are
  skipped by exactly their open-type length).
-/
set_option linter.unusedSimpArgs false
set_option linter.unusedVariables false
namespace Asn1.Ext.UperX
open Asn1 Asn1.Uper Asn1.Ext

/-- cross-version round trip of the pair decoder type `tD` / encoder type `tE` -/
def XT (tD tE : Ty) : Prop :=
  ∀ (v : Val) (bits rest : Bits) (fuel : Nat),
    tE.wf = true → tE.defaultsOk = true → tE.nsOk = true → dOk false tD tE →
    hasType tE v = true → fragFree tE v = true →
    enc tE v = .ok bits → bits.length + rest.length + 2 ≤ fuel →
    dec tD fuel (bits ++ rest) = .ok (view false tD tE v, rest)

/-! ### leaves: same type on both sides -/

theorem xt_of_rt (t : Ty) (hv : ∀ v, hasType t v = true → view false t t v = canon t v) : XT t t := by
  intro v bits rest fuel hwf hd hns _ ht hf he hfuel
  rw [hv v ht]
  exact rt_all t v bits rest fuel hwf hd hns ht hf he hfuel

theorem xt_boolean : XT .boolean .boolean :=
  xt_of_rt _ (fun v _ => by cases v <;> rfl)

theorem xt_null : XT .null .null :=
  xt_of_rt _ (fun v _ => by cases v <;> rfl)

theorem xt_integer (c : IntC) : XT (.integer c) (.integer c) :=
  xt_of_rt _ (fun v _ => by cases v <;> rfl)

theorem xt_octetString (c : SizeC) : XT (.octetString c) (.octetString c) :=
  xt_of_rt _ (fun v _ => by cases v <;> rfl)

theorem xt_bitString (c : SizeC) : XT (.bitString c) (.bitString c) :=
  xt_of_rt _ (fun v _ => by cases v <;> rfl)

theorem xt_charString (k : StrKind) (c : SizeC) : XT (.charString k c) (.charString k c) :=
  xt_of_rt _ (fun v _ => by cases v <;> rfl)

/-! ### ENUMERATED -/

theorem view_enum_known (root : List (String × Int)) (ext : Option (List (String × Int))) (tE : Ty)
    (name : String) (h : hasType (.enumerated root ext) (.enum name) = true) :
    view false (.enumerated root ext) tE (.enum name) = .enum name := by
  cases ext <;> simp only [hasType] at h <;> simp only [view] <;> rw [if_pos h]

theorem xt_enumerated (root : List (String × Int)) : XT (.enumerated root none) (.enumerated root none) :=
  xt_of_rt _ (fun v h => by
    cases v <;> try (simp only [hasType, Bool.false_eq_true] at h; done)
    rw [view_enum_known _ _ _ _ h, canon_enumerated])

theorem nameIndex_append_of_mem (name : String) (a b : List (String × Int)) (h : name ∈ namesOf a) :
    nameIndex name (a ++ b) = nameIndex name a := by
  induction a with
  | nil => simp [namesOf] at h
  | cons x r ih =>
    obtain ⟨n, v⟩ := x
    simp only [List.cons_append, nameIndex]
    by_cases hn : n = name
    · simp [hn]
    · have : name ∈ namesOf r := by
        simp only [namesOf, List.map_cons, List.mem_cons] at h
        rcases h with h | h
        · exact absurd h.symm hn
        · exact h
      simp [hn, ih this]

theorem nameIndex_append_of_not_mem (name : String) (a b : List (String × Int)) (h : name ∉ namesOf a) :
    nameIndex name (a ++ b) = (nameIndex name b).map (· + a.length) := by
  induction a with
  | nil => simp
  | cons x r ih =>
    obtain ⟨n, v⟩ := x
    simp only [namesOf, List.map_cons, List.mem_cons, not_or] at h
    have hn : ¬ n = name := fun e => h.1 e.symm
    simp only [List.cons_append, nameIndex, beq_iff_eq, hn, if_false, ih h.2, Option.map_map,
      List.length_cons]
    congr 1

theorem mem_namesOf_of_getElem? {xs : List (String × Int)} {i : Nat} {name : String} {x : Int}
    (h : xs[i]? = some (name, x)) : name ∈ namesOf xs := by
  have := List.mem_of_getElem? h
  exact List.mem_map.2 ⟨_, this, rfl⟩

/-- the shared root part of the ENUMERATED decoder -/
theorem enum_root_dec (root : List (String × Int)) (name : String) (rest : Bits) (i : Nat)
    (hi : nameIndex name (sortByVal root) = some i) :
    (do
      let (i, r) ← readNat (bitLength ((sortByVal root).length - 1))
        (natToBits (bitLength ((sortByVal root).length - 1)) i ++ rest)
      match (sortByVal root)[i]? with
      | some (n, _) => .ok (.enum n, r)
      | none => .error .decodeError : DecM (Val × Bits)) = .ok (.enum name, rest) := by
  obtain ⟨h1, x, h2⟩ := nameIndex_spec _ _ _ hi
  simp only [bind, Except.bind]
  rw [readNat_natToBits _ (lt_two_pow_bitLength_of_le (by omega))]
  simp only [h2]

/-- general form: decoder additions `aD`, encoder additions `aE`, related through `hrel` -/
theorem xt_enum_gen (root aD aE : List (String × Int))
    (hrel : ∀ name i, name ∉ namesOf root → nameIndex name aE = some i →
      (∃ x, aD[i]? = some (name, x)) ∨ (aD[i]? = none ∧ name ∉ namesOf aD)) :
    XT (.enumerated root (some aD)) (.enumerated root (some aE)) := by
  intro v bits rest fuel hwf _ hns _ ht hf he _
  cases v <;> try (simp only [hasType, Bool.false_eq_true] at ht; done)
  rename_i name
  rw [enc] at he
  rw [dec]
  simp only at he ⊢
  split at he
  · rename_i i hi
    cases he
    have hmem : name ∈ namesOf root := by
      obtain ⟨h1, x, h2⟩ := nameIndex_spec _ _ _ hi
      exact (mem_namesOf_sortByVal _ _).1 (mem_namesOf_of_getElem? h2)
    have hv : view false (.enumerated root (some aD)) (.enumerated root (some aE)) (.enum name) = .enum name := by
      simp only [view]
      rw [if_pos (by simp [hmem])]
    rw [hv]
    simp only [bind, Except.bind, List.cons_append, List.nil_append, readBit_cons,
      Bool.not_false, if_true]
    exact enum_root_dec root name rest i hi
  · rename_i hroot
    have hnr : name ∉ namesOf root := by
      intro hm
      obtain ⟨i, hi⟩ := nameIndex_of_mem name (sortByVal root) ((mem_namesOf_sortByVal _ _).2 hm)
      rw [hroot] at hi; cases hi
    split at he
    · rename_i i hi
      cases he
      obtain ⟨h1, x, h2⟩ := nameIndex_spec _ _ _ hi
      simp only [Ty.nsOk] at hns
      simp only [bind, Except.bind, List.cons_append, List.nil_append, readBit_cons,
        Bool.not_true, Bool.false_eq_true, if_false]
      rw [decNsnnwn_enc i rest (nsIndexOk_lt hns h1)]
      rcases hrel name i hnr hi with ⟨y, hy⟩ | ⟨hy, hnot⟩
      · simp only [hy]
        have hm := mem_namesOf_of_getElem? hy
        simp only [view]
        rw [if_pos (by simp [hm])]
      · simp only [hy]
        simp only [view]
        rw [if_neg (by simp [hnr, hnot])]
    · cases he

/-- the encoder knows more items -/
theorem xt_enumeratedD (root adds new : List (String × Int)) :
    XT (.enumerated root (some adds)) (.enumerated root (some (adds ++ new))) := by
  apply xt_enum_gen
  intro name i _ hi
  by_cases hm : name ∈ namesOf adds
  · rw [nameIndex_append_of_mem _ _ _ hm] at hi
    obtain ⟨h1, x, h2⟩ := nameIndex_spec _ _ _ hi
    exact .inl ⟨x, h2⟩
  · rw [nameIndex_append_of_not_mem _ _ _ hm] at hi
    simp only [Option.map_eq_some_iff] at hi
    obtain ⟨j, _, rfl⟩ := hi
    exact .inr ⟨by simp, hm⟩

/-- the decoder knows more items -/
theorem xt_enumeratedE (root adds new : List (String × Int)) :
    XT (.enumerated root (some (adds ++ new))) (.enumerated root (some adds)) := by
  apply xt_enum_gen
  intro name i _ hi
  obtain ⟨h1, x, h2⟩ := nameIndex_spec _ _ _ hi
  exact .inl ⟨x, by rw [List.getElem?_append_left h1]; exact h2⟩

/-! ### SEQUENCE OF -/

theorem xt_sequenceOf (eD eE : Ty) (c : SizeC) (ih : XT eD eE) : XT (.sequenceOf eD c) (.sequenceOf eE c) := by
  intro v bits rest fuel hwf hd hns hdok ht hf he hfuel
  cases v <;> try (simp only [hasType, Bool.false_eq_true] at ht; done)
  rename_i vs
  simp only [hasType] at ht
  simp only [view]
  rw [Ty.wf] at hwf
  rw [Ty.defaultsOk] at hd
  rw [Ty.nsOk] at hns
  rw [fragFree] at hf
  simp only [dOk] at hdok
  simp only [Bool.and_eq_true, List.all_eq_true, Bool.or_eq_true, sizeOk_eq_inSize] at ht hwf hf
  obtain ⟨hall, hsz⟩ := ht
  obtain ⟨hewf, hcwf⟩ := hwf
  obtain ⟨hfall, hfsz⟩ := hf
  rw [enc] at he
  rw [dec]
  split at he
  · cases he
  rename_i items hitems
  have hall2' : ∀ vs items, All2 (fun v item => enc eE v = .ok item) vs items →
      (∀ v ∈ vs, hasType eE v = true) → (∀ v ∈ vs, fragFree eE v = true) →
      All2 (ItemRT (dec eD fuel) (fuel - 2)) items (vs.map (view false eD eE)) := by
    intro vs items h
    induction h with
    | nil => intros; exact .nil
    | @cons v item vs items hx _ ih2 =>
      intro h1 h2
      refine .cons ?_ (ih2 (fun x hx => h1 x (by simp [hx])) (fun x hx => h2 x (by simp [hx])))
      intro rest' hr
      exact ih v item rest' fuel hewf hd hns hdok (h1 v (by simp)) (h2 v (by simp)) hx (by omega)
  have hall2 := hall2' vs items (all2_of_mapM _ _ _ hitems) hall hfall
  have hlen : items.length = vs.length := (All2.length_eq (all2_of_mapM _ _ _ hitems)).symm
  simp only [ext_hi_of_wf hcwf, if_false] at he
  split at he
  · rename_i hout
    cases he
    have hs : vs.length < 16384 := by
      simp only [Bool.not_eq_true', smallLen, decide_eq_true_eq] at hfsz
      rcases hfsz with (hf | hf) | hf
      · rw [hout.1] at hf; cases hf
      · exact absurd hf hout.2
      · exact hf
    simp only [hout.1, if_true, bind, Except.bind, List.cons_append, List.nil_append, readBit_cons,
      List.append_assoc]
    rw [readLenDet_lenDet, lenDet_snd_of_lt hs]
    simp only
    rw [← hlen, decRepeat_flatten _ (fuel - 2) _ _ hall2 rest
      (by simp only [List.length_append, List.length_cons] at hfuel; omega)]
  · rename_i hnot
    have hin : inSize c vs.length = true := by
      rcases hsz with h | h
      · cases hi : inSize c vs.length
        · exact absurd ⟨h, by simp [hi]⟩ hnot
        · rfl
      · exact h
    split at he
    · rename_i hsb
      cases he
      simp only [List.append_assoc, bind, Except.bind, readExt_pre, Bool.false_eq_true, if_false]
      rw [decChunks_encChunked _ (fuel - 2) _ _ hall2 rest
        (by simp only [List.length_append] at hfuel; omega) fuel
        (by simp only [List.length_append] at hfuel; omega)]
    · rename_i w hsb
      obtain ⟨h1, h2, h3⟩ := sizeBits_some hsb hin
      split at he
      · rename_i hne
        cases he
        simp only [List.append_assoc, bind, Except.bind, readExt_pre, Bool.false_eq_true, if_false]
        rw [if_pos hne, readNat_natToBits _ h2]
        simp only
        have : c.lo + (vs.length - c.lo) = items.length := by omega
        rw [this, decRepeat_flatten _ (fuel - 2) _ _ hall2 rest
          (by simp only [List.length_append] at hfuel; omega)]
      · rename_i hne
        cases he
        simp only [List.append_assoc, bind, Except.bind, readExt_pre, Bool.false_eq_true, if_false]
        rw [if_neg hne]
        have : c.lo = items.length := by rw [hlen]; exact (h3 (by simpa using hne)).symm
        simp only
        rw [this, decRepeat_flatten _ (fuel - 2) _ _ hall2 rest
          (by simp only [List.length_append] at hfuel; omega)]

/-! ### CHOICE -/

/-- pointwise relation between two lists of alternatives (as far as both go) -/
def AltsAllX (P : Ty → Ty → Prop) : Alts → Alts → Prop
  | .cons _ tD mD, .cons _ tE mE => P tD tE ∧ AltsAllX P mD mE
  | _, _ => True

theorem compatAlts_toAdds (aD : Alts) : ∀ aE, CompatAlts aD aE → CompatAltAdds aD aE := by
  induction aD using Alts.ind with
  | nil => intro aE h; exact .nilD aE
  | cons n t rest ih =>
    intro aE h
    cases h with
    | cons _ h1 h2 => exact .cons n h1 (ih _ h2)

theorem compatAlts_length (aD : Alts) : ∀ aE, CompatAlts aD aE → aD.length = aE.length := by
  induction aD using Alts.ind with
  | nil => intro aE h; cases h; rfl
  | cons n t rest ih =>
    intro aE h
    cases h with
    | cons _ h1 h2 => simp [Alts.length, ih _ h2]

/-- the alternative the encoder chose, seen from the decoder's list -/
theorem alt_cross (aD : Alts) : ∀ (aE : Alts), CompatAltAdds aD aE → AltsAllX XT aD aE →
    dOkAlts false aD aE → ∀ (name : String) (j : Nat) (tE' : Ty), aE.find name = some (j, tE') →
    (∃ tD', XT tD' tE' ∧ dOk false tD' tE' ∧
      (∀ fuel bs, decAlt aD fuel j bs =
        some (do let (v, r) ← dec tD' fuel bs; .ok (.choice name v, r))) ∧
      (∀ v, viewAlt false aD aE name v = some (view false tD' tE' v))) ∨
    ((∀ fuel bs, decAlt aD fuel j bs = none) ∧ (∀ v, viewAlt false aD aE name v = none) ∧
      aD.length ≤ j) := by
  induction aD using Alts.ind with
  | nil =>
    intro aE _ _ _ name j tE' _
    refine .inr ⟨fun _ _ => rfl, fun _ => ?_, by simp [Alts.length]⟩
    cases aE <;> rfl
  | cons n tD mD ih =>
    intro aE h hall hdok name j tE' hfind
    cases h with
    | nilE => simp [Alts.find] at hfind
    | @cons _ tE _ mE _ h1 h2 =>
      simp only [AltsAllX] at hall
      simp only [dOkAlts] at hdok
      simp only [Alts.find] at hfind
      split at hfind
      · rename_i hn
        cases hfind
        have : n = name := by simpa using hn
        subst this
        refine .inl ⟨tD, hall.1, hdok.1, fun _ _ => rfl, fun v => ?_⟩
        simp only [viewAlt, beq_self_eq_true, if_true]
      · rename_i hn
        simp only [Option.map_eq_some_iff] at hfind
        obtain ⟨⟨j', t''⟩, hf1, hf2⟩ := hfind
        cases hf2
        rcases ih mE h2 hall.2 hdok.2 name j' t'' hf1 with ⟨tD', a, b, c, d⟩ | ⟨a, b, c⟩
        · refine .inl ⟨tD', a, b, fun fuel bs => ?_, fun v => ?_⟩
          · simp only [decAlt]; exact c fuel bs
          · simp only [viewAlt, hn, if_false, Bool.false_eq_true]; exact d v
        · refine .inr ⟨fun fuel bs => ?_, fun v => ?_, by simp [Alts.length]; omega⟩
          · simp only [decAlt]; exact a fuel bs
          · simp only [viewAlt, hn, if_false, Bool.false_eq_true]; exact b v

theorem viewAlt_none_of_find_none (aD : Alts) : ∀ (aE : Alts), CompatAltAdds aD aE →
    ∀ (name : String) (v : Val), aE.find name = none → viewAlt false aD aE name v = none := by
  induction aD using Alts.ind with
  | nil => intro aE _ name v _; cases aE <;> rfl
  | cons n tD mD ih =>
    intro aE h name v hfind
    cases h with
    | nilE => rfl
    | @cons _ tE _ mE _ h1 h2 =>
      simp only [Alts.find] at hfind
      split at hfind
      · cases hfind
      · rename_i hn
        simp only [Option.map_eq_none_iff] at hfind
        simp only [viewAlt, hn, if_false, Bool.false_eq_true]
        exact ih mE h2 name v hfind

theorem xt_choice (rD rE aD aE : Alts) (x : Bool) (hcr : CompatAlts rD rE) (hca : CompatAltAdds aD aE)
    (ihr : AltsAllX XT rD rE) (iha : AltsAllX XT aD aE) : XT (.choice rD x aD) (.choice rE x aE) := by
  intro v bits rest fuel hwf hd hns hdok ht hf he hfuel
  cases v <;> try (simp only [hasType, Bool.false_eq_true] at ht; done)
  rename_i name w
  simp only [hasType] at ht
  simp only [view]
  rw [Ty.wf] at hwf
  rw [Ty.defaultsOk] at hd
  rw [Ty.nsOk] at hns
  rw [fragFree] at hf
  simp only [dOk] at hdok
  simp only [Bool.and_eq_true, Bool.or_eq_true, decide_eq_true_eq, beq_iff_eq] at ht hwf hd hns hf
  obtain ⟨⟨⟨⟨hrwf, hawf⟩, hrpos⟩, hnd⟩, hext⟩ := hwf
  obtain ⟨⟨hrns, hans⟩, hnsi⟩ := hns
  have hlenr := compatAlts_length rD rE hcr
  rw [hasAlt_find, hasAlt_find] at ht
  rw [fragFreeAlt_find, fragFreeAlt_find] at hf
  rw [enc] at he
  rw [encAlt_find, encAlt_find] at he
  rw [dec]
  cases hfr : rE.find name with
  | some y =>
    obtain ⟨j, t⟩ := y
    have hnr : name ∈ rE.names := by
      by_cases h : name ∈ rE.names
      · exact h
      · have := (find_none_iff name rE).2 h
        rw [this] at hfr; cases hfr
    have hfa : aE.find name = none := by
      rw [find_none_iff]
      intro hna
      exact (List.nodup_append.1 hnd).2.2 name hnr name hna rfl
    simp only [hfr, hfa, Option.map_some, Option.map_none, Bool.or_false, Bool.not_false,
      Bool.true_or, Bool.and_true, Nat.zero_add, Bool.false_eq_true, or_false] at ht hf he ⊢
    have hj := find_lt name rE j t hfr
    split at he
    · cases he
    rename_i body hbody
    cases he
    rcases alt_cross rD rE (compatAlts_toAdds rD rE hcr) ihr hdok.1 name j t hfr with
      ⟨tD', hx, hdk, hdec, hview⟩ | ⟨_, _, hle⟩
    · have hrt := hx w body rest fuel
        (find_all name rE j t hfr (all_wf rE hrwf))
        (find_all name rE j t hfr (all_defaultsOk rE hd.1))
        (find_all name rE j t hfr (all_nsOk rE hrns)) hdk ht hf.1 hbody
        (by simp only [List.length_append] at hfuel; omega)
      simp only [hview, List.append_assoc, bind, Except.bind, readExt_pre, Bool.false_eq_true, if_false]
      by_cases h1 : rE.length > 1
      · simp only [hlenr, h1, if_true]
        rw [readNat_natToBits _ (lt_two_pow_bitLength_of_le (by omega))]
        simp only
        rw [hdec]
        simp only [bind, Except.bind, hrt]
      · simp only [hlenr, h1, if_false, List.nil_append]
        have : j = 0 := by omega
        subst this
        rw [hdec]
        simp only [bind, Except.bind, hrt]
    · omega
  | none =>
    simp only [hfr, Option.map_none, Bool.false_eq_true, false_or] at ht hf he ⊢
    rw [viewAlt_none_of_find_none rD rE (compatAlts_toAdds rD rE hcr) name w hfr]
    cases hfa : aE.find name with
    | none => simp [hfa] at ht
    | some y =>
      obtain ⟨j, t⟩ := y
      have hj := find_lt name aE j t hfa
      have hext' : x = true := by
        rcases hext with h | h
        · exact h
        · omega
      simp only [hfa, hext', if_true, Option.map_some, Nat.zero_add, Bool.not_true, Bool.false_or,
        Bool.and_eq_true] at ht hf he ⊢
      split at he
      · cases he
      rename_i body hbody
      cases he
      rw [hbody] at hf
      simp only [smallLen, decide_eq_true_eq] at hf
      simp only [List.append_assoc, bind, Except.bind, List.cons_append, List.nil_append,
        readBit_cons, if_true]
      rw [decNsnnwn_enc j _ (nsIndexOk_lt hnsi hj)]
      simp only
      rw [readLenDet_lenDet, lenDet_snd_of_lt (by rw [padToByte_length_div]; exact hf.2.2)]
      simp only
      rcases alt_cross aD aE hca iha hdok.2 name j t hfa with
        ⟨tD', hx, hdk, hdec, hview⟩ | ⟨hdec, hview, _⟩
      · have hrt := hx w body
          (List.replicate (8 * ((body.length + 7) / 8) - body.length) false ++ rest) fuel
          (find_all name aE j t hfa (all_wf aE hawf))
          (find_all name aE j t hfa (all_defaultsOk aE hd.2))
          (find_all name aE j t hfa (all_nsOk aE hans)) hdk ht hf.2.1 hbody
          (by
            simp only [List.length_append, List.length_cons, List.length_replicate] at hfuel ⊢
            rw [padToByte_eq] at hfuel
            simp only [List.length_append, List.length_replicate] at hfuel
            omega)
        rw [hdec, hview]
        simp only [bind, Except.bind]
        rw [padToByte_length_div, padToByte_eq, List.append_assoc, hrt]
        simp only [List.length_append, List.length_replicate]
        have hc : ¬ (body.length + (8 * ((body.length + 7) / 8) - body.length + rest.length) -
            (8 * ((body.length + 7) / 8) - body.length + rest.length) > 8 * ((body.length + 7) / 8)) := by
          omega
        simp only [hc, if_false]
        rw [readBits_append _ _ (by simp only [List.length_replicate]; omega)]
      · rw [hdec, hview]
        simp only
        rw [readBits_append _ _ (by
          rw [padToByte_length_div, padToByte_eq, List.length_append, List.length_replicate]; omega)]

/-! ### SEQUENCE: root members -/

theorem view_of_isDefault {tD tE : Ty} (hc : Compat tD tE) (v d : Val)
    (hdef : isDefault tE v d = true) (hd : view false tD tE d = d) : view false tD tE v = d := by
  unfold isDefault at hdef
  split at hdef
  · rename_i c a n b m
    cases hc
    simp only [view] at hd ⊢
    simp only [Bool.and_eq_true, beq_iff_eq] at hdef
    have hcb := (Val.bits.inj hd).1
    obtain ⟨h1, h2⟩ := hdef
    subst h1
    rw [h2, hcb]
  · have := Val.eq_of_beq _ _ hdef
    subst this
    exact hd

theorem viewMembers_cons (name : String) (p : Presence) (tD : Ty) (mD : Members) (n' : String)
    (p' : Presence) (tE : Ty) (mE : Members) (fs : List (String × Val)) (b : Bool) :
    viewMembers false (.cons name p tD mD) (.cons n' p' tE mE) fs b =
      (match lookup name fs with
       | some v => (name, view false tD tE v) :: viewMembers false mD mE fs b
       | none =>
         match p with
         | .default d => if b then (name, d) :: viewMembers false mD mE fs b else viewMembers false mD mE fs b
         | _ => viewMembers false mD mE fs b) := by
  cases p <;> rfl

/-- statement for the root members of a SEQUENCE -/
def XTM (mD mE : Members) : Prop :=
  ∀ (fs : List (String × Val)), mE.wf = true → mE.defaultsOk = true → mE.nsOk = true →
    dOkMembers false mD mE → membersOk mE fs = true → fragFreeMembers mE fs false = true →
    ∀ (pre body rest : Bits) (fuel : Nat), encPreamble mE fs = .ok pre →
      encMembers mE fs false = .ok body → body.length + rest.length + 2 ≤ fuel →
      decMembers mD fuel pre (body ++ rest) = .ok (viewMembers false mD mE fs true, rest) ∧
        pre.length = optionalCount mD

theorem xtm_nil : XTM .nil .nil := by
  intro fs _ _ _ _ _ _ pre body rest fuel hp hb _
  cases hp; cases hb
  exact ⟨rfl, rfl⟩

theorem xtm_cons (name : String) (p : Presence) (tD tE : Ty) (mD mE : Members)
    (hc : Compat tD tE) (hx : XT tD tE) (ih : XTM mD mE) :
    XTM (.cons name p tD mD) (.cons name p tE mE) := by
  intro fs hwf hd hns hdok hok hff pre body rest fuel hp hb hfuel
  simp only [Members.wf, Members.defaultsOk, Members.nsOk, membersOk, fragFreeMembers,
    Bool.and_eq_true] at hwf hd hns hok hff
  simp only [dOkMembers] at hdok
  rw [encPreamble_cons] at hp
  rw [encMembers_cons] at hb
  rw [optionalCount_cons]
  cases hr : encPreamble mE fs with
  | error e => rw [hr] at hp; cases hp
  | ok r =>
  rw [hr] at hp
  simp only at hp
  cases hb' : encMembers mE fs false with
  | error e => rw [hb'] at hb; split at hb <;> simp_all
  | ok b =>
  rw [hb'] at hb
  cases ha : encHere p tE (lookup name fs) false with
  | error e => rw [ha] at hb; cases hb
  | ok a =>
  rw [ha] at hb
  cases hb
  have hlen : b.length + rest.length + 2 ≤ fuel := by
    simp only [List.length_append] at hfuel; omega
  obtain ⟨ihd, ihl⟩ := ih fs hwf.2 hd.2 hns.2 hdok.2.2 hok.2 hff.2 r b rest fuel hr hb' hlen
  have present : ∀ v, lookup name fs = some v → enc tE v = .ok a →
      decHere name tD mD fuel r (a ++ b ++ rest) =
        .ok (viewMembers false (.cons name p tD mD) (.cons name p tE mE) fs true, rest) := by
    intro v hl hav
    simp only [hl] at hok hff
    simp only [Bool.and_eq_true] at hff
    have := hx v a (b ++ rest) fuel hwf.1 hd.1.2 hns.1 hdok.2.1 hok.1 hff.1.1 hav
      (by simp only [List.length_append] at hfuel ⊢; omega)
    simp only [decHere, bind, Except.bind, List.append_assoc, this, ihd]
    rw [viewMembers_cons, hl]
  rw [viewMembers_cons]
  cases hl : lookup name fs with
  | some v =>
    simp only [hl, encHere] at ha hp
    cases p with
    | mandatory =>
      simp only at ha hp
      cases hp
      rw [decMembers_mandatory, present v hl ha, viewMembers_cons, hl]
      exact ⟨rfl, ihl⟩
    | optional =>
      simp only [Option.isSome_some] at ha hp
      cases hp
      rw [decMembers_optional_true, present v hl ha, viewMembers_cons, hl]
      exact ⟨rfl, by simp [ihl]⟩
    | default d =>
      simp only [Bool.or_false] at ha hp
      cases hp
      cases hdef : isDefault tE v d with
      | false =>
        simp only [hdef, Bool.not_false, if_true] at ha ⊢
        rw [decMembers_default_true, present v hl ha, viewMembers_cons, hl]
        exact ⟨rfl, by simp [ihl]⟩
      | true =>
        simp only [hdef, Bool.not_true, Bool.false_eq_true, if_false] at ha ⊢
        cases ha
        have hcan := view_of_isDefault hc v d hdef hdok.1
        rw [decMembers_default_false]
        simp only [List.nil_append, bind, Except.bind, ihd, hcan]
        exact ⟨trivial, by simp [ihl]⟩
  | none =>
    simp only [hl, encHere] at ha hp hok
    cases p with
    | mandatory => simp at hok
    | optional =>
      simp only at ha hp
      cases ha; cases hp
      simp only [Option.isSome_none]
      rw [decMembers_optional_false]
      simp only [List.nil_append, ihd]
      exact ⟨trivial, by simp [ihl]⟩
    | default d =>
      simp only at ha hp
      cases ha; cases hp
      rw [decMembers_default_false]
      simp only [List.nil_append, bind, Except.bind, ihd, if_true]
      exact ⟨trivial, by simp [ihl]⟩

/-! ### SEQUENCE: extension additions -/

theorem members_all_rt (ms : Members) : ms.All RT := by
  induction ms using Members.ind with
  | nil => trivial
  | cons name p t rest ih => exact ⟨rt_all t, ih⟩

/-- statement for the extension additions of a SEQUENCE -/
def XTA (aD aE : Members) : Prop :=
  ∀ (fs : List (String × Val)), aE.wf = true → aE.defaultsOk = true → aE.nsOk = true →
    dOkMembers false aD aE → membersOk aE fs = true → fragFreeMembers aE fs true = true →
    ((encAdditions aE fs).2 = [] → viewMembers false aD aE fs false = []) ∧
    ∀ (rest : Bits) (fuel : Nat), (wrapOpen (encAdditions aE fs).2).length + rest.length + 2 ≤ fuel →
      decAdditions aD fuel (encAdditions aE fs).1 (wrapOpen (encAdditions aE fs).2 ++ rest) =
        .ok (viewMembers false aD aE fs false, rest)

theorem skipUnknown_cons_true (bitmap bs : Bits) :
    skipUnknown (true :: bitmap) bs =
      (do
        let (len, r) ← readLenDet bs
        let (_, r') ← readBits (8 * len) r
        skipUnknown bitmap r') := rfl

theorem skipUnknown_cons_false (bitmap bs : Bits) :
    skipUnknown (false :: bitmap) bs = skipUnknown bitmap bs := rfl

/-- FRAME: the open types of additions the decoder does not know are skipped by exactly their length -/
theorem skipUnknown_enc (fs : List (String × Val)) (ms : Members) :
    ms.wf = true → membersOk ms fs = true → fragFreeMembers ms fs true = true →
    ∀ (rest : Bits),
      skipUnknown (encAdditions ms fs).1 (wrapOpen (encAdditions ms fs).2 ++ rest) = .ok rest := by
  induction ms using Members.ind with
  | nil => intro _ _ _ rest; rfl
  | cons name p t ms ih =>
    intro hwf hok hff rest
    simp only [Members.wf, membersOk, fragFreeMembers, Bool.and_eq_true] at hwf hok hff
    have ih' := ih hwf.2 hok.2 hff.2 rest
    rw [encAdditions_cons]
    cases hl : lookup name fs with
    | some v =>
      simp only [hl, Bool.and_eq_true] at hok hff
      obtain ⟨e, he⟩ := et_all t v hwf.1 hok.1
      simp only [addHere, he, Option.isSome_some, or_true, if_true]
      rw [he] at hff
      simp only [Bool.not_true, Bool.false_or, smallLen, decide_eq_true_eq] at hff
      rw [wrapOpen_cons, skipUnknown_cons_true]
      simp only [bind, Except.bind, List.append_assoc]
      rw [readLenDet_lenDet, lenDet_snd_of_lt (by rw [padToByte_length_div]; exact hff.1.2)]
      simp only
      rw [readBits_append _ _ (by
        rw [padToByte_length_div, padToByte_eq, List.length_append, List.length_replicate]; omega)]
      exact ih'
    | none =>
      simp only [hl] at hok
      cases p with
      | mandatory => simp at hok
      | optional =>
        simp only [addHere, List.length_nil, Nat.lt_irrefl, Option.isSome_none, Bool.false_eq_true,
          or_self, if_false]
        rw [skipUnknown_cons_false]
        exact ih'
      | default d =>
        simp only [addHere, List.length_nil, Nat.lt_irrefl, Option.isSome_none, Bool.false_eq_true,
          or_self, if_false]
        rw [skipUnknown_cons_false]
        exact ih'

/-- the decoder knows fewer additions than the encoder: the rest is skipped -/
theorem xta_nilD (ms : Members) : XTA .nil ms := by
  intro fs hwf _ _ _ hok hff
  refine ⟨fun _ => rfl, fun rest fuel _ => ?_⟩
  simp only [decAdditions, bind, Except.bind, skipUnknown_enc fs ms hwf hok hff rest]
  rfl

theorem viewMembers_nilE_false (fs : List (String × Val)) (ms : Members) :
    viewMembers false ms .nil fs false = [] := by
  induction ms using Members.ind with
  | nil => rfl
  | cons name p t ms ih => cases p <;> simp only [viewMembers, ih, if_false, Bool.false_eq_true]

/-- the decoder knows more additions than the encoder: the presence bitmap ends before them -/
theorem xta_nilE (ms : Members) : XTA ms .nil := by
  intro fs _ _ _ _ _ _
  refine ⟨fun _ => viewMembers_nilE_false fs ms, fun rest fuel _ => ?_⟩
  rw [viewMembers_nilE_false]
  cases ms <;> rfl

theorem xta_cons (name : String) (p : Presence) (tD tE : Ty) (mD mE : Members)
    (hx : XT tD tE) (ih : XTA mD mE) : XTA (.cons name p tD mD) (.cons name p tE mE) := by
  intro fs hwf hd hns hdok hok hff
  simp only [Members.wf, Members.defaultsOk, Members.nsOk, membersOk, fragFreeMembers,
    Bool.and_eq_true] at hwf hd hns hok hff
  simp only [dOkMembers] at hdok
  obtain ⟨ih2, ih3⟩ := ih fs hwf.2 hd.2 hns.2 hdok.2.2 hok.2 hff.2
  rw [encAdditions_cons, viewMembers_cons]
  cases hl : lookup name fs with
  | some v =>
    simp only [hl, Bool.and_eq_true] at hok hff
    obtain ⟨e, he⟩ := et_all tE v hwf.1 hok.1
    simp only [addHere, he, Option.isSome_some, or_true, if_true]
    refine ⟨by simp, ?_⟩
    intro rest fuel hfuel
    rw [wrapOpen_cons] at hfuel ⊢
    rw [padToByte_eq] at hfuel
    simp only [List.length_append, List.length_replicate] at hfuel
    have := hx v e
      (List.replicate (8 * ((e.length + 7) / 8) - e.length) false ++
        (wrapOpen (encAdditions mE fs).2 ++ rest)) fuel hwf.1 hd.1.2 hns.1 hdok.2.1 hok.1 hff.1.1 he
      (by simp only [List.length_append, List.length_replicate]; omega)
    rw [decAdditions_cons_true]
    simp only [bind, Except.bind, List.append_assoc]
    rw [readLenDet_lenDet]
    simp only
    have hsp := skipPad_pad e (wrapOpen (encAdditions mE fs).2 ++ rest)
    rw [padToByte_eq] at hsp ⊢
    simp only [List.append_assoc] at hsp ⊢
    rw [this]
    simp only [hsp]
    rw [ih3 rest fuel (by omega)]
  | none =>
    simp only [hl] at hok
    cases p with
    | mandatory => simp at hok
    | optional =>
      simp only [addHere, List.length_nil, Nat.lt_irrefl, Option.isSome_none, Bool.false_eq_true,
        or_self, if_false]
      refine ⟨ih2, ?_⟩
      intro rest fuel hfuel
      rw [decAdditions_cons_false]
      exact ih3 rest fuel hfuel
    | default d =>
      simp only [addHere, List.length_nil, Nat.lt_irrefl, Option.isSome_none, Bool.false_eq_true,
        or_self, if_false]
      refine ⟨ih2, ?_⟩
      intro rest fuel hfuel
      rw [decAdditions_cons_false]
      exact ih3 rest fuel hfuel

/-! ### SEQUENCE -/

theorem optionalCount_compat (rD : Members) : ∀ rE, CompatMembers rD rE → optionalCount rD = optionalCount rE := by
  induction rD using Members.ind with
  | nil => intro rE h; cases h; rfl
  | cons name p t rest ih =>
    intro rE h
    cases h with
    | cons _ _ h1 h2 => rw [optionalCount_cons, optionalCount_cons, ih _ h2]

theorem xt_sequence (rD rE aD aE : Members) (x : Bool) (hm : XTM rD rE) (ha : XTA aD aE) :
    XT (.sequence rD x aD) (.sequence rE x aE) := by
  intro v bits rest fuel hwf hd hns hdok ht hf he hfuel
  cases v <;> try (simp only [hasType, Bool.false_eq_true] at ht; done)
  rename_i fs
  rw [Ty.wf] at hwf
  rw [Ty.defaultsOk] at hd
  rw [Ty.nsOk] at hns
  rw [fragFree] at hf
  simp only [dOk] at hdok
  simp only [Bool.and_eq_true, decide_eq_true_eq, Bool.or_eq_true, beq_iff_eq] at hwf hd hns hf
  obtain ⟨⟨⟨⟨hrwf, hawf⟩, hnd⟩, hext⟩, h64⟩ := hwf
  obtain ⟨hokr, hoka⟩ := membersOk_of_hasType rE aE x fs hnd ht
  simp only [view]
  rw [enc] at he
  obtain ⟨pre, hpre⟩ := encPreamble_ok fs rE
  rw [hpre] at he
  cases hbody : encMembers rE fs false with
  | error e => rw [hbody] at he; cases he
  | ok body =>
  rw [hbody] at he
  simp only at he
  have hm' := hm fs hrwf hd.1 hns.1 hdok.1 hokr hf.1 pre body
  obtain ⟨a1, _, _⟩ := rt_additions fs aE (members_all_rt aE) (members_all_et aE) hawf hd.2 hns.2 hoka hf.2
  obtain ⟨a2, a3⟩ := ha fs hawf hd.2 hns.2 hdok.2 hoka hf.2
  have plain : ∀ bits : Bits, bits = (if x = true then [false] else []) ++ (pre ++ body) →
      viewMembers false aD aE fs false = [] → bits.length + rest.length + 2 ≤ fuel →
      dec (.sequence rD x aD) fuel (bits ++ rest) =
        .ok (.record (viewMembers false rD rE fs true ++ viewMembers false aD aE fs false), rest) := by
    intro bits hb hc hfu
    subst hb
    obtain ⟨hdm, hpl⟩ := hm' rest fuel hpre hbody (by
      simp only [List.length_append] at hfu; omega)
    rw [dec]
    simp only [List.append_assoc, bind, Except.bind, readExt_pre]
    rw [readBits_append _ _ hpl]
    simp only [hdm, Bool.false_eq_true, if_false, hc, List.append_nil]
  cases x with
  | false =>
    simp only [Bool.false_eq_true, if_false, false_or] at he hext
    cases he
    have : aE = .nil := by
      cases aE with
      | nil => rfl
      | cons _ _ _ _ => simp [Members.length] at hext
    subst this
    exact plain _ (by simp) (a2 rfl) hfuel
  | true =>
    simp only [if_true] at he
    split at he
    · cases he
      exact plain _ (by simp) (a2 rfl) hfuel
    · rename_i hnn
      split at he
      · rename_i hemp
        cases he
        exact plain _ (by simp) (a2 (by simpa using hemp)) hfuel
      · rename_i hemp
        have hlen1 : 1 ≤ aE.length := by
          cases aE with
          | nil => exact absurd rfl (hnn)
          | cons _ _ _ _ => simp [Members.length]
        rw [encNsLength_small h64] at he
        simp only [a1, Nat.sub_self, List.replicate_zero, List.append_nil] at he
        have hw : List.flatMap (fun e => (lenDet (List.length (padToByte e) / 8)).fst ++ padToByte e)
            (encAdditions aE fs).2 = wrapOpen (encAdditions aE fs).2 := rfl
        rw [hw] at he
        cases he
        simp only [List.length_append, List.length_cons, List.length_nil, natToBits_length] at hfuel
        obtain ⟨hdm, hpl⟩ := hm' (natToBits 7 (aE.length - 1) ++ ((encAdditions aE fs).1 ++
          (wrapOpen (encAdditions aE fs).2 ++ rest))) fuel hpre hbody (by
            simp only [List.length_append, natToBits_length]; omega)
        rw [dec]
        simp only [List.append_assoc, bind, Except.bind, List.cons_append, List.nil_append,
          readBit_cons, if_true]
        rw [readBits_append _ _ hpl]
        simp only [hdm, if_true]
        rw [decNsLength_enc _ hlen1 h64]
        simp only
        rw [readBits_append _ _ a1]
        simp only
        rw [a3 rest fuel (by omega)]

/-! ### all types -/

/-- FRAME / cross-version round trip for every pair of compatible types -/
theorem xt_all {tD tE : Ty} (h : Compat tD tE) : XT tD tE :=
  Compat.rec
    (motive_1 := fun tD tE _ => XT tD tE)
    (motive_2 := fun mD mE _ => XTM mD mE)
    (motive_3 := fun aD aE _ => XTA aD aE)
    (motive_4 := fun rD rE _ => AltsAllX XT rD rE)
    (motive_5 := fun aD aE _ => AltsAllX XT aD aE)
    xt_boolean xt_null xt_integer xt_octetString xt_bitString xt_charString
    xt_enumerated xt_enumeratedD xt_enumeratedE
    (fun x _ _ hm ha => xt_sequence _ _ _ _ x hm ha)
    (fun c _ ih => xt_sequenceOf _ _ c ih)
    (fun x hcr hca ihr iha => xt_choice _ _ _ _ x hcr hca ihr iha)
    xtm_nil
    (fun name p hc _ hx ih => xtm_cons name p _ _ _ _ hc hx ih)
    xta_nilD
    (fun ms _ => xta_nilE ms)
    (fun name p _ _ hx ih => xta_cons name p _ _ _ _ hx ih)
    (by simp [AltsAllX])
    (fun name _ _ hx ih => by simp only [AltsAllX]; exact ⟨hx, ih⟩)
    (fun as => by cases as <;> simp [AltsAllX])
    (fun as => by cases as <;> simp [AltsAllX])
    (fun name _ _ hx ih => by simp only [AltsAllX]; exact ⟨hx, ih⟩)
    h

/-! ### the side condition `nsOk` of version 2 holds for version 1 -/

theorem nsIndexOk_mono {m n : Nat} (h : m ≤ n) (hn : nsIndexOk n = true) : nsIndexOk m = true := by
  simp only [nsIndexOk, decide_eq_true_eq] at hn ⊢
  have := bitLength_mono (m := m - 1) (n := n - 1) (by omega)
  omega

theorem nsOk_of_extends {t1 t2 : Ty} (h : Extends t1 t2) : t2.nsOk = true → t1.nsOk = true :=
  Extends.rec
    (motive_1 := fun t1 t2 _ => t2.nsOk = true → t1.nsOk = true)
    (motive_2 := fun m1 m2 _ => m2.nsOk = true → m1.nsOk = true)
    (motive_3 := fun _ m1 m2 _ => m2.nsOk = true → m1.nsOk = true)
    (motive_4 := fun a1 a2 _ => a2.nsOk = true → a1.nsOk = true)
    (motive_5 := fun _ a1 a2 _ => (a2.nsOk = true → a1.nsOk = true) ∧ a1.length ≤ a2.length)
    (fun h => h) (fun h => h) (fun _ h => h) (fun _ h => h) (fun _ h => h) (fun _ _ h => h)
    (fun _ h => h)
    (fun root adds new h => by
      simp only [Ty.nsOk] at h ⊢
      exact nsIndexOk_mono (by simp) h)
    (fun x _ _ ihr iha h => by
      simp only [Ty.nsOk, Bool.and_eq_true] at h ⊢
      exact ⟨ihr h.1, iha h.2⟩)
    (fun c _ ih h => by
      simp only [Ty.nsOk] at h ⊢
      exact ih h)
    (fun x _ _ ihr iha h => by
      simp only [Ty.nsOk, Bool.and_eq_true] at h ⊢
      exact ⟨⟨ihr h.1.1, iha.1 h.1.2⟩, nsIndexOk_mono iha.2 h.2⟩)
    (fun h => h)
    (fun name p _ _ iht ihm h => by
      simp only [Members.nsOk, Bool.and_eq_true] at h ⊢
      exact ⟨iht h.1, ihm h.2⟩)
    (fun x ms _ _ _ => rfl)
    (fun name p _ _ iht ihm h => by
      simp only [Members.nsOk, Bool.and_eq_true] at h ⊢
      exact ⟨iht h.1, ihm h.2⟩)
    (fun h => h)
    (fun name _ _ iht ihm h => by
      simp only [Alts.nsOk, Bool.and_eq_true] at h ⊢
      exact ⟨iht h.1, ihm h.2⟩)
    (fun x as _ => ⟨fun _ => rfl, by simp [Alts.length]⟩)
    (fun name _ _ iht ihm => ⟨fun h => by
      simp only [Alts.nsOk, Bool.and_eq_true] at h ⊢
      exact ⟨iht h.1, ihm.1 h.2⟩, by simp [Alts.length]; exact ihm.2⟩)
    h

end Asn1.Ext.UperX

#print axioms Asn1.Ext.UperX.xt_all
