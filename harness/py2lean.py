"""py2lean — a translator from a small, explicitly delimited subset of Python to Lean 4.

Purpose: the *translator tie* of DESIGN.md §2.3.  The functions listed in TARGETS (pure helpers of the codecs and the
bit-buffer classes `per.Encoder`) are read from /repo's CURRENT source with `ast` on every run and re-emitted as Lean
definitions (lean/Asn1Model/Translated.lean).  Theorems in lean/Asn1Proofs/Lemmas/Bridge*.lean state, for ALL arguments,
that each translated definition equals the hand-written model function the property theorems are about (or refines the
bit-list abstraction).  A change of the Python source changes the regenerated definition; if the behaviour changed, the
bridge theorem no longer checks and stage P reports the broken obligation (the harness then searches for a failing
input by running the changed function against the model).

Subset (anything else raises Unsupported — the translator never guesses):
  statements   x = e | x op= e | xs[i] op= e | xs[i] = e | self.f = e | self.f op= e | if/elif/else | while | for x in xs |
               return e | raise E(...) | xs.append(e) | xs.reverse() | xs.extend(e) | xs.insert(0, e) | self.m(...) | docstrings
  expressions  int / bool / bytes literals, names, self.f, + - * // % ** & | ^ << >> unary -, comparisons (chains),
               and / or / not, `x in [..]`, conditional expressions, len, bytearray, bytes, int(binascii.hexlify(b), 16),
               .bit_length(), divmod, min, max, abs, indexing, slices, list / tuple literals, calls of translated functions
  types        int (Lean Int), bool, bytes = list of int (List Int), list[T], tuple[..], a class state record

Semantics that are modelled exactly: unbounded integers, floor division / modulo, two's-complement & | ^ on negative
numbers, negative indices, slice clamping, IndexError (functions that index are translated into `Except String`),
explicit `raise` (the exception class name is the error value).  Assumed and recorded in the trusted base: shift counts
and exponents are non-negative where the source shifts; `while` loops get a fuel bound (Py.fuelOf… of all live
variables unless TARGETS gives one) — a loop that runs out of fuel returns its current state, and the bridge theorems
(which are about the hand-written model, itself tied to the running code by correspondence) fail in that case.
"""
import ast
import copy
import os
import textwrap

REPO_DEFAULT = '/repo'


class Unsupported(Exception):
    pass


INT, BOOL, BYTES, NONE, STR, HEX4 = 'int', 'bool', 'bytes', 'none', 'str', 'hex4'


def lean_type(t, structs):
    if t == INT:
        return 'Int'
    if t == BOOL:
        return 'Bool'
    if t == BYTES:
        return 'List Int'
    if t == NONE:
        return 'Unit'
    if t == STR:
        return 'List Char'
    if isinstance(t, tuple) and t[0] == 'opt':
        return 'Option (%s)' % lean_type(t[1], structs)
    if t == HEX4:
        return 'Int'            # the text hex(X)[4:].rstrip('L') is carried as X itself; its only use is binascii.unhexlify
    if isinstance(t, tuple) and t[0] == 'list':
        return 'List (%s)' % lean_type(t[1], structs)
    if isinstance(t, tuple) and t[0] == 'tuple':
        return ' × '.join('(%s)' % lean_type(x, structs) for x in t[1:])
    if isinstance(t, tuple) and t[0] == 'struct':
        return structs[t[1]]['lean']
    raise Unsupported('type %r' % (t,))


def parse_type(s):
    s = s.strip()
    if s in (INT, BOOL, BYTES, NONE, STR):
        return s
    if s.startswith('list[') and s.endswith(']'):
        inner = parse_type(s[5:-1])
        return BYTES if inner == INT else ('list', inner)
    if s.startswith('tuple[') and s.endswith(']'):
        return ('tuple',) + tuple(parse_type(x) for x in s[6:-1].split(','))
    if s.startswith('struct:'):
        return ('struct', s[7:])
    raise Unsupported('type syntax %r' % s)


def hex_sentinel_arg(e):
    """X if e is the idiom `hex(X)[4:].rstrip('L')` (hex digits of X without the two leading sentinel digits)"""
    if isinstance(e, ast.Call) and isinstance(e.func, ast.Attribute) and e.func.attr == 'rstrip' and len(e.args) == 1 \
            and isinstance(e.args[0], ast.Constant) and e.args[0].value == 'L':
        sub = e.func.value
        if isinstance(sub, ast.Subscript) and isinstance(sub.slice, ast.Slice) and sub.slice.upper is None and sub.slice.step is None \
                and isinstance(sub.slice.lower, ast.Constant) and sub.slice.lower.value == 4:
            h = sub.value
            if isinstance(h, ast.Call) and isinstance(h.func, ast.Name) and h.func.id == 'hex' and len(h.args) == 1:
                return h.args[0]
    return None


def is_dict_try(s):
    """try: return {k: v, ...}[key]  except KeyError: raise E(...)"""
    return (len(s.body) == 1 and isinstance(s.body[0], ast.Return) and isinstance(s.body[0].value, ast.Subscript)
            and isinstance(s.body[0].value.value, ast.Dict) and len(s.handlers) == 1 and not s.orelse and not s.finalbody
            and isinstance(s.handlers[0].type, ast.Name) and s.handlers[0].type.id == 'KeyError'
            and len(s.handlers[0].body) == 1 and isinstance(s.handlers[0].body[0], ast.Raise))


def bin_sentinel_arg(e):
    """X if e is the idiom `bin(X)[10:]` (binary digits of X without '0b' and the eight leading sentinel digits)"""
    if isinstance(e, ast.Subscript) and isinstance(e.slice, ast.Slice) and e.slice.upper is None and e.slice.step is None \
            and isinstance(e.slice.lower, ast.Constant) and e.slice.lower.value == 10:
        h = e.value
        if isinstance(h, ast.Call) and isinstance(h.func, ast.Name) and h.func.id == 'bin' and len(h.args) == 1:
            return h.args[0]
    return None


def assigned_names(stmts):
    """names (incl. 'self') that a statement list may (re)bind"""
    out = []

    def add(n):
        if n not in out:
            out.append(n)

    def target(t):
        if isinstance(t, ast.Name):
            add(t.id)
        elif isinstance(t, ast.Subscript):
            target(t.value)
        elif isinstance(t, ast.Attribute):
            target(t.value)
        elif isinstance(t, (ast.Tuple, ast.List)):
            for e in t.elts:
                target(e)
        else:
            raise Unsupported('assignment target %s' % ast.dump(t))

    class V(ast.NodeVisitor):
        def visit_Assign(self, n):
            for t in n.targets:
                target(t)
            self.generic_visit(n)

        def visit_AugAssign(self, n):
            target(n.target)
            self.generic_visit(n)

        def visit_For(self, n):
            target(n.target)
            self.generic_visit(n)

        def visit_Expr(self, n):
            c = n.value
            if isinstance(c, ast.Call) and isinstance(c.func, ast.Attribute):
                # a method call used as a statement mutates its receiver (append, reverse, self.m(...), ...)
                target(c.func.value)
            self.generic_visit(n)

    for s in stmts:
        V().visit(s)
    return out


def always_returns(stmts):
    for s in stmts:
        if isinstance(s, (ast.Return, ast.Raise)):
            return True
        if isinstance(s, ast.If) and s.orelse and always_returns(s.body) and always_returns(s.orelse):
            return True
    return False


def contains_return(stmts):
    for s in stmts:
        for n in ast.walk(s):
            if isinstance(n, (ast.Return,)):
                return True
    return False


class FnInfo:
    def __init__(self, key, node, cfg, cls=None):
        self.key = key            # e.g. 'ber.encode_tag' or 'per.Encoder.append_bit'
        self.node = node
        self.cfg = cfg
        self.cls = cls
        self.partial = False
        self.mutates = False      # methods only: rebinds self
        self.ret = None
        self.lean_name = key.replace('.', '_')
        self.calls = set()


class Translator:
    def __init__(self, repo=REPO_DEFAULT):
        self.repo = repo
        self.fns = {}             # key -> FnInfo
        self.structs = {}         # class key -> {'lean': name, 'fields': [(name, type)]}
        self.order = []
        self.out = []
        self.sources = {}
        self.exc_sigs = {}
        self.consts = {}
        self.parents = {'IndexError': 'LookupError', 'KeyError': 'LookupError', 'LookupError': 'Exception', 'ValueError': 'Exception',
                        'TypeError': 'Exception', 'NotImplementedError': 'RuntimeError', 'RuntimeError': 'Exception'}

    # ------------------------------------------------------------------ loading
    def load(self, targets):
        for mod_key, spec in targets.items():
            path = os.path.join(self.repo, spec['file'])
            src = open(path).read()
            self.sources[mod_key] = spec['file']
            tree = ast.parse(src)
            top = {n.name: n for n in tree.body if isinstance(n, (ast.FunctionDef, ast.ClassDef))}
            self.exc_sigs[mod_key] = spec.get('exceptions', {})
            consts = {}
            for n in tree.body:
                if isinstance(n, ast.Assign) and len(n.targets) == 1 and isinstance(n.targets[0], ast.Name) and n.targets[0].id in spec.get('constants', []):
                    consts[n.targets[0].id] = n.value
            for cname in spec.get('constants', []):
                if cname not in consts:
                    raise Unsupported('%s: module constant %s not found' % (mod_key, cname))
            self.consts[mod_key] = consts
            for extra in [spec['file']] + spec.get('exception_files', []):
                etree = ast.parse(open(os.path.join(self.repo, extra)).read())
                for n in etree.body:
                    if isinstance(n, ast.ClassDef) and n.bases and n.name.endswith('Error'):
                        b = n.bases[0]
                        self.parents[n.name] = b.id if isinstance(b, ast.Name) else (b.attr if isinstance(b, ast.Attribute) else 'Exception')
            for fname, cfg in spec.get('functions', {}).items():
                if fname not in top or not isinstance(top[fname], ast.FunctionDef):
                    raise Unsupported('%s: function %s not found in %s' % (mod_key, fname, spec['file']))
                self.fns['%s.%s' % (mod_key, fname)] = FnInfo('%s.%s' % (mod_key, fname), top[fname], cfg)
            for cname, ccfg in spec.get('classes', {}).items():
                if cname not in top or not isinstance(top[cname], ast.ClassDef):
                    raise Unsupported('%s: class %s not found' % (mod_key, cname))
                ckey = '%s.%s' % (mod_key, cname)
                self.structs[ckey] = {'lean': ckey.replace('.', '_') + 'S',
                                      'fields': [(f, parse_type(t)) for f, t in ccfg['fields'].items()]}
                methods = {n.name: n for n in top[cname].body if isinstance(n, ast.FunctionDef)}
                for mname, mcfg in ccfg['methods'].items():
                    if mname not in methods:
                        raise Unsupported('%s: method %s not found' % (ckey, mname))
                    self.fns['%s.%s' % (ckey, mname)] = FnInfo('%s.%s' % (ckey, mname), methods[mname], mcfg, cls=ckey)

    # ------------------------------------------------------------------ analysis
    def resolve_call(self, fn, call):
        """-> key of a translated callee or None"""
        f = call.func
        if isinstance(f, ast.Name):
            mod = fn.key.split('.')[0]
            k = '%s.%s' % (mod, f.id)
            if k in self.fns:
                return k
            alias = fn.cfg.get('calls', {}).get(f.id)
            if alias:
                return alias
        if isinstance(f, ast.Attribute) and isinstance(f.value, ast.Name) and fn.cls:
            recv = f.value.id
            t = None
            if recv == 'self':
                t = fn.cls
            else:
                pt = fn.cfg.get('params', {}).get(recv)
                if pt and pt.startswith('struct:'):
                    t = pt[7:]
            if t:
                k = '%s.%s' % (t, f.attr)
                if k in self.fns:
                    return k
        if isinstance(f, ast.Attribute) and isinstance(f.value, ast.Name):
            alias = fn.cfg.get('calls', {}).get('%s.%s' % (f.value.id, f.attr))
            if alias:
                return alias
        return None

    def analyse(self):
        for fn in self.fns.values():
            for n in ast.walk(fn.node):
                if isinstance(n, ast.Call):
                    k = self.resolve_call(fn, n)
                    if k:
                        fn.calls.add(k)
        # partiality and mutation: least fixpoint
        for fn in self.fns.values():
            for n in ast.walk(fn.node):
                if isinstance(n, ast.Raise):
                    fn.partial = True
                if isinstance(n, ast.Subscript) and not isinstance(n.slice, ast.Slice):
                    fn.partial = True
                if isinstance(n, ast.Call) and isinstance(n.func, ast.Attribute) and n.func.attr in ('pop', 'unhexlify'):
                    fn.partial = True
                if isinstance(n, ast.Call) and isinstance(n.func, ast.Name) and n.func.id == 'int' and len(n.args) == 2 \
                        and isinstance(n.args[1], ast.Constant) and n.args[1].value == 2:
                    fn.partial = True
                if isinstance(n, ast.Try):
                    fn.partial = True
                if isinstance(n, ast.Call) and isinstance(n.func, ast.Name) and n.func.id == 'int' and len(n.args) == 1:
                    fn.partial = True
            if fn.cls:
                names = assigned_names(fn.node.body)
                direct = False
                for n in ast.walk(fn.node):
                    if isinstance(n, (ast.Assign, ast.AugAssign)):
                        ts = n.targets if isinstance(n, ast.Assign) else [n.target]
                        for t in ts:
                            b = t
                            while isinstance(b, (ast.Attribute, ast.Subscript)):
                                b = b.value
                            if isinstance(b, ast.Name) and b.id == 'self':
                                direct = True
                    if isinstance(n, ast.Expr) and isinstance(n.value, ast.Call) and isinstance(n.value.func, ast.Attribute):
                        b = n.value.func.value
                        while isinstance(b, (ast.Attribute, ast.Subscript)):
                            b = b.value
                        if isinstance(b, ast.Name) and b.id == 'self' and isinstance(n.value.func.value, ast.Attribute):
                            direct = True     # self.chunks.append(...)
                fn.mutates = direct
                del names
        for fn in self.fns.values():
            sigs = self.exc_sigs.get(fn.key.split('.')[0], {})
            fn.rich = False
            for n in ast.walk(fn.node):
                if isinstance(n, ast.Raise) and isinstance(n.exc, ast.Call) and isinstance(n.exc.func, ast.Name) and n.exc.func.id in sigs:
                    fn.rich = True
                if isinstance(n, ast.Try) and not is_dict_try(n):
                    fn.rich = True
            if fn.rich:
                fn.partial = True
        changed = True
        while changed:
            changed = False
            for fn in self.fns.values():
                for k in fn.calls:
                    c = self.fns[k]
                    if c.rich and not fn.rich:
                        fn.rich = True
                        fn.partial = True
                        changed = True
                    if c.partial and not fn.partial:
                        fn.partial = True
                        changed = True
                    if fn.cls and c.cls and c.mutates and not fn.mutates:
                        # calling a mutating method on self mutates self
                        fn.mutates = True
                        changed = True
        # topological order
        seen = {}

        def visit(k):
            if seen.get(k) == 2:
                return
            if seen.get(k) == 1:
                raise Unsupported('recursion through %s' % k)
            seen[k] = 1
            for c in sorted(self.fns[k].calls):
                visit(c)
            seen[k] = 2
            self.order.append(k)
        for k in self.fns:
            visit(k)

    # ------------------------------------------------------------------ expressions
    def field_type(self, ckey, name):
        for f, t in self.structs[ckey]['fields']:
            if f == name:
                return t
        raise Unsupported('%s has no declared field %s' % (ckey, name))

    def expr(self, fn, e, env):
        """-> (lean text, type)"""
        P = fn.partial
        if isinstance(e, ast.Constant):
            v = e.value
            if isinstance(v, bool):
                return ('true' if v else 'false'), BOOL
            if isinstance(v, int):
                return ('(%d : Int)' % v if v >= 0 else '(-%d : Int)' % -v), INT
            if isinstance(v, bytes):
                return '([%s] : List Int)' % ', '.join(str(b) for b in v), BYTES
            if v is None:
                return '()', NONE
            if isinstance(v, str) and all(32 <= ord(c) < 127 and c not in "'\\" for c in v):
                return '([%s] : List Char)' % ', '.join("'%s'" % c for c in v), STR
            raise Unsupported('constant %r' % (v,))
        if isinstance(e, ast.Name) and e.id not in env and e.id in self.consts.get(fn.key.split('.')[0], {}):
            return self.expr(fn, self.consts[fn.key.split('.')[0]][e.id], {})
        if isinstance(e, ast.Name) and e.id in getattr(fn, 'const_params', {}):
            return self.expr(fn, ast.Constant(value=fn.const_params[e.id]), {})
        if isinstance(e, ast.Name):
            if e.id not in env:
                raise Unsupported('%s: name %s read before assignment (or not a local)' % (fn.key, e.id))
            return e.id, env[e.id]
        if isinstance(e, ast.Attribute) and isinstance(e.value, ast.Name) and e.value.id in env \
                and isinstance(env[e.value.id], tuple) and env[e.value.id][0] == 'exc':
            sig = [p_ for p_ in self.exc_sig(fn).get(env[e.value.id][1], []) if p_ != 'message']
            if e.attr not in sig:
                raise Unsupported('%s: attribute %s of exception %s' % (fn.key, e.attr, env[e.value.id][1]))
            return '(Py.excArg e__ %d)' % sig.index(e.attr), INT
        if isinstance(e, ast.Attribute) and isinstance(e.value, ast.Name) and e.value.id in env \
                and isinstance(env[e.value.id], tuple) and env[e.value.id][0] == 'struct':
            return '%s.%s' % (e.value.id, e.attr), self.field_type(env[e.value.id][1], e.attr)
        if isinstance(e, ast.UnaryOp):
            a, t = self.expr(fn, e.operand, env)
            if isinstance(e.op, ast.USub) and t == INT:
                return '(-%s)' % a, INT
            if isinstance(e.op, ast.Not):
                return '(!%s)' % self.as_bool(a, t), BOOL
            raise Unsupported('unary %s' % ast.dump(e.op))
        if isinstance(e, ast.BinOp):
            a, ta = self.expr(fn, e.left, env)
            b, tb = self.expr(fn, e.right, env)
            if ta == BOOL:
                a, ta = '(Py.boolToInt %s)' % a, INT
            if tb == BOOL:
                b, tb = '(Py.boolToInt %s)' % b, INT
            if ta == INT and tb == INT:
                op = e.op
                table = {ast.Add: '(%s + %s)', ast.Sub: '(%s - %s)', ast.Mult: '(%s * %s)', ast.FloorDiv: '(Py.fdiv %s %s)',
                         ast.Mod: '(Py.fmod %s %s)', ast.Pow: '(Py.pow %s %s)', ast.BitAnd: '(Py.band %s %s)',
                         ast.BitOr: '(Py.bor %s %s)', ast.BitXor: '(Py.bxor %s %s)', ast.LShift: '(Py.shl %s %s)',
                         ast.RShift: '(Py.shr %s %s)'}
                if type(op) not in table:
                    raise Unsupported('int operator %s' % ast.dump(op))
                if isinstance(op, (ast.LShift, ast.RShift)) and P and not (isinstance(e.right, ast.Constant) and e.right.value >= 0):
                    # a shift count that comes from data: Python raises ValueError when it is negative
                    return self.bind(fn, 'Py.%sE %s %s' % ('shl' if isinstance(op, ast.LShift) else 'shr', a, b), env=env), INT
                return table[type(op)] % (a, b), INT
            if isinstance(e.op, ast.Add) and ta == tb and (ta in (BYTES, STR) or (isinstance(ta, tuple) and ta[0] == 'list')):
                return '(%s ++ %s)' % (a, b), ta
            if isinstance(e.op, ast.Mult) and ta == STR and tb == INT:
                return '(Py.strRepeat %s %s)' % (a, b), STR
            raise Unsupported('binary operator %s on %r, %r' % (ast.dump(e.op), ta, tb))
        if isinstance(e, ast.BoolOp):
            parts = [self.as_bool(*self.expr(fn, v, env)) for v in e.values]
            op = ' && ' if isinstance(e.op, ast.And) else ' || '
            return '(' + op.join(parts) + ')', BOOL
        if isinstance(e, ast.Compare):
            parts = []
            left, tl = self.expr(fn, e.left, env)
            for op, right_e in zip(e.ops, e.comparators):
                if isinstance(op, (ast.In, ast.NotIn)):
                    if not isinstance(right_e, (ast.List, ast.Tuple)):
                        raise Unsupported('`in` with a non-literal container')
                    alts = []
                    for el in right_e.elts:
                        r, tr = self.expr(fn, el, env)
                        if tr != tl:
                            raise Unsupported('`in` over mixed types')
                        alts.append('decide (%s = %s)' % (left, r))
                    s = '(' + ' || '.join(alts) + ')' if alts else 'false'
                    parts.append(s if isinstance(op, ast.In) else '(!%s)' % s)
                    continue
                right, tr = self.expr(fn, right_e, env)
                if tl == BOOL and tr == INT:
                    left, tl = '(Py.boolToInt %s)' % left, INT
                if tr == BOOL and tl == INT:
                    right, tr = '(Py.boolToInt %s)' % right, INT
                if tl != tr or tl not in (INT, BOOL, BYTES, STR):
                    raise Unsupported('comparison of %r with %r' % (tl, tr))
                sym = {ast.Lt: '<', ast.LtE: '≤', ast.Gt: '>', ast.GtE: '≥', ast.Eq: '=', ast.NotEq: '≠'}.get(type(op))
                if sym is None or (tl != INT and sym not in ('=', '≠')):
                    raise Unsupported('comparison %s on %r' % (ast.dump(op), tl))
                parts.append('decide (%s %s %s)' % (left, sym, right))
                left, tl = right, tr
            return ('(' + ' && '.join(parts) + ')' if len(parts) > 1 else parts[0]), BOOL
        if isinstance(e, ast.IfExp):
            c = self.as_bool(*self.expr(fn, e.test, env))
            a, ta = self.expr(fn, e.body, env)
            b, tb = self.expr(fn, e.orelse, env)
            if ta != tb:
                raise Unsupported('conditional expression with branches of types %r / %r' % (ta, tb))
            return '(if %s then %s else %s)' % (c, a, b), ta
        if isinstance(e, (ast.List, ast.Tuple)):
            items = [self.expr(fn, x, env) for x in e.elts]
            if isinstance(e, ast.List):
                if not items:
                    return '([] : List Int)', BYTES
                t0 = items[0][1]
                if any(t != t0 for _, t in items):
                    raise Unsupported('heterogeneous list literal')
                lt = BYTES if t0 == INT else ('list', t0)
                return '([%s] : %s)' % (', '.join(a for a, _ in items), lean_type(lt, self.structs)), lt
            return '(%s)' % ', '.join(a for a, _ in items), ('tuple',) + tuple(t for _, t in items)
        if isinstance(e, ast.Subscript):
            bx = bin_sentinel_arg(e)
            if bx is not None:
                a, t = self.expr(fn, bx, env)
                if t != INT:
                    raise Unsupported('bin of %r' % (t,))
                return '(Py.binAfter10 %s)' % a, STR
            base, tb = self.expr(fn, e.value, env)
            if not (tb in (BYTES, STR) or (isinstance(tb, tuple) and tb[0] == 'list')):
                raise Unsupported('subscript of %r' % (tb,))
            if tb == STR and not isinstance(e.slice, ast.Slice):
                i, ti = self.expr(fn, e.slice, env)
                if ti != INT:
                    raise Unsupported('index of type %r' % (ti,))
                assert P
                return self.bind(fn, 'Py.strIdx %s %s' % (base, i), env=env), STR
            et = INT if tb == BYTES else (None if tb == STR else tb[1])
            if isinstance(e.slice, ast.Slice):
                sl = e.slice
                if sl.step is not None:
                    st = sl.step
                    if sl.lower is None and sl.upper is None and isinstance(st, ast.UnaryOp) and isinstance(st.op, ast.USub) \
                            and isinstance(st.operand, ast.Constant) and st.operand.value == 1:
                        return '(%s).reverse' % base, tb
                    raise Unsupported('slice step')
                if sl.lower is not None and sl.upper is not None:
                    lo, _ = self.expr(fn, sl.lower, env)
                    hi, _ = self.expr(fn, sl.upper, env)
                    return '(Py.slice %s %s %s)' % (base, lo, hi), tb
                if sl.lower is not None:
                    return '(Py.sliceFrom %s %s)' % (base, self.expr(fn, sl.lower, env)[0]), tb
                if sl.upper is not None:
                    return '(Py.sliceTo %s %s)' % (base, self.expr(fn, sl.upper, env)[0]), tb
                return base, tb
            i, ti = self.expr(fn, e.slice, env)
            if ti != INT:
                raise Unsupported('index of type %r' % (ti,))
            assert P
            return self.bind(fn, 'Py.getIdx %s %s' % (base, i), env=env), et
        if isinstance(e, ast.Call):
            x = hex_sentinel_arg(e)
            if x is not None:
                a, t = self.expr(fn, x, env)
                if t != INT:
                    raise Unsupported('hex of %r' % (t,))
                return a, HEX4
            return self.call(fn, e, env)
        raise Unsupported('%s: expression %s' % (fn.key, ast.dump(e)))

    def as_bool(self, a, t):
        if t == BOOL:
            return a
        if t == INT:
            return '(Py.truthyInt %s)' % a
        if t in (BYTES, STR) or (isinstance(t, tuple) and t[0] == 'list'):
            return '(Py.truthyList %s)' % a
        raise Unsupported('truthiness of %r' % (t,))

    def call(self, fn, e, env):
        f = e.func
        args = e.args
        if e.keywords:
            raise Unsupported('keyword arguments')
        if isinstance(f, ast.Name):
            if f.id == 'len' and len(args) == 1:
                return '(Py.len %s)' % self.expr(fn, args[0], env)[0], INT
            if f.id in ('bytearray', 'bytes', 'list'):
                if not args:
                    return '([] : List Int)', BYTES
                a, t = self.expr(fn, args[0], env)
                if t != BYTES:
                    raise Unsupported('%s(%r)' % (f.id, t))
                return a, BYTES
            if f.id == 'int' and len(args) == 2 and isinstance(args[1], ast.Constant) and args[1].value == 16 \
                    and isinstance(args[0], ast.Call) and isinstance(args[0].func, ast.Attribute) and args[0].func.attr == 'hexlify':
                a, t = self.expr(fn, args[0].args[0], env)
                if t != BYTES:
                    raise Unsupported('hexlify of %r' % (t,))
                return '(Py.bytesToInt %s)' % a, INT
            if f.id == 'int' and len(args) == 2 and isinstance(args[1], ast.Constant) and args[1].value == 2:
                a, t = self.expr(fn, args[0], env)
                if t != STR:
                    raise Unsupported('int(%r, 2)' % (t,))
                assert fn.partial
                return self.bind(fn, 'Py.intOfBin %s' % a, env=env), INT
            if f.id == 'int' and len(args) == 1:
                a, t = self.expr(fn, args[0], env)
                if t == INT:
                    return a, INT
                if t != STR:
                    raise Unsupported('int(%r)' % (t,))
                assert fn.partial
                return self.bind(fn, 'Py.intOfDec %s' % a, env=env), INT
            if f.id == 'sum' and len(args) == 1:
                a, t = self.expr(fn, args[0], env)
                if isinstance(t, tuple) and t[0] == 'tuple' and all(x == INT for x in t[1:]):
                    n_ = len(t) - 1
                    if n_ == 2:
                        return '(let t__ := %s; t__.1 + t__.2)' % a, INT
                raise Unsupported('sum of %r' % (t,))
            if f.id == 'divmod' and len(args) == 2:
                a, _ = self.expr(fn, args[0], env)
                b, _ = self.expr(fn, args[1], env)
                return '((Py.fdiv %s %s), (Py.fmod %s %s))' % (a, b, a, b), ('tuple', INT, INT)
            if f.id in ('min', 'max') and len(args) == 2:
                a, _ = self.expr(fn, args[0], env)
                b, _ = self.expr(fn, args[1], env)
                return '(%s %s %s)' % (f.id, a, b), INT
            if f.id == 'abs' and len(args) == 1:
                return '((%s).natAbs : Int)' % self.expr(fn, args[0], env)[0], INT
        if isinstance(f, ast.Attribute) and f.attr == 'unhexlify' and len(args) == 1:
            a, t = self.expr(fn, args[0], env)
            if t != HEX4:
                raise Unsupported('unhexlify of something else than hex(X)[4:].rstrip(\'L\')')
            assert fn.partial
            return self.bind(fn, 'Py.unhexAfter4 %s' % a, env=env), BYTES
        if isinstance(f, ast.Attribute) and f.attr == 'bit_length' and not args:
            a, t = self.expr(fn, f.value, env)
            if t != INT:
                raise Unsupported('bit_length of %r' % (t,))
            return '(Py.bitLength %s)' % a, INT
        k = self.resolve_call(fn, e)
        if k:
            c = self.fns[k]
            largs = [self.expr(fn, a, env)[0] for a in args]
            if c.cls:
                recv = f.value.id
                if c.mutates:
                    raise Unsupported('%s: call of the mutating method %s inside an expression' % (fn.key, k))
                largs = [recv] + largs
            txt = '%s %s' % (c.lean_name, ' '.join(largs)) if largs else c.lean_name
            if c.partial:
                return self.bind(fn, txt, callee=c, env=env), c.ret
            return '(%s)' % txt, c.ret
        raise Unsupported('%s: call %s' % (fn.key, ast.dump(e)[:120]))

    # ------------------------------------------------------------------ statements
    def tup(self, names):
        return names[0] if len(names) == 1 else '(' + ', '.join(names) + ')'

    def tup_type(self, names, env):
        ts = [lean_type(env[n], self.structs) for n in names]
        return ts[0] if len(ts) == 1 else ' × '.join('(%s)' % t for t in ts)

    def ret_wrap(self, fn, val, env):
        """text of a `return val` (val: lean text or None)"""
        if fn.cls and fn.mutates:
            v = 'self' if val is None else '(self, %s)' % val
        else:
            v = '()' if val is None else val
        return ('pure %s' % v) if fn.partial else v

    def mods(self, fn, stmts):
        """names a statement list may rebind, including the receivers of state-changing method calls anywhere inside"""
        out = assigned_names(stmts)
        for st in stmts:
            for n in ast.walk(st):
                if self.is_mutating_call(fn, n):
                    recv = n.func.value.id
                    if recv not in out:
                        out.append(recv)
        return out

    def generic_fuel(self, params, env):
        """1 + magnitudes of the live integers + lengths of the live lists (also those inside state records)"""
        terms = []
        for p in params:
            t = env[p]
            if t == INT:
                terms.append('Py.fuelOfInt %s' % p)
            elif t in (BYTES, STR) or (isinstance(t, tuple) and t[0] == 'list'):
                terms.append('Py.fuelOfList %s' % p)
            elif isinstance(t, tuple) and t[0] == 'struct':
                for f, ft in self.structs[t[1]]['fields']:
                    if ft == INT:
                        terms.append('Py.fuelOfInt %s.%s' % (p, f))
                    elif ft in (BYTES, STR) or (isinstance(ft, tuple) and ft[0] == 'list'):
                        terms.append('Py.fuelOfList %s.%s' % (p, f))
        return ' + '.join(['1'] + terms)

    def try_stmt(self, fn, s, rest, env, tail, ind):
        """try: BODY except C1 [as e]: H1 except C2: H2 …   (no else / finally).  BODY either always returns, or never returns
        (then the names it binds are the value of the protected block).  A handler matches the exception class and its
        subclasses (class table taken from the source); an exception that no handler matches propagates."""
        if s.orelse or s.finalbody or not getattr(fn, 'rich', False):
            raise Unsupported('%s: try with else / finally' % fn.key)
        pad = '  ' * ind
        lines = []
        body_returns = always_returns(s.body)
        if not body_returns and contains_return(s.body):
            raise Unsupported('%s: try body that returns on some paths only' % fn.key)
        hs = []
        for h in s.handlers:
            if not isinstance(h.type, ast.Name):
                raise Unsupported('%s: except clause without a single class name' % fn.key)
            hs.append((h.type.id, h.name, h.body))
        if body_returns:
            # value of the whole statement = value of the function
            lines.append('%smatch (show Except Py.Err _ from do' % pad)
            lines += self.block(fn, s.body, env, None, ind + 2)
            lines.append('%s  ) with' % pad)
            lines.append('%s| .ok v__ => pure v__' % pad)
            lines.append('%s| .error e__ =>' % pad)
            lines += self.handlers(fn, hs, rest, env, tail, ind + 1, after=None)
            return lines
        # BODY falls through: its statements are translated in place; every raising step inside is wrapped with the handlers
        for hname, hvar, hbody in hs:
            if len(hbody) != 1 or not isinstance(hbody[0], ast.Raise):
                raise Unsupported('%s: a handler of a try whose body falls through must be a single raise' % fn.key)
        if any(isinstance(n, ast.Raise) for b in s.body for n in ast.walk(b)):
            raise Unsupported('%s: explicit raise inside a try body' % fn.key)
        fn.catch_stack = getattr(fn, 'catch_stack', []) + [hs]
        try:
            inner = self.block(fn, list(s.body), env, '@try', ind)
        finally:
            fn.catch_stack = fn.catch_stack[:-1]
        env2 = self.try_env
        lines += inner
        lines += self.block(fn, rest, env2, tail, ind)
        return lines

    def handlers(self, fn, hs, rest, env, tail, ind, after):
        pad = '  ' * ind
        lines = []
        for hname, hvar, hbody in hs:
            lines.append('%sif Py.isSub excParent e__.cls "%s" then' % (pad, hname))
            henv = dict(env)
            if hvar:
                henv[hvar] = ('exc', hname)
            blk = self.block(fn, list(hbody), henv, None, ind + 2)
            if hvar:
                blk = [l.replace('%s__EXC__' % hvar, 'e__') for l in blk]
            lines.append('%s  (do' % pad)
            lines += blk
            lines[-1] += ')'
            lines.append('%selse' % pad)
        lines.append('%s  throw e__' % pad)
        return lines

    def exc_sig(self, fn):
        """exception class -> constructor parameter names, for the module the function lives in (TARGETS[...]['exceptions'])"""
        return self.exc_sigs.get(fn.key.split('.')[0], {})

    def err_ty(self, fn):
        return 'Py.Err' if getattr(fn, 'rich', False) else 'String'

    def catch_wrap(self, fn, txt, env):
        """inside a `try` body: the handlers see the variables as they are AT THE POINT where the exception is raised, so every
        raising step is wrapped on the spot (the handler text refers to the current bindings by name)"""
        for hs in reversed(getattr(fn, 'catch_stack', [])):
            chain = 'throw e__'
            for hname, hvar, hbody in reversed(hs):
                r = hbody[0]
                henv = dict(env)
                if hvar:
                    henv[hvar] = ('exc', hname)
                hl = self.block(fn, [r], henv, None, 0)
                if len(hl) != 1:
                    raise Unsupported('%s: handler too complex to inline' % fn.key)
                chain = 'if Py.isSub excParent e__.cls "%s" then %s else %s' % (hname, hl[0].strip(), chain)
            txt = 'Py.catchWith (%s) (fun e__ => %s)' % (txt, chain)
        return txt

    def bind(self, fn, txt, callee=None, env=None):
        """`(← txt)`; a computation in `Except String` (primitives, functions that raise plain exceptions) used inside a function
        whose exceptions carry data (`Except Py.Err`) is lifted"""
        return '(← %s)' % self.arrow_rhs(fn, callee, txt, env)

    def arrow_rhs(self, fn, callee, txt, env=None):
        """right-hand side of `let pat ← …` / inside `(← …)` for a raising primitive or a call of a partial callee"""
        if getattr(fn, 'rich', False) and not (callee is not None and getattr(callee, 'rich', False)):
            txt = 'Py.liftE (%s)' % txt
        if getattr(fn, 'catch_stack', None):
            if env is None:
                raise Unsupported('%s: raising step inside try without an environment' % fn.key)
            txt = self.catch_wrap(fn, txt, env)
        return txt

    def is_mutating_call(self, fn, e):
        if isinstance(e, ast.Call):
            k = self.resolve_call(fn, e)
            return bool(k and self.fns[k].cls and self.fns[k].mutates)
        return False

    def has_mutating_call(self, fn, e):
        return any(self.is_mutating_call(fn, n) for n in ast.walk(e))

    def hoist(self, fn, e, env, lines, pad, top=False):
        """Replace every call of a state-changing method inside expression `e` by a fresh temporary that is bound (together
        with the new receiver state) BEFORE the statement, in Python's left-to-right evaluation order.  Calls under
        `and` / `or` / conditional expressions (evaluated conditionally) are not supported."""
        if not self.has_mutating_call(fn, e):
            return e
        if isinstance(e, (ast.BoolOp, ast.IfExp, ast.Lambda, ast.ListComp, ast.GeneratorExp)):
            raise Unsupported('%s: state-changing call under a conditionally evaluated expression' % fn.key)
        if isinstance(e, ast.Compare) and len(e.ops) > 1:
            raise Unsupported('%s: state-changing call in a comparison chain' % fn.key)
        if isinstance(e, ast.Call):
            e.args = [self.hoist(fn, a, env, lines, pad) for a in e.args]
            if self.is_mutating_call(fn, e) and not top:
                c = self.fns[self.resolve_call(fn, e)]
                if c.ret in (None, NONE):
                    raise Unsupported('%s: value of %s used, but it returns None' % (fn.key, c.key))
                recv = e.func.value.id
                fn.tmp_count = getattr(fn, 'tmp_count', 0) + 1
                tmp = 'tmp%d__' % fn.tmp_count
                largs = [recv] + [self.expr(fn, a, env)[0] for a in e.args]
                ctxt = '%s %s' % (c.lean_name, ' '.join(largs))
                lines.append('%slet (%s, %s) %s %s' % (pad, recv, tmp, '←' if c.partial else ':=', self.arrow_rhs(fn, c, ctxt, env) if c.partial else ctxt))
                env[tmp] = c.ret
                return ast.Name(id=tmp, ctx=ast.Load())
            return e
        for field, value in ast.iter_fields(e):
            if isinstance(value, ast.expr):
                setattr(e, field, self.hoist(fn, value, env, lines, pad))
            elif isinstance(value, list):
                setattr(e, field, [self.hoist(fn, v, env, lines, pad) if isinstance(v, ast.expr) else v for v in value])
        return e

    def block(self, fn, stmts, env, tail, ind):
        """Translate `stmts`; `tail` = None (block must return on every path) or a list of names whose tuple is the
        value of the block when control falls off its end.  Returns a list of lines."""
        P = fn.partial
        pad = '  ' * ind
        lines = []
        env = dict(env)

        def let(name, txt):
            arrow = ':='
            lines.append('%slet %s %s %s' % (pad, name, arrow, txt))

        for idx, s in enumerate(stmts):
            rest = stmts[idx + 1:]
            if isinstance(s, ast.Expr) and isinstance(s.value, ast.Constant) and isinstance(s.value.value, str):
                continue                                    # docstring
            if isinstance(s, ast.Pass):
                continue
            if isinstance(s, ast.Return) and s.value is not None and self.is_mutating_call(fn, s.value) \
                    and self.fns[self.resolve_call(fn, s.value)].ret in (None, NONE):
                # `return self.m(...)` where m returns None: the call, then `return None`
                lines += self.block(fn, [ast.Expr(value=s.value), ast.Return(value=None)], env, None, ind)
                return lines
            if isinstance(s, ast.Return) and s.value is not None:
                s = copy.deepcopy(s)
                s.value = self.hoist(fn, s.value, env, lines, pad)
            elif isinstance(s, (ast.Assign, ast.AugAssign)):
                s = copy.deepcopy(s)
                s.value = self.hoist(fn, s.value, env, lines, pad, top=isinstance(s, ast.Assign))
            elif isinstance(s, ast.Expr) and isinstance(s.value, ast.Call):
                s = copy.deepcopy(s)
                s.value = self.hoist(fn, s.value, env, lines, pad, top=True)
            elif isinstance(s, ast.If):
                if self.has_mutating_call(fn, s.test):
                    s = copy.deepcopy(s)
                    s.test = self.hoist(fn, s.test, env, lines, pad)
            elif isinstance(s, ast.While) and self.has_mutating_call(fn, s.test):
                raise Unsupported('%s: state-changing call in a loop condition' % fn.key)
            if isinstance(s, ast.Try) and not is_dict_try(s):
                lines += self.try_stmt(fn, s, rest, env, tail, ind)
                return lines
            if isinstance(s, ast.Try):
                d = s.body[0].value.value
                key_e = s.body[0].value.slice
                chain = list(s.handlers[0].body)
                for kk, vv in reversed(list(zip(d.keys, d.values))):
                    chain = [ast.If(test=ast.Compare(left=key_e, ops=[ast.Eq()], comparators=[kk]), body=[ast.Return(value=vv)], orelse=chain)]
                lines += self.block(fn, chain, env, None, ind)
                return lines
            if isinstance(s, ast.Return) and getattr(fn, 'opt_ret', False):
                if s.value is None or (isinstance(s.value, ast.Constant) and s.value.value is None):
                    lines.append(pad + ('pure none' if P else 'none'))
                else:
                    a, t = self.expr(fn, s.value, env)
                    self.note_ret(fn, ('opt', t))
                    lines.append(pad + (('pure (some %s)' if P else '(some %s)') % a))
                return lines
            if isinstance(s, ast.Return):
                if s.value is None:
                    lines.append(pad + self.ret_wrap(fn, None, env))
                    self.note_ret(fn, NONE)
                elif fn.cls and fn.mutates and isinstance(s.value, ast.Name) and s.value.id == 'self':
                    lines.append(pad + self.ret_wrap(fn, None, env))      # `return self` of an in-place operator
                    self.note_ret(fn, NONE)
                else:
                    a, t = self.expr(fn, s.value, env)
                    self.note_ret(fn, t)
                    lines.append(pad + self.ret_wrap(fn, a, env))
                return lines
            if isinstance(s, ast.Raise):
                exc = s.exc
                name = exc.func.id if isinstance(exc, ast.Call) and isinstance(exc.func, ast.Name) else \
                    (exc.id if isinstance(exc, ast.Name) else None)
                if name is None:
                    raise Unsupported('raise of %s' % ast.dump(exc)[:80])
                if getattr(fn, 'rich', False):
                    sig = self.exc_sig(fn).get(name)
                    vals = []
                    if sig and isinstance(exc, ast.Call):
                        for pos, pname in enumerate(sig):
                            node_ = exc.args[pos] if pos < len(exc.args) else next((k.value for k in exc.keywords if k.arg == pname), None)
                            if pname == 'message' or node_ is None:
                                continue
                            a_, t_ = self.expr(fn, node_, env)
                            if t_ != INT:
                                raise Unsupported('%s: exception attribute %s of type %r' % (fn.key, pname, t_))
                            vals.append(a_)
                    lines.append('%sthrow (Py.Err.mk "%s" [%s])' % (pad, name, ', '.join(vals)))
                else:
                    lines.append('%sthrow "%s"' % (pad, name))
                return lines
            if isinstance(s, ast.Assign):
                if len(s.targets) != 1:
                    raise Unsupported('chained assignment')
                t = s.targets[0]
                # x, y = mutating call / tuple
                if isinstance(s.value, ast.Call):
                    k = self.resolve_call(fn, s.value)
                    if k and self.fns[k].cls and self.fns[k].mutates:
                        c = self.fns[k]
                        recv = s.value.func.value.id
                        largs = [recv] + [self.expr(fn, a, env)[0] for a in s.value.args]
                        if not isinstance(t, ast.Name):
                            raise Unsupported('target of a mutating call')
                        arrow = '←' if c.partial else ':='
                        ctxt = '%s %s' % (c.lean_name, ' '.join(largs))
                        lines.append('%slet (%s, %s) %s %s' % (pad, recv, t.id, arrow, self.arrow_rhs(fn, c, ctxt, env) if c.partial else ctxt))
                        env[t.id] = c.ret
                        continue
                a, ta = self.expr(fn, s.value, env)
                if isinstance(t, ast.Name):
                    let(t.id, a)
                    env[t.id] = ta
                elif isinstance(t, ast.Tuple) and all(isinstance(x, ast.Name) for x in t.elts):
                    if not (isinstance(ta, tuple) and ta[0] == 'tuple' and len(ta) - 1 == len(t.elts)):
                        raise Unsupported('tuple unpacking of %r' % (ta,))
                    let('(' + ', '.join(x.id for x in t.elts) + ')', a)
                    for x, tx in zip(t.elts, ta[1:]):
                        env[x.id] = tx
                elif isinstance(t, ast.Attribute) and isinstance(t.value, ast.Name) and t.value.id == 'self':
                    ft = self.field_type(fn.cls, t.attr)
                    if ft != ta:
                        raise Unsupported('%s: field %s declared %r, assigned %r' % (fn.key, t.attr, ft, ta))
                    let('self', '{ self with %s := %s }' % (t.attr, a))
                elif isinstance(t, ast.Subscript) and isinstance(t.value, ast.Name) and not isinstance(t.slice, ast.Slice):
                    i, _ = self.expr(fn, t.slice, env)
                    lines.append('%slet _ ← Py.getIdx %s %s' % (pad, t.value.id, i))
                    let(t.value.id, 'Py.setIdx %s %s %s' % (t.value.id, i, a))
                else:
                    raise Unsupported('assignment target %s' % ast.dump(t)[:80])
                continue
            if isinstance(s, ast.AugAssign):
                t = s.target
                fake = ast.BinOp(left=self.load_of(t), op=s.op, right=s.value)
                a, ta = self.expr(fn, fake, env)
                if isinstance(t, ast.Name):
                    let(t.id, a)
                    env[t.id] = ta
                elif isinstance(t, ast.Attribute) and isinstance(t.value, ast.Name) and t.value.id == 'self':
                    let('self', '{ self with %s := %s }' % (t.attr, a))
                elif isinstance(t, ast.Subscript) and isinstance(t.value, ast.Name) and not isinstance(t.slice, ast.Slice):
                    i, _ = self.expr(fn, t.slice, env)
                    let(t.value.id, 'Py.setIdx %s %s %s' % (t.value.id, i, a))
                else:
                    raise Unsupported('augmented assignment target %s' % ast.dump(t)[:80])
                continue
            if isinstance(s, ast.Expr) and isinstance(s.value, ast.Call):
                c = s.value
                k = self.resolve_call(fn, c)
                if k:
                    callee = self.fns[k]
                    if callee.cls and callee.mutates:
                        recv = c.func.value.id
                        largs = [recv] + [self.expr(fn, a, env)[0] for a in c.args]
                        arrow = '←' if callee.partial else ':='
                        pat = recv if callee.ret in (None, NONE) else '(%s, _)' % recv
                        ctxt = '%s %s' % (callee.lean_name, ' '.join(largs))
                        lines.append('%slet %s %s %s' % (pad, pat, arrow, self.arrow_rhs(fn, callee, ctxt, env) if callee.partial else ctxt))
                        continue
                    # a pure call as a statement has no effect except a possible exception
                    a, _ = self.expr(fn, c, env)
                    if callee.partial:
                        lines.append('%slet _ := %s' % (pad, a))
                    continue
                if isinstance(c.func, attr_t := ast.Attribute):
                    recv_e = c.func.value
                    recv, tr = self.expr(fn, recv_e, env)
                    m = c.func.attr
                    if m == 'append' and len(c.args) == 1:
                        arg = c.args[0]
                        if isinstance(tr, tuple) and tr[0] == 'list' and isinstance(tr[1], tuple) and tr[1][0] == 'tuple' \
                                and isinstance(arg, ast.List) and len(arg.elts) == len(tr[1]) - 1:
                            # a fixed-arity list literal stored in a list declared as a list of tuples
                            arg = ast.Tuple(elts=arg.elts, ctx=ast.Load())
                        a, ta = self.expr(fn, arg, env)
                        if (tr == BYTES and ta != INT) or (isinstance(tr, tuple) and tr[0] == 'list' and tr[1] != ta):
                            raise Unsupported('%s: append of %r to %r' % (fn.key, ta, tr))
                        new = '(%s ++ [%s])' % (recv, a)
                    elif m == 'extend' and len(c.args) == 1:
                        a, ta = self.expr(fn, c.args[0], env)
                        new = '(%s ++ %s)' % (recv, a)
                    elif m == 'reverse' and not c.args:
                        new = '(%s).reverse' % recv
                    elif m == 'insert' and len(c.args) == 2 and isinstance(c.args[0], ast.Constant) and c.args[0].value == 0:
                        a, ta = self.expr(fn, c.args[1], env)
                        new = '(%s :: %s)' % (a, recv)
                    else:
                        raise Unsupported('%s: method statement .%s' % (fn.key, m))
                    if isinstance(recv_e, ast.Name):
                        let(recv_e.id, new)
                    elif isinstance(recv_e, ast.Attribute) and isinstance(recv_e.value, ast.Name) and recv_e.value.id == 'self':
                        let('self', '{ self with %s := %s }' % (recv_e.attr, new))
                    else:
                        raise Unsupported('receiver %s' % ast.dump(recv_e)[:80])
                    del attr_t
                    continue
                raise Unsupported('%s: call statement %s' % (fn.key, ast.dump(c)[:100]))
            if isinstance(s, ast.If) and isinstance(s.test, ast.Name) and s.test.id in getattr(fn, 'const_params', {}):
                chosen = s.body if fn.const_params[s.test.id] else s.orelse
                lines += self.block(fn, list(chosen) + list(rest), env, tail, ind)
                return lines
            if isinstance(s, ast.If):
                cond = self.as_bool(*self.expr(fn, s.test, env))
                a_ret, b_ret = always_returns(s.body), (always_returns(s.orelse) if s.orelse else False)
                if a_ret and b_ret:
                    if any(not (isinstance(r, ast.Expr) and isinstance(r.value, ast.Constant)) for r in rest):
                        pass                                    # unreachable code after the if: ignored by Python too
                    lines.append('%sif %s then' % (pad, cond))
                    lines += self.sub(fn, s.body, env, None, ind + 1)
                    lines.append('%selse' % pad)
                    lines += self.sub(fn, s.orelse, env, None, ind + 1)
                    return lines
                if a_ret or b_ret or contains_return(s.body) or contains_return(s.orelse):
                    # a branch that (sometimes) returns ends the function there; every path that falls through continues with
                    # (a copy of) the rest of the block
                    lines.append('%sif %s then' % (pad, cond))
                    lines += self.sub(fn, s.body + ([] if a_ret else rest), env, None if a_ret else tail, ind + 1)
                    lines.append('%selse' % pad)
                    lines += self.sub(fn, (s.orelse if b_ret else s.orelse + rest), env, None if b_ret else tail, ind + 1)
                    return lines
                mod = [n for n in self.mods(fn, s.body + s.orelse)]
                new = [n for n in mod if n not in env]
                if new:
                    # variables first bound inside the branches: allowed only if bound on both paths with one type
                    ea = self.env_after(fn, s.body, env)
                    eb = self.env_after(fn, s.orelse, env)
                    for n in new:
                        if n not in ea or n not in eb or ea[n] != eb[n]:
                            # bound on one path only: keep it branch-local (an error if it is read afterwards)
                            mod = [m for m in mod if m != n]
                        else:
                            env[n] = ea[n]
                if not mod:
                    continue
                arrow = '←' if P else ':='
                lines.append('%slet %s %s (if %s then' % (pad, self.tup(mod), arrow, cond))
                lines += self.sub(fn, s.body, {k: v for k, v in env.items() if k not in new}, mod, ind + 2)
                lines.append('%s  else' % pad)
                lines += self.sub(fn, s.orelse, {k: v for k, v in env.items() if k not in new}, mod, ind + 2)
                lines[-1] += ')'
                continue
            if isinstance(s, ast.While) and isinstance(s.test, ast.Constant) and s.test.value is True:
                last = s.body[-1] if s.body else None
                ok = (not s.orelse and isinstance(last, ast.If) and not last.orelse and len(last.body) == 1 and isinstance(last.body[0], ast.Break)
                      and not contains_return(s.body)
                      and not any(isinstance(n, (ast.Break, ast.Continue)) for b in s.body[:-1] for n in ast.walk(b)))
                if not ok:
                    raise Unsupported('%s: `while True` must end with `if c: break` and contain no other break / continue / return' % fn.key)
                body = s.body[:-1]
                mod = [n for n in self.mods(fn, body) if n in env]
                params = [n for n in env]
                fn.loop_count = getattr(fn, 'loop_count', 0) + 1
                lname = '%s_loop%d' % (fn.lean_name, fn.loop_count)
                sig = ' → '.join(['Nat'] + ['(%s)' % lean_type(env[p_], self.structs) for p_ in params])
                rt = self.tup_type(mod, env)
                L = ['def %s : %s → %s' % (lname, sig, ('Except %s (%s)' % (self.err_ty(fn), rt)) if P else rt)]
                L.append('  | 0, %s => %s' % (', '.join(params), ('pure ' if P else '') + self.tup(mod)))
                L.append('  | fuel + 1, %s =>%s' % (', '.join(params), ' do' if P else ''))
                benv = dict(env)
                blines = self.block(fn, body, benv, '@loop', 2)
                # the exit test is evaluated in the environment after the body
                benv2 = self.env_after(fn, body, env)
                tlines = []
                test = self.hoist(fn, copy.deepcopy(last.test), benv2, tlines, '    ')
                cond = self.as_bool(*self.expr(fn, test, benv2))
                L += blines + tlines
                L.append('    if %s then %s' % (cond, ('pure ' if P else '') + self.tup(mod)))
                L.append('    else %s fuel %s' % (lname, ' '.join(params)))
                self.out.append('\n'.join(L) + '\n')
                fuel = fn.cfg.get('fuel', {}).get(str(fn.loop_count)) or self.generic_fuel(params, env)
                lines.append('%slet %s %s %s (%s) %s' % (pad, self.tup(mod), '←' if P else ':=', lname, fuel, ' '.join(params)))
                continue
            if isinstance(s, ast.While):
                if s.orelse or contains_return(s.body) or any(isinstance(n, (ast.Break, ast.Continue)) for b in s.body for n in ast.walk(b)):
                    raise Unsupported('%s: while with else / return / break / continue' % fn.key)
                mod = [n for n in self.mods(fn, s.body) if n in env]
                params = [n for n in env]
                fn.loop_count = getattr(fn, 'loop_count', 0) + 1
                lname = '%s_loop%d' % (fn.lean_name, fn.loop_count)
                sig = ' → '.join(['Nat'] + ['(%s)' % lean_type(env[p], self.structs) for p in params])
                rt = self.tup_type(mod, env)
                rtxt = ('Except %s (%s)' % (self.err_ty(fn), rt)) if P else rt
                L = ['def %s : %s → %s' % (lname, sig, rtxt)]
                L.append('  | 0, %s => %s' % (', '.join(params), ('pure ' if P else '') + self.tup(mod)))
                L.append('  | fuel + 1, %s =>%s' % (', '.join(params), ' do' if P else ''))
                cond = self.as_bool(*self.expr(fn, s.test, env))
                L.append('    if %s then%s' % (cond, ' do' if False else ''))
                body_lines = self.block(fn, s.body, env, '@loop', 3)
                L += body_lines
                L.append('      %s fuel %s' % (lname, ' '.join(params)))
                L.append('    else %s' % (('pure ' if P else '') + self.tup(mod)))
                self.out.append('\n'.join(L) + '\n')
                fuel = fn.cfg.get('fuel', {}).get(str(fn.loop_count)) or self.generic_fuel(params, env)
                arrow = '←' if P else ':='
                lines.append('%slet %s %s %s (%s) %s' % (pad, self.tup(mod), arrow, lname, fuel, ' '.join(params)))
                continue
            if isinstance(s, ast.For):
                if s.orelse or contains_return(s.body) or any(isinstance(n, (ast.Break, ast.Continue)) for b in s.body for n in ast.walk(b)):
                    raise Unsupported('%s: for with else / return / break / continue' % fn.key)
                it, tit = self.expr(fn, s.iter, env)
                if tit == BYTES:
                    et = INT
                elif isinstance(tit, tuple) and tit[0] == 'list':
                    et = tit[1]
                else:
                    raise Unsupported('for over %r' % (tit,))
                benv = dict(env)
                pre = []
                if isinstance(s.target, ast.Name):
                    var = s.target.id
                    benv[var] = et
                elif isinstance(s.target, ast.Tuple) and all(isinstance(x, ast.Name) for x in s.target.elts):
                    var = 'it__'
                    if et == BYTES:
                        # unpacking a list element [a, b]: exact length required, otherwise ValueError
                        names = [x.id for x in s.target.elts]
                        if not P:
                            raise Unsupported('%s: unpacking list elements needs a partial function' % fn.key)
                        pre.append('let %s ← (match it__ with | [%s] => pure (%s) | _ => throw "ValueError")' % (
                            self.tup(names), ', '.join(names), ', '.join(names)))
                        for n in names:
                            benv[n] = INT
                    elif isinstance(et, tuple) and et[0] == 'tuple' and len(et) - 1 == len(s.target.elts):
                        names = [x.id for x in s.target.elts]
                        pre.append('let (%s) := it__' % ', '.join(names))
                        for n, tn in zip(names, et[1:]):
                            benv[n] = tn
                    else:
                        raise Unsupported('for-target unpacking of %r' % (et,))
                else:
                    raise Unsupported('for target')
                mod = [n for n in self.mods(fn, s.body) if n in env]
                if not mod:
                    continue
                arrow = '←' if P else ':='
                folder = 'List.foldlM' if P else 'List.foldl'
                lines.append('%slet %s %s %s (fun %s %s =>%s' % (pad, self.tup(mod), arrow, folder,
                                                                  self.tup(mod) if len(mod) == 1 else '(' + ', '.join(mod) + ')', var,
                                                                  ' do' if P else ''))
                for p_ in pre:
                    lines.append('%s    %s' % (pad, p_))
                lines += self.block(fn, s.body, benv, mod, ind + 2)
                lines[-1] += ') %s %s' % (self.tup(mod), it)
                continue
            raise Unsupported('%s: statement %s' % (fn.key, type(s).__name__))
        # fell off the end
        if tail == '@try':
            self.try_env = env
            return lines
        if tail == '@loop':
            return lines
        if tail is None:
            lines.append(pad + self.ret_wrap(fn, None, env))
            self.note_ret(fn, NONE)
        else:
            for n in tail:
                if n not in env:
                    raise Unsupported('%s: %s may be unbound at the end of a branch' % (fn.key, n))
            lines.append(pad + (('pure ' if P else '') + (self.tup(tail) if tail else '()')))
        return lines

    def sub(self, fn, stmts, env, tail, ind):
        """a nested block, parenthesised (do-block in partial mode)"""
        pad = '  ' * ind
        inner = self.block(fn, stmts, env, tail, ind + 1 if fn.partial else ind)
        if fn.partial:
            return ['%s(do' % pad] + inner[:-1] + [inner[-1] + ')']
        inner[0] = pad + '(' + inner[0].lstrip()
        inner = [inner[0]] + [' ' + l for l in inner[1:]]
        inner[-1] += ')'
        return inner

    def env_after(self, fn, stmts, env):
        """types of the names definitely bound after stmts (assignments, and joins of if/else branches)"""
        e = dict(env)
        saved_out, saved_lc = list(self.out), getattr(fn, 'loop_count', 0)
        try:
            for s in stmts:
                if isinstance(s, ast.Assign) and len(s.targets) == 1 and isinstance(s.targets[0], ast.Name):
                    k = self.resolve_call(fn, s.value) if isinstance(s.value, ast.Call) else None
                    if k and self.fns[k].ret is not None:
                        e[s.targets[0].id] = self.fns[k].ret
                        continue
                    try:
                        scratch = []
                        v = self.hoist(fn, copy.deepcopy(s.value), e, scratch, '')
                        e[s.targets[0].id] = self.expr(fn, v, e)[1]
                    except Unsupported:
                        pass
                elif isinstance(s, ast.If):
                    ea = self.env_after(fn, s.body, e)
                    eb = self.env_after(fn, s.orelse, e)
                    for n in ea:
                        if n not in e and n in eb and ea[n] == eb[n]:
                            e[n] = ea[n]
        finally:
            self.out[:] = saved_out
            fn.loop_count = saved_lc
        return e

    def load_of(self, t):
        t2 = copy.deepcopy(t)
        for n in ast.walk(t2):
            if hasattr(n, 'ctx'):
                n.ctx = ast.Load()
        return t2

    def note_ret(self, fn, t):
        if fn.ret is None:
            fn.ret = t
        elif fn.ret != t:
            if NONE in (fn.ret, t):
                raise Unsupported('%s: returns both a value and None' % fn.key)
            raise Unsupported('%s: returns %r and %r' % (fn.key, fn.ret, t))

    # ------------------------------------------------------------------ functions
    def function(self, fn):
        node = fn.node
        params = [a.arg for a in node.args.args]
        env = {}
        ptypes = fn.cfg.get('params', {})
        is_init = fn.cls is not None and node.name == '__init__'
        fn.const_params = dict(fn.cfg.get('const_params', {}))
        params = [p for p in params if p not in fn.const_params]
        for p in params:
            if p == 'self' and fn.cls:
                env[p] = ('struct', fn.cls)
            else:
                if p not in ptypes:
                    raise Unsupported('%s: no declared type for parameter %s' % (fn.key, p))
                env[p] = parse_type(ptypes[p])
        ndef = len(node.args.defaults)
        defaulted = [a.arg for a in node.args.args][len(node.args.args) - ndef:] if ndef else []
        if node.args.vararg or node.args.kwarg or node.args.kwonlyargs or any(d not in fn.const_params for d in defaulted):
            raise Unsupported('%s: parameter kinds (a parameter with a default value must be fixed in const_params)' % fn.key)
        if 'ret' in fn.cfg:
            fn.ret = parse_type(fn.cfg['ret'])
        rets = [n for n in ast.walk(node) if isinstance(n, ast.Return)]
        none_rets = [r for r in rets if r.value is None or (isinstance(r.value, ast.Constant) and r.value.value is None)]
        fn.opt_ret = bool(none_rets) and len(none_rets) < len(rets) and not (fn.cls and fn.mutates)
        fn.loop_count = 0
        body = self.block(fn, node.body, env, None, 1)
        ret = fn.ret if fn.ret is not None else NONE
        fn.ret = ret
        if fn.cls and fn.mutates:
            rt = lean_type(('struct', fn.cls), self.structs) if ret == NONE else \
                '(%s) × (%s)' % (lean_type(('struct', fn.cls), self.structs), lean_type(ret, self.structs))
        else:
            rt = lean_type(ret, self.structs)
        if fn.partial:
            rt = 'Except %s (%s)' % (self.err_ty(fn), rt)
        sig = ' '.join('(%s : %s)' % (p, lean_type(env[p], self.structs)) for p in params if not (is_init and p == 'self'))
        head = 'def %s %s : %s :=%s' % (fn.lean_name, sig, rt, ' do' if fn.partial else '')
        if is_init:
            # constructor: `self` starts as the record of zeros / empty lists and is returned
            zero = {INT: '0', BOOL: 'false', BYTES: '[]', STR: '[]'}
            init = ', '.join('%s := %s' % (f, zero.get(t, '[]')) for f, t in self.structs[fn.cls]['fields'])
            body = ['  let self : %s := { %s }' % (lean_type(('struct', fn.cls), self.structs), init)] + body
        src = ast.get_source_segment(open(os.path.join(self.repo, self.sources[fn.key.split('.')[0]])).read(), node)
        doc = '/- %s  (%s)\n%s\n-/' % (fn.key, self.sources[fn.key.split('.')[0]], textwrap.indent(src, '   '))
        self.out.append(doc + '\n' + head + '\n' + '\n'.join(body) + '\n')

    def run(self, targets):
        self.load(targets)
        self.analyse()
        # return types of callees must be known before callers: translate in topological order
        hdr = ['/- GENERATED by harness/py2lean.py from the CURRENT source of /repo on every run. Do not edit.',
               '   Every definition below is a mechanical translation of the Python function quoted above it. -/',
               'import Asn1Model.PyPrim', 'set_option linter.unusedVariables false', 'namespace Asn1.Translated', '']
        for ckey, st in self.structs.items():
            hdr.append('structure %s where' % st['lean'])
            for f, t in st['fields']:
                hdr.append('  %s : %s' % (f, lean_type(t, self.structs)))
            hdr.append('  deriving Repr, BEq, DecidableEq')
            hdr.append('')
        hdr.append('/-- base class of each exception class (from the `class X(Y)` statements of the source; builtins added) -/')
        hdr.append('def excParent : String → Option String')
        for c_, b_ in sorted(self.parents.items()):
            hdr.append('  | "%s" => some "%s"' % (c_, b_))
        hdr.append('  | _ => none')
        hdr.append('')
        for k in self.order:
            self.function(self.fns[k])
        return '\n'.join(hdr) + '\n' + '\n'.join(self.out) + '\nend Asn1.Translated\n'

    def dispatcher(self):
        """Lean text of Asn1Model/TranslatedWire.lean: Wire instances of the state records and the name -> function table
        used by `trdriver` (translator validation: translated definitions vs the running Python functions)."""
        L = ['/- GENERATED by harness/py2lean.py. Do not edit. -/', 'import Asn1Model.Translated', 'import Asn1Model.PyWire',
             'namespace Asn1.Translated', 'open Py Asn1', '']
        for ckey, st in self.structs.items():
            n = st['lean']
            fs = [f for f, _ in st['fields']]
            L.append('instance : Wire %s where' % n)
            L.append('  toSx s := .list [%s]' % ', '.join('Wire.toSx s.%s' % f for f in fs))
            L.append('  ofSx')
            L.append('    | .list [%s] => do pure { %s }' % (', '.join('a%d' % i for i in range(len(fs))),
                                                           ', '.join('%s := (← Wire.ofSx a%d)' % (f, i) for i, f in enumerate(fs))))
            L.append('    | _ => none')
            L.append('')
        L.append('def trDispatch (name : String) (args : List Sx) : Option Sx :=')
        L.append('  match name, args with')
        for k in self.order:
            fn = self.fns[k]
            params = [a.arg for a in fn.node.args.args if a.arg not in fn.cfg.get('const_params', {})]
            if fn.cls and fn.node.name == '__init__':
                params = params[1:]
            pats = ', '.join('a%d' % i for i in range(len(params)))
            calls = ' '.join('(← Wire.ofSx a%d)' % i for i in range(len(params)))
            body = '%s %s' % (fn.lean_name, calls)
            if fn.partial and getattr(fn, 'rich', False):
                L.append('  | "%s", [%s] => do pure (errToSx (%s))' % (fn.key, pats, body))
            elif fn.partial:
                L.append('  | "%s", [%s] => do pure (exceptToSx (%s))' % (fn.key, pats, body))
            else:
                L.append('  | "%s", [%s] => do pure (Wire.toSx (%s))' % (fn.key, pats, body))
        L.append('  | _, _ => none')
        L.append('end Asn1.Translated')
        return '\n'.join(L) + '\n'


# ---------------------------------------------------------------------------------------------------------------------
# what is translated (file paths relative to the repository root)

TARGETS = {
    'ber': {
        'file': 'asn1tools/codecs/ber.py',
        'functions': {
            'encode_length_definite': {'params': {'length': 'int'}},
            'encode_tag': {'params': {'number': 'int', 'flags': 'int'}},
            'encode_object_identifier_subidentifier': {'params': {'subidentifier': 'int'}},
            'decode_object_identifier_subidentifier': {'params': {'data': 'bytes', 'offset': 'int'}},
            'skip_tag': {'params': {'data': 'bytes', 'offset': 'int'}},
            'decode_length': {'params': {'encoded': 'bytes', 'offset': 'int'}, 'const_params': {'enforce_definite': True}},
            'read_tag': {'params': {'data': 'bytes', 'offset': 'int'}},
            'skip_tag_length_contents': {'params': {'data': 'bytes', 'offset': 'int'}},
            'detect_end_of_contents_tag': {'params': {'data': 'bytes', 'offset': 'int'}},
            'decode_full_length': {'params': {'data': 'bytes'}},
        },
        'constants': ['END_OF_CONTENTS_OCTETS'],
        'exceptions': {'OutOfByteDataError': ['message', 'offset'], 'MissingDataError': ['message', 'offset', 'expected_length'],
                       'DecodeError': ['message', 'offset']},
        'exception_files': ['asn1tools/codecs/__init__.py', 'asn1tools/errors.py'],
    },
    'oer': {
        'file': 'asn1tools/codecs/oer.py',
        'functions': {
            'encode_tag': {'params': {'number': 'int', 'flags': 'int'}},
        },
        'classes': {
            'Encoder': {
                'fields': {'number_of_bits': 'int', 'value': 'int'},
                'methods': {
                    'number_of_bytes': {},
                    'align': {},
                    'append_bit': {'params': {'bit': 'int'}},
                    'append_non_negative_binary_integer': {'params': {'value': 'int', 'number_of_bits': 'int'}},
                    'append_bits': {'params': {'data': 'bytes', 'number_of_bits': 'int'}},
                    'append_u8': {'params': {'value': 'int'}},
                    'append_bytes': {'params': {'data': 'bytes'}},
                    'append_length_determinant': {'params': {'value': 'int'}},
                    'append_integer': {'params': {'value': 'int'}},
                    'append_unsigned_integer': {'params': {'value': 'int'}},
                    '__iadd__': {'params': {'other': 'struct:oer.Encoder'}},
                    'as_bytearray': {},
                },
            },
            'Decoder': {
                'fields': {'number_of_bits': 'int', 'total_number_of_bits': 'int', 'value': 'int'},
                'methods': {
                    '__init__': {'params': {'encoded': 'bytes'}},
                    'align': {},
                    'number_of_read_bits': {},
                    'skip_bits': {'params': {'number_of_bits': 'int'}},
                    'peek_bit': {},
                    'read_bit': {},
                    'read_bits': {'params': {'number_of_bits': 'int'}},
                    'read_byte': {},
                    'read_bytes': {'params': {'number_of_bytes': 'int'}},
                    'read_non_negative_binary_integer': {'params': {'number_of_bits': 'int'}},
                    'read_length_determinant': {},
                    'read_integer': {},
                    'read_unsigned_integer': {},
                    'read_tag': {},
                },
            },
        },
    },
    'per': {
        'file': 'asn1tools/codecs/per.py',
        'functions': {
            'integer_as_number_of_bits': {'params': {'size': 'int'}},
            'integer_as_number_of_bits_power_of_two': {'params': {'size': 'int'}},
            'size_as_number_of_bytes': {'params': {'size': 'int'}},
            'to_byte_array': {'params': {'num': 'int', 'number_of_bits': 'int'}},
        },
        'classes': {
            'Encoder': {
                'fields': {'number_of_bits': 'int', 'value': 'int', 'chunks_number_of_bits': 'int', 'chunks': 'list[tuple[int,int]]'},
                'methods': {
                    'number_of_bytes': {},
                    'align_always': {},
                    'align': {},
                    'append_bit': {'params': {'bit': 'int'}},
                    'append_non_negative_binary_integer': {'params': {'value': 'int', 'number_of_bits': 'int'}},
                    'append_bits': {'params': {'data': 'bytes', 'number_of_bits': 'int'}},
                    'append_bytes': {'params': {'data': 'bytes'}},
                    'append_length_determinant': {'params': {'length': 'int'}},
                    'append_normally_small_non_negative_whole_number': {'params': {'value': 'int'}},
                    'append_normally_small_length': {'params': {'value': 'int'}},
                    'append_constrained_whole_number': {'params': {'value': 'int', 'minimum': 'int', 'maximum': 'int', 'number_of_bits': 'int'}},
                    'append_unconstrained_whole_number': {'params': {'value': 'int'}},
                    '__iadd__': {'params': {'other': 'struct:per.Encoder'}},
                    'as_bytearray': {},
                },
            },
            'Decoder': {
                'fields': {'number_of_bits': 'int', 'total_number_of_bits': 'int', 'value': 'str'},
                'methods': {
                    '__init__': {'params': {'encoded': 'bytes'}},
                    'align_always': {},
                    'align': {},
                    'number_of_read_bits': {},
                    'skip_bits': {'params': {'number_of_bits': 'int'}},
                    'read_bit': {},
                    'read_bits': {'params': {'number_of_bits': 'int'}},
                    'read_bytes': {'params': {'number_of_bytes': 'int'}},
                    'read_non_negative_binary_integer': {'params': {'number_of_bits': 'int'}},
                    'read_length_determinant': {},
                    'read_normally_small_non_negative_whole_number': {},
                    'read_normally_small_length': {},
                    'read_constrained_whole_number': {'params': {'minimum': 'int', 'maximum': 'int', 'number_of_bits': 'int'}},
                    'read_unconstrained_whole_number': {},
                },
            },
        },
    },
    'c_oer': {
        'file': 'asn1tools/source/c/oer.py',
        'functions': {
            'get_length_determinant_length': {'params': {'length': 'int'}},
        },
    },
    'c_uper': {
        'file': 'asn1tools/source/c/uper.py',
        'functions': {
            'does_bits_match_range': {'params': {'number_of_bits': 'int', 'minimum': 'int', 'maximum': 'int'}},
        },
    },
    'compiler': {
        'file': 'asn1tools/codecs/compiler.py',
        'functions': {
            'lowest_set_bit': {'params': {'value': 'int'}},
        },
    },
}


def translate(repo=REPO_DEFAULT, targets=None):
    t = Translator(repo)
    text = t.run(targets or TARGETS)
    return text, t.dispatcher(), t


def _write(path, text):
    old = open(path).read() if os.path.exists(path) else None
    if old != text:
        with open(path, 'w') as f:
            f.write(text)


def write_translated(lean_dir, repo=REPO_DEFAULT):
    """regenerates Translated.lean and TranslatedWire.lean; raises Unsupported when the source left the subset"""
    text, wire, t = translate(repo)
    _write(os.path.join(lean_dir, 'Asn1Model', 'Translated.lean'), text)
    _write(os.path.join(lean_dir, 'Asn1Model', 'TranslatedWire.lean'), wire)
    return t


if __name__ == '__main__':
    import sys
    text, wire, _ = translate(sys.argv[1] if len(sys.argv) > 1 else REPO_DEFAULT)
    print(text)
    print(wire)
