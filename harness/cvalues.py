"""Values generated from a compiled BER codec tree (no AST needed): used to probe specifications that come from
texts the harness generator did not produce (fixtures, the dictionary-rewrite generator).  Every value is
returned in two forms: with ENUMERATED names and with ENUMERATED numbers (numeric_enums=True)."""
import datetime


class Unsupported(Exception):
    pass


def _flat(ms):
    out = []
    for m in ms or []:
        if isinstance(m, list):
            out += _flat(m)
        else:
            out.append(m)
    return out


def gen(t, rng, depth=0):
    """(value with names, value with numbers) for the compiled ber type object `t`"""
    cn = type(t).__name__
    if depth > 6:
        raise Unsupported('depth')
    if cn == 'Boolean':
        b = rng.random() < 0.5
        return b, b
    if cn == 'Integer':
        i = rng.choice([0, 1, 2, 3, 5, 7, 100, -1, 255, 256, 70000])
        return i, i
    if cn == 'Real':
        x = rng.choice([0.0, 1.5, -2.25, 1e10])
        return x, x
    if cn == 'Null':
        return None, None
    if cn == 'BitString':
        v = rng.choice([(b'', 0), (b'\xa0', 3), (b'\x50', 4), (b'\xff\x80', 9)])
        return v, v
    if cn == 'OctetString':
        v = rng.choice([b'', b'\x01', b'\x01\x02\x03', b'\x00\xff\x10\x20'])
        return v, v
    if cn == 'ObjectIdentifier':
        return '1.2.840.1', '1.2.840.1'
    if cn == 'Enumerated':
        keys = sorted(t.value_to_data, key=str)
        if not keys:
            raise Unsupported('empty enumeration')
        k = rng.choice(keys)
        return k, t.value_to_data[k]
    if cn in ('Sequence', 'Set'):
        a, b = {}, {}
        for m in _flat(t.root_members) + _flat(t.additions):
            if (m.optional or m.default is not None) and rng.random() < 0.5:
                continue
            x, y = gen(m, rng, depth + 1)
            a[m.name], b[m.name] = x, y
        return a, b
    if cn in ('SequenceOf', 'SetOf'):
        xs = [gen(t.element_type, rng, depth + 1) for _ in range(rng.choice([0, 1, 2, 3]))]
        return [x for x, _ in xs], [y for _, y in xs]
    if cn == 'Choice':
        ms = _flat(t.members)
        if not ms:
            raise Unsupported('empty choice')
        m = rng.choice(ms)
        x, y = gen(m, rng, depth + 1)
        return (m.name, x), (m.name, y)
    if cn == 'NumericString':
        return '12 3', '12 3'
    if cn in ('UTF8String', 'BMPString', 'UniversalString', 'GeneralString', 'GraphicString', 'TeletexString', 'ObjectDescriptor'):
        return 'ab', 'ab'
    if cn in ('PrintableString', 'IA5String', 'VisibleString'):
        return 'Ab 1', 'Ab 1'
    if cn in ('UTCTime', 'GeneralizedTime'):
        d = datetime.datetime(2020, 1, 2, 3, 4, 5)
        return d, d
    if cn == 'ExplicitTag':
        return gen(t.inner, rng, depth + 1)
    if cn == 'Recursive':
        if t.inner is None or depth > 3:
            raise Unsupported('recursion')
        return gen(t.inner, rng, depth + 2)
    raise Unsupported(cn)


def probes(spec_ber, rng, per_type=2):
    """[(type name, value with names, value with numbers)] for every type of a BER-compiled specification"""
    out = []
    for name in sorted(spec_ber.types):
        for _ in range(per_type):
            try:
                a, b = gen(spec_ber.types[name].type, rng)
            except (Unsupported, RecursionError, AttributeError):
                continue
            out.append((name, a, b))
    return out
