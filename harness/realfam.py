"""REAL under DER (C03), outside the Lean universe: X.690 8.5 / 11.3 worked out independently — base 2, odd mantissa, scaling factor 0,
exponent in the fewest octets (two's complement), mantissa in the fewest octets; 0 has no contents, +/- infinity 40 / 41, NaN 42, -0 43."""
import math
from fractions import Fraction
from . import impl

MODULE = 'M DEFINITIONS AUTOMATIC TAGS ::= BEGIN\nR ::= REAL\nS ::= SEQUENCE { r REAL, t REAL OPTIONAL }\nL ::= SEQUENCE OF REAL\nEND\n'


def tc(n):
    """two's complement, fewest octets"""
    k = 1
    while not -(1 << (8 * k - 1)) <= n < (1 << (8 * k - 1)):
        k += 1
    return n.to_bytes(k, 'big', signed=True)


def contents(v):
    if v != v:
        return b'\x42'
    if v == math.inf:
        return b'\x40'
    if v == -math.inf:
        return b'\x41'
    if v == 0:
        return b'\x43' if math.copysign(1.0, v) < 0 else b''
    f = Fraction(abs(v))
    n, e = f.numerator, 0
    d = f.denominator                      # a power of two
    while d > 1:
        d >>= 1
        e -= 1
    while n % 2 == 0:
        n >>= 1
        e += 1
    eo = tc(e)
    first = 0x80 | (0x40 if v < 0 else 0)
    if len(eo) <= 3:
        head = bytes([first | (len(eo) - 1)]) + eo
    else:
        head = bytes([first | 3, len(eo)]) + eo
    return head + n.to_bytes((n.bit_length() + 7) // 8, 'big')


def tlv(tag, body):
    n = len(body)
    return tag + (bytes([n]) if n < 128 else bytes([0x80 | ((n.bit_length() + 7) // 8)]) + n.to_bytes((n.bit_length() + 7) // 8, 'big')) + body


def values(rng):
    vs = [0.0, 1.0, -1.0, 0.5, 0.1, 1.5, -2.25, 3.0, 1e10, 1e-300, 1.7976931348623157e308, 5e-324, 2.2250738585072014e-308, math.inf, -math.inf]
    for e in (-1074, -1023, -1022, -130, -129, -128, -127, -126, -1, 0, 1, 126, 127, 128, 129, 255, 256, 1022, 1023):
        for m in (1, 3, 5, (1 << 52) + 1):
            try:
                x = math.ldexp(float(m), e)
            except OverflowError:
                continue
            if x != 0 and x != math.inf:
                vs += [x, -x]
    for _ in range(40):
        vs.append(math.ldexp(rng.random() * rng.choice([1, -1]), rng.randint(-1070, 1020)))
    return vs


def run(sink, rng, n=1):
    st, spec = impl.compile_text(MODULE, 'der')
    if st != 'ok':
        sink.violation('der: the REAL module does not compile', {'module': MODULE, 'error': repr(spec)[:200]})
        return
    vs = values(rng)
    for v in vs:
        sink.case(('real', repr(v)))
        r = impl.encode(spec, 'R', v)
        want = tlv(b'\x09', contents(v))
        sink.count('real.%s' % (r[0] if r[0] == 'ok' else r[1]))
        if r[0] != 'ok' or r[1] != want:
            sink.violation('der: REAL is not encoded as X.690 8.5 / 11.3 prescribe (base 2, odd mantissa, fewest exponent and mantissa octets)',
                           {'value': repr(v), 'hex': float(v).hex() if v == v else 'nan', 'impl': r[1].hex() if r[0] == 'ok' else repr(r[1:]), 'x690': want.hex()})
    for _ in range(20 * n):
        a, b = rng.choice(vs), rng.choice(vs)
        for name, v, want in (('S', {'r': a, 't': b}, tlv(b'\x30', tlv(b'\x80', contents(a)) + tlv(b'\x81', contents(b)))),
                              ('L', [a, b], tlv(b'\x30', tlv(b'\x09', contents(a)) + tlv(b'\x09', contents(b))))):
            r = impl.encode(spec, name, v)
            sink.case(('real', name, repr(v)))
            if r[0] != 'ok' or r[1] != want:
                sink.violation('der: REAL components are not encoded as X.690 prescribes', {'type': name, 'value': repr(v), 'impl': r[1].hex() if r[0] == 'ok' else repr(r[1:]), 'x690': want.hex()})
