"""(library form of tools/compare_chelpers.py; the command line wrapper lives there)

C09/C10: differential test of the Lean model of the C HELPER LIBRARY (lean/Asn1Model/CCursor.lean,
lean/Asn1Model/CCursorOer.lean; driver op `cops`) against the helper text emitted by the REAL
asn1tools C generator.

    /venv/bin/python tools/compare_chelpers.py <seed> <nsequences> [uper|oer|both]
    /venv/bin/python tools/compare_chelpers.py ub             precondition-violating sequences: the
                                                              sanitizer build must report, the model must FAULT
    /venv/bin/python tools/compare_chelpers.py lendefect      end-to-end witness of the defect in the generation-time
                                                              `get_length_determinant_length` (C10 (d)): the REAL
                                                              generated C encoder writes a wrong open type length

In `oer` mode Python's real `asn1tools.source.c.oer.get_length_determinant_length` is also compared with the
model's `staticLenDetLen` (driver `cops (slen n)`) and with the true length of the length determinant.

How the tie to the real code is made:
  * C source is generated with `asn1tools.source.c.generate(...)` for a specification that uses every
    helper; the helper functions are `static`, so a `main` is appended to the generated translation unit.
    It is checked that every helper of `uper_functions.functions` / `oer_functions.functions` is present
    in the generated text (none is taken from anywhere else).
  * `main` reads one operation sequence per line, calls the helpers and prints the cursor state
    (`pos,size`) after every call, returned values, and the whole buffer at `result`.
  * it is compiled twice: `gcc -std=c99 -O2` and `clang -std=c99 -O1 -fsanitize=address,undefined
    -fno-sanitize-recover=all`; all buffers are exact-size `malloc`s so that ASan sees any overrun.
  * the same sequences go to the Lean driver (`cops`); all three outputs must be identical, the
    sanitizer build must print nothing on stderr and exit 0, the model must never answer `FAULT`.
Random sequences deliberately overflow the destination buffer / run out of input data (defined
behaviour: the error latch) but respect the argument preconditions of the safety theorem
(`Asn1.C09.EncOp.Pre`, `Asn1.C09.DecOp.Pre`: nbits <= 64 for the encoder, bit value 0/1, sizes equal to the real
object sizes).
"""
import os
import random
import shutil
import subprocess
import sys
import tempfile

ROOT = os.path.dirname(os.path.dirname(os.path.abspath(__file__)))
DRIVER = os.path.join(ROOT, 'lean', '.lake', 'build', 'bin', 'driver')

UPER_SPEC = '''
H DEFINITIONS AUTOMATIC TAGS ::= BEGIN
A ::= SEQUENCE {
  a INTEGER (-128..127),
  b INTEGER (-32768..32767),
  c INTEGER (-2147483648..2147483647),
  d INTEGER (-9223372036854775808..9223372036854775807),
  e INTEGER (0..255),
  f INTEGER (0..65535),
  g INTEGER (0..4294967295),
  h INTEGER (0..18446744073709551615),
  i BOOLEAN,
  j OCTET STRING (SIZE(0..300)),
  k ENUMERATED { x, y, z },
  l CHOICE { p BOOLEAN, q INTEGER (0..5) },
  n OCTET STRING (SIZE(3)),
  o INTEGER (0..100000)
}
END
'''

OER_SPEC = '''
H DEFINITIONS AUTOMATIC TAGS ::= BEGIN
A ::= SEQUENCE {
  a INTEGER (-128..127),
  b INTEGER (-32768..32767),
  c INTEGER (-2147483648..2147483647),
  d INTEGER (-9223372036854775808..9223372036854775807),
  e INTEGER (0..255),
  f INTEGER (0..65535),
  g INTEGER (0..4294967295),
  h INTEGER (0..18446744073709551615),
  i BOOLEAN,
  j OCTET STRING (SIZE(0..300)),
  k ENUMERATED { x, y, z },
  l CHOICE { p BOOLEAN, q INTEGER (0..5) },
  m SEQUENCE (SIZE(0..300)) OF BOOLEAN,
  n OCTET STRING (SIZE(3)),
  r REAL (WITH COMPONENTS { mantissa (-16777215..16777215), base (2), exponent (-149..104) }),
  s REAL (WITH COMPONENTS { mantissa (-9007199254740991..9007199254740991), base (2), exponent (-1074..971) }),
  t BIT STRING { x(0), y(40) } (SIZE(41)),
  ...,
  p BOOLEAN,
  q OCTET STRING (SIZE(0..100000))
}
C ::= ENUMERATED { a(-5), b(100000), ..., c }
E ::= CHOICE { a BOOLEAN, ..., b INTEGER (0..3) }
END
'''

MAIN_COMMON = r'''
#include <stdio.h>
#include <stdlib.h>
#include <inttypes.h>

#define MAXTOK 4096
static char line[1 << 16];
static char *tok[MAXTOK];
static int ntok;

static int hexval(int c)
{
    if (c >= '0' && c <= '9') return c - '0';
    if (c >= 'a' && c <= 'f') return c - 'a' + 10;
    return c - 'A' + 10;
}

/* exact-size heap object so that ASan sees every overrun */
static uint8_t *from_hex(const char *s, size_t *size_p)
{
    size_t n, i;
    uint8_t *p;
    if (s[0] == '-') { *size_p = 0; return malloc(0); }
    n = strlen(s) / 2;
    p = malloc(n);
    for (i = 0; i < n; i++) p[i] = (uint8_t)(hexval(s[2 * i]) * 16 + hexval(s[2 * i + 1]));
    *size_p = n;
    return p;
}

static void print_hex(const uint8_t *p, size_t n)
{
    size_t i;
    if (n == 0) { printf("-"); return; }
    for (i = 0; i < n; i++) printf("%02x", p[i]);
}

#define IS(s) (strcmp(tok[i], (s)) == 0)
#define ST(x) printf(" %ld,%ld", (long)(x).pos, (long)(x).size)

static void run_enc(void)
{
    struct encoder_t e;
    size_t size = (size_t)strtoull(tok[1], NULL, 10), n;
    uint8_t *buf = malloc(size), *src;
    int i = 2;
    memset(buf, 0x55, size);
    encoder_init(&e, buf, size);
    printf("%ld,%ld", (long)e.pos, (long)e.size);
    while (i < ntok) {
        if (IS("result")) { printf(" R%ld:", (long)encoder_get_result(&e)); print_hex(buf, size); i += 1; continue; }
        else if (IS("bytes")) { src = from_hex(tok[i + 1], &n); encoder_append_bytes(&e, src, n); free(src); i += 2; }
        else if (IS("bytesz")) { src = from_hex(tok[i + 1], &n); encoder_append_bytes(&e, src, (size_t)strtoull(tok[i + 2], NULL, 10)); free(src); i += 3; }
        else if (IS("u8")) { encoder_append_uint8(&e, (uint8_t)strtoull(tok[i + 1], NULL, 10)); i += 2; }
        else if (IS("u16")) { encoder_append_uint16(&e, (uint16_t)strtoull(tok[i + 1], NULL, 10)); i += 2; }
        else if (IS("u32")) { encoder_append_uint32(&e, (uint32_t)strtoull(tok[i + 1], NULL, 10)); i += 2; }
        else if (IS("u64")) { encoder_append_uint64(&e, (uint64_t)strtoull(tok[i + 1], NULL, 10)); i += 2; }
        else if (IS("i8")) { encoder_append_int8(&e, (int8_t)strtoll(tok[i + 1], NULL, 10)); i += 2; }
        else if (IS("i16")) { encoder_append_int16(&e, (int16_t)strtoll(tok[i + 1], NULL, 10)); i += 2; }
        else if (IS("i32")) { encoder_append_int32(&e, (int32_t)strtoll(tok[i + 1], NULL, 10)); i += 2; }
        else if (IS("i64")) { encoder_append_int64(&e, (int64_t)strtoll(tok[i + 1], NULL, 10)); i += 2; }
        else if (IS("bool")) { encoder_append_bool(&e, tok[i + 1][0] != '0'); i += 2; }
        else if (IS("abort")) { encoder_abort(&e, (ssize_t)strtoll(tok[i + 1], NULL, 10)); i += 2; }
        ENC_EXTRA
        else { printf(" bad-op:%s", tok[i]); break; }
        ST(e);
    }
    printf("\n");
    free(buf);
}

static void run_dec(void)
{
    struct decoder_t d;
    size_t size, n;
    uint8_t *buf = from_hex(tok[1], &size), *dst;
    int i = 2;
    decoder_init(&d, buf, size);
    printf("%ld,%ld", (long)d.pos, (long)d.size);
    while (i < ntok) {
        if (IS("result")) { printf(" R%ld", (long)decoder_get_result(&d)); i += 1; continue; }
        else if (IS("bytes")) { n = (size_t)strtoull(tok[i + 1], NULL, 10); dst = malloc(n); memset(dst, 0xaa, n);
                                decoder_read_bytes(&d, dst, n); printf(" "); print_hex(dst, n); printf(":"); free(dst); i += 2; }
        else if (IS("bytesz")) { n = (size_t)strtoull(tok[i + 1], NULL, 10); dst = malloc(n); memset(dst, 0xaa, n);
                                 decoder_read_bytes(&d, dst, (size_t)strtoull(tok[i + 2], NULL, 10)); printf(" "); print_hex(dst, n); printf(":"); free(dst); i += 3; }
        else if (IS("u8")) { unsigned v = decoder_read_uint8(&d); printf(" %u:", v); i += 1; }
        else if (IS("u16")) { unsigned v = decoder_read_uint16(&d); if (INDET(d)) printf(" ?:"); else printf(" %u:", v); i += 1; }
        else if (IS("u32")) { uint32_t v = decoder_read_uint32(&d); if (INDET(d)) printf(" ?:"); else printf(" %" PRIu32 ":", v); i += 1; }
        else if (IS("u64")) { uint64_t v = decoder_read_uint64(&d); if (INDET(d)) printf(" ?:"); else printf(" %" PRIu64 ":", v); i += 1; }
        else if (IS("i8")) { int v = decoder_read_int8(&d); printf(" %d:", v); i += 1; }
        else if (IS("i16")) { int v = decoder_read_int16(&d); if (INDET(d)) printf(" ?:"); else printf(" %d:", v); i += 1; }
        else if (IS("i32")) { int32_t v = decoder_read_int32(&d); if (INDET(d)) printf(" ?:"); else printf(" %" PRId32 ":", v); i += 1; }
        else if (IS("i64")) { int64_t v = decoder_read_int64(&d); if (INDET(d)) printf(" ?:"); else printf(" %" PRId64 ":", v); i += 1; }
        else if (IS("bool")) { int v = decoder_read_bool(&d); printf(" %d:", v); i += 1; }
        else if (IS("abort")) { decoder_abort(&d, (ssize_t)strtoll(tok[i + 1], NULL, 10)); printf(" _:"); i += 2; }
        DEC_EXTRA
        else { printf(" bad-op:%s", tok[i]); break; }
        printf("%ld,%ld", (long)d.pos, (long)d.size);
    }
    printf("\n");
    free(buf);
}

int main(void)
{
    char *p;
    while (fgets(line, sizeof(line), stdin) != NULL) {
        ntok = 0;
        for (p = strtok(line, " \n"); p != NULL && ntok < MAXTOK; p = strtok(NULL, " \n")) tok[ntok++] = p;
        if (ntok < 2) { printf("bad-line\n"); continue; }
        if (tok[0][1] == 'e') run_enc(); else run_dec();
        fflush(stdout);
    }
    return 0;
}
'''

UPER_ENC_EXTRA = r'''
        else if (IS("bit")) { encoder_append_bit(&e, (int)strtoll(tok[i + 1], NULL, 10)); i += 2; }
        else if (IS("nnbi")) { encoder_append_non_negative_binary_integer(&e, (uint64_t)strtoull(tok[i + 1], NULL, 10), (size_t)strtoull(tok[i + 2], NULL, 10)); i += 3; }
'''
UPER_DEC_EXTRA = r'''
        else if (IS("bit")) { int v = decoder_read_bit(&d); printf(" %d:", v); i += 1; }
        else if (IS("nnbi")) { uint64_t v = decoder_read_non_negative_binary_integer(&d, (size_t)strtoull(tok[i + 1], NULL, 10)); printf(" %" PRIu64 ":", v); i += 2; }
'''

OER_ENC_EXTRA = r'''
        else if (IS("uint")) { encoder_append_uint(&e, (uint32_t)strtoull(tok[i + 1], NULL, 10), (uint8_t)strtoull(tok[i + 2], NULL, 10)); i += 3; }
        else if (IS("int")) { encoder_append_int(&e, (int32_t)strtoll(tok[i + 1], NULL, 10), (uint8_t)strtoull(tok[i + 2], NULL, 10)); i += 3; }
        else if (IS("luint")) { encoder_append_long_uint(&e, (uint64_t)strtoull(tok[i + 1], NULL, 10), (uint8_t)strtoull(tok[i + 2], NULL, 10)); i += 3; }
        else if (IS("lendet")) { encoder_append_length_determinant(&e, (uint32_t)strtoull(tok[i + 1], NULL, 10)); i += 2; }
        else if (IS("f32")) { uint32_t u = (uint32_t)strtoull(tok[i + 1], NULL, 10); float f; memcpy(&f, &u, 4); encoder_append_float(&e, f); i += 2; }
        else if (IS("f64")) { uint64_t u = (uint64_t)strtoull(tok[i + 1], NULL, 10); double f; memcpy(&f, &u, 8); encoder_append_double(&e, f); i += 2; }
        else if (IS("lendetlen")) { printf(" %u:", (unsigned)length_determinant_length((uint32_t)strtoull(tok[i + 1], NULL, 10))); i += 2; }
        else if (IS("minuintlen")) { printf(" %u:", (unsigned)minimum_uint_length((uint32_t)strtoull(tok[i + 1], NULL, 10))); i += 2; }
        else if (IS("enumlen")) { printf(" %u:", (unsigned)enumerated_value_length((int32_t)strtoll(tok[i + 1], NULL, 10))); i += 2; }
'''
OER_DEC_EXTRA = r'''
        else if (IS("uint")) { uint32_t v = decoder_read_uint(&d, (uint8_t)strtoull(tok[i + 1], NULL, 10)); printf(" %" PRIu32 ":", v); i += 2; }
        else if (IS("int")) { int32_t v = decoder_read_int(&d, (uint8_t)strtoull(tok[i + 1], NULL, 10)); printf(" %" PRId32 ":", v); i += 2; }
        else if (IS("luint")) { uint64_t v = decoder_read_long_uint(&d, (uint8_t)strtoull(tok[i + 1], NULL, 10)); printf(" %" PRIu64 ":", v); i += 2; }
        else if (IS("lendet")) { uint32_t v = decoder_read_length_determinant(&d); printf(" %" PRIu32 ":", v); i += 1; }
        else if (IS("tag")) { uint32_t v = decoder_read_tag(&d); printf(" %" PRIu32 ":", v); i += 1; }
        else if (IS("f32")) { float f = decoder_read_float(&d); uint32_t u; memcpy(&u, &f, 4); printf(" %" PRIu32 ":", u); i += 1; }
        else if (IS("f64")) { double f = decoder_read_double(&d); uint64_t u; memcpy(&u, &f, 8); printf(" %" PRIu64 ":", u); i += 1; }
'''


def generate_c(codec, workdir):
    """C translation unit = REAL generated source + test main.  Returns path of the .c file."""
    import asn1tools
    from asn1tools.source import c as cgen
    from asn1tools.source.c import uper_functions, oer_functions
    spec = UPER_SPEC if codec == 'uper' else OER_SPEC
    spec_path = os.path.join(workdir, codec + '_h.asn')
    with open(spec_path, 'w') as f:
        f.write(spec)
    compiled = asn1tools.compile_files([spec_path], codec)
    header, source, _, _ = cgen.generate(compiled, codec, 'h', 'h.h', 'h.c', 'h_fuzzer.c')
    functions = (uper_functions if codec == 'uper' else oer_functions).functions
    missing = [pattern for pattern, definition in functions if definition.strip() not in source]
    if missing:
        raise SystemExit('helpers not emitted by the generator for the test specification: %s' % missing)
    hdir = os.path.join(workdir, codec)
    os.makedirs(hdir, exist_ok=True)
    with open(os.path.join(hdir, 'h.h'), 'w') as f:
        f.write(header)
    main = MAIN_COMMON
    if codec == 'uper':
        main = main.replace('ENC_EXTRA', UPER_ENC_EXTRA).replace('DEC_EXTRA', UPER_DEC_EXTRA)
        main = '#define INDET(d) ((d).size < 0)\n' + main
    else:
        main = main.replace('ENC_EXTRA', OER_ENC_EXTRA).replace('DEC_EXTRA', OER_DEC_EXTRA)
        main = '#define INDET(d) (0)\n' + main
    path = os.path.join(hdir, 'h_main.c')
    with open(path, 'w') as f:
        f.write(source + '\n' + main)
    return path, len(functions)


def build(codec, workdir):
    path, nfun = generate_c(codec, workdir)
    hdir = os.path.dirname(path)
    gcc = os.path.join(hdir, 'main_gcc')
    san = os.path.join(hdir, 'main_san')
    subprocess.run(['gcc', '-std=c99', '-O2', '-Wall', '-Wno-unused-function', '-D_POSIX_C_SOURCE=200809L',
                    '-I', hdir, path, '-o', gcc], check=True)
    subprocess.run(['clang', '-std=c99', '-O1', '-g', '-D_POSIX_C_SOURCE=200809L', '-Wno-unused-function',
                    '-fsanitize=address,undefined', '-fno-sanitize-recover=all', '-fno-omit-frame-pointer',
                    '-I', hdir, path, '-o', san], check=True)
    return gcc, san, nfun


# --------------------------------------------------------------------------- sequences
def rnd_uint(rng, bits):
    r = rng.random()
    top = 2 ** bits
    if r < 0.25:
        return rng.choice([0, 1, top - 1, top - 2, top // 2, top // 2 - 1, top // 2 + 1, 0x55 % top, 0xaa % top])
    if r < 0.5:
        return rng.randrange(2 ** rng.randrange(1, bits + 1))
    return rng.randrange(top)


def rnd_int(rng, bits):
    return rnd_uint(rng, bits) - 2 ** (bits - 1)


def rnd_hex(rng, n):
    if n == 0:
        return '-'
    return ''.join('%02x' % rng.choice([0, 0xff, 0x80, 0x01, rng.randrange(256), rng.randrange(256)]) for _ in range(n))


def uper_enc_seq(rng):
    size = rng.choice([0, 1, 2, 3, 4, 5, 8, 9, 12, 16, 24, 32, 48, 64, 64])
    ops = []
    for _ in range(rng.randrange(0, 14)):
        k = rng.choice(['bit', 'bit', 'bool', 'bytes', 'bytes', 'u8', 'u16', 'u32', 'u64', 'i8', 'i16', 'i32', 'i64',
                        'nnbi', 'nnbi', 'nnbi', 'result', 'abort'])
        if k == 'bit':
            ops.append(['bit', rng.randrange(2)])
        elif k == 'bool':
            ops.append(['bool', rng.randrange(2)])
        elif k == 'bytes':
            ops.append(['bytes', rnd_hex(rng, rng.choice([0, 1, 1, 2, 3, 5, 9]))])
        elif k[0] == 'u':
            ops.append([k, rnd_uint(rng, int(k[1:]))])
        elif k[0] == 'i':
            ops.append([k, rnd_int(rng, int(k[1:]))])
        elif k == 'nnbi':
            ops.append(['nnbi', rnd_uint(rng, 64), rng.choice([0, 1, 2, 3, 7, 8, 9, 16, 17, 31, 32, 33, 63, 64, rng.randrange(65)])])
        elif k == 'abort':
            if rng.random() < 0.25:
                ops.append(['abort', rng.choice([12, 22, 500, 501, 502, 503])])
        else:
            ops.append(['result'])
    ops.append(['result'])
    return ['uenc', size] + ops


def uper_dec_seq(rng):
    data = rnd_hex(rng, rng.choice([0, 1, 2, 3, 4, 5, 8, 9, 12, 16, 24, 32, 48, 64]))
    ops = []
    for _ in range(rng.randrange(0, 14)):
        k = rng.choice(['bit', 'bit', 'bool', 'bytes', 'bytes', 'u8', 'u16', 'u32', 'u64', 'i8', 'i16', 'i32', 'i64',
                        'nnbi', 'nnbi', 'nnbi', 'result', 'abort'])
        if k == 'bytes':
            ops.append(['bytes', rng.choice([0, 1, 1, 2, 3, 5, 9])])
        elif k == 'nnbi':
            ops.append(['nnbi', rng.choice([0, 1, 2, 3, 7, 8, 9, 16, 17, 31, 32, 33, 63, 64, 65, 80, rng.randrange(65)])])
        elif k == 'abort':
            if rng.random() < 0.25:
                ops.append(['abort', rng.choice([12, 22, 500, 501, 502, 503])])
        else:
            ops.append([k])
    ops.append(['result'])
    return ['udec', data] + ops


def oer_enc_seq(rng):
    size = rng.choice([0, 1, 2, 3, 4, 5, 8, 9, 12, 16, 24, 32, 48, 64, 64])
    ops = []
    for _ in range(rng.randrange(0, 10)):
        k = rng.choice(['bool', 'bytes', 'bytes', 'u8', 'u16', 'u32', 'u64', 'i8', 'i16', 'i32', 'i64',
                        'uint', 'int', 'luint', 'lendet', 'lendet', 'f32', 'f64', 'lendetlen', 'minuintlen', 'enumlen',
                        'result', 'abort'])
        if k == 'bool':
            ops.append(['bool', rng.randrange(2)])
        elif k == 'bytes':
            ops.append(['bytes', rnd_hex(rng, rng.choice([0, 1, 1, 2, 3, 5, 9]))])
        elif k in ('u8', 'u16', 'u32', 'u64'):
            ops.append([k, rnd_uint(rng, int(k[1:]))])
        elif k in ('i8', 'i16', 'i32', 'i64'):
            ops.append([k, rnd_int(rng, int(k[1:]))])
        elif k == 'uint':
            ops.append(['uint', rnd_uint(rng, 32), rng.choice([1, 2, 3, 4, 4, 0, 5, 255])])
        elif k == 'int':
            ops.append(['int', rnd_int(rng, 32), rng.choice([1, 2, 3, 4, 4, 0, 5, 255])])
        elif k == 'luint':
            ops.append(['luint', rnd_uint(rng, 64), rng.randrange(0, 9)])
        elif k in ('lendet', 'lendetlen', 'minuintlen'):
            ops.append([k, rng.choice([0, 1, 127, 128, 255, 256, 65535, 65536, 1677725, 1677726, 16777215, 16777216,
                                       2 ** 32 - 1, rnd_uint(rng, 32)])])
        elif k == 'enumlen':
            ops.append([k, rng.choice([0, 127, 128, -1, -128, -129, 32767, 32768, -32768, -32769, 8388607, 8388608,
                                       -8388608, -8388609, rnd_int(rng, 32)])])
        elif k == 'f32':
            ops.append(['f32', rnd_uint(rng, 32)])
        elif k == 'f64':
            ops.append(['f64', rnd_uint(rng, 64)])
        elif k == 'abort':
            if rng.random() < 0.25:
                ops.append(['abort', rng.choice([12, 22, 500, 501, 502, 503])])
        else:
            ops.append(['result'])
    ops.append(['result'])
    return ['oenc', size] + ops


def oer_dec_seq(rng):
    n = rng.choice([0, 1, 2, 3, 4, 5, 8, 9, 12, 16, 24, 32, 48, 64])
    if n == 0:
        data = '-'
    else:
        data = ''.join('%02x' % rng.choice([0, 0xff, 0x80, 0x81, 0x82, 0x83, 0x84, 0x85, 0x3f, 0x7f, 0xbf, 0x01,
                                             rng.randrange(256), rng.randrange(256)]) for _ in range(n))
    ops = []
    for _ in range(rng.randrange(0, 10)):
        k = rng.choice(['bool', 'bytes', 'bytes', 'u8', 'u16', 'u32', 'u64', 'i8', 'i16', 'i32', 'i64',
                        'uint', 'int', 'luint', 'lendet', 'lendet', 'tag', 'tag', 'f32', 'f64', 'result', 'abort'])
        if k == 'bytes':
            ops.append(['bytes', rng.choice([0, 1, 1, 2, 3, 5, 9])])
        elif k in ('uint', 'int'):
            ops.append([k, rng.choice([1, 2, 3, 4, 4, 0, 5, 255])])
        elif k == 'luint':
            ops.append([k, rng.choice([0, 1, 2, 3, 4, 5, 6, 7, 8, 9, 12, 255])])
        elif k == 'abort':
            if rng.random() < 0.25:
                ops.append(['abort', rng.choice([12, 22, 500, 501, 502, 503])])
        else:
            ops.append([k])
    ops.append(['result'])
    return ['odec', data] + ops


def flat(seq):
    out = []
    for x in seq:
        if isinstance(x, list):
            out.extend(str(y) for y in x)
        else:
            out.append(str(x))
    return ' '.join(out)


def sx(x):
    if isinstance(x, (list, tuple)):
        return '(' + ' '.join(sx(e) for e in x) + ')'
    return str(x)


def run_binary(path, seqs):
    env = dict(os.environ, ASAN_OPTIONS='detect_leaks=1:abort_on_error=0', UBSAN_OPTIONS='print_stacktrace=1')
    p = subprocess.run([path], input=''.join(flat(s) + '\n' for s in seqs), stdout=subprocess.PIPE,
                       stderr=subprocess.PIPE, text=True, errors='replace', env=env, timeout=3600)
    return p.returncode, p.stdout.split('\n')[:-1], p.stderr


def run_model(seqs):
    p = subprocess.run([DRIVER], input=''.join('cops\t' + sx(s) + '\n' for s in seqs), stdout=subprocess.PIPE,
                       stderr=subprocess.PIPE, text=True, errors='replace', timeout=3600)
    return p.stdout.split('\n')[:-1]


def compare(codec, seed, n, workdir, verbose=True):
    """returns (number of problems, stats, details) — details: list of dicts (kind = 'mismatch' | 'sanitizer' | 'count')"""
    rng = random.Random('%s-%s' % (codec, seed))
    gcc, san, nfun = build(codec, workdir)
    gens = (uper_enc_seq, uper_dec_seq) if codec == 'uper' else (oer_enc_seq, oer_dec_seq)
    seqs = [gens[i % 2](rng) for i in range(n)]
    rc_g, out_g, err_g = run_binary(gcc, seqs)
    rc_s, out_s, err_s = run_binary(san, seqs)
    out_m = run_model(seqs)
    bad = 0
    details = []
    if rc_g != 0 or rc_s != 0 or err_s.strip() or err_g.strip():
        if verbose:
            print('%s: binaries failed: gcc rc=%s san rc=%s\n%s\n%s' % (codec, rc_g, rc_s, err_g[-2000:], err_s[-4000:]))
        # the sequence on which the sanitizer build stopped = the first one without an answer
        k = len(out_s)
        details.append({'kind': 'sanitizer', 'codec': codec, 'gcc_rc': rc_g, 'san_rc': rc_s, 'stderr': (err_s or err_g)[-3000:],
                        'sequence': flat(seqs[k]) if k < len(seqs) else None})
        bad += 1
    if not (len(out_g) == len(out_s) == len(out_m) == len(seqs)):
        if verbose:
            print('%s: answer counts differ: gcc=%d san=%d model=%d sequences=%d' % (codec, len(out_g), len(out_s), len(out_m), len(seqs)))
        details.append({'kind': 'count', 'codec': codec, 'gcc': len(out_g), 'san': len(out_s), 'model': len(out_m), 'sequences': len(seqs)})
        return bad + 1, {}, details
    stats = {'sequences': len(seqs), 'ops': sum(len(s) - 2 for s in seqs), 'latched': 0, 'faults': 0, 'helpers': nfun}
    for s, g, a, m in zip(seqs, out_g, out_s, out_m):
        if 'FAULT' in m:
            stats['faults'] += 1
        if ',-' in m:
            stats['latched'] += 1
        if not (g == a == m):
            bad += 1
            if len(details) < 10:
                details.append({'kind': 'mismatch', 'codec': codec, 'sequence': flat(s), 'gcc': g, 'san': a, 'model': m})
            if bad <= 10 and verbose:
                print('MISMATCH %s\n  seq   %s\n  gcc   %s\n  san   %s\n  model %s' % (codec, flat(s), g, a, m))
    return bad, stats, details


UB_CASES = [
    # (codec, sequence, what the C standard says)
    ('uper', ['uenc', 4, ['nnbi', 1, 65]], 'value >> 64 on a 64 bit operand'),
    ('uper', ['uenc', 4, ['bit', -1]], 'left shift of a negative int'),
    ('uper', ['uenc', 4, ['bit', 2147483647]], 'left shift overflows int'),
    ('uper', ['uenc', 4, ['bit', 1], ['bytesz', '0102', 2305843009213693951]], '8u * size wraps: memcpy of 2^61-1 bytes'),
    ('uper', ['uenc', 4, ['bytesz', '01', 3]], 'source object shorter than size'),
    ('uper', ['udec', '01020304', ['bit'], ['bytesz', 2, 2305843009213693951]], '8u * size wraps in decoder_read_bytes'),
    ('uper', ['udec', '01020304', ['bytesz', 1, 3]], 'destination object shorter than size'),
    ('oer', ['oenc', 16, ['luint', 1, 9]], 'number_of_bytes > 8: writes buf[8] of uint8_t buf[8], reads past &value'),
    ('oer', ['oenc', 16, ['luint', 72623859790382856, 255]], 'number_of_bytes = 255: writes buf[254]'),
    ('oer', ['oenc', 4, ['bytesz', '01', 3]], 'source object shorter than size'),
    ('oer', ['oenc', 4, ['u8', 1], ['bytesz', '0102', 9223372036854775807]], 'pos + (ssize_t)size overflows ssize_t'),
    ('oer', ['oenc', 4, ['bytesz', '01', 18446744073709551615]], '(ssize_t)size = -1 passes the check: memcpy of 2^64-1 bytes'),
    ('oer', ['oenc', 4, ['abort', -9223372036854775807 - 1]], '-error overflows ssize_t'),
    ('oer', ['odec', '01020304', ['bytesz', 1, 3]], 'destination object shorter than size'),
    ('oer', ['odec', '01', ['bytesz', 1, 3]], 'error state: memset(buf_p, 0, size) on a destination shorter than size'),
    ('oer', ['odec', '01020304', ['u8'], ['bytesz', 2, 9223372036854775807]], 'pos + (ssize_t)size overflows ssize_t'),
    ('oer', ['odec', '01020304', ['abort', -9223372036854775807 - 1]], '-error overflows ssize_t'),
]


def ub_mode(workdir, verbose=True):
    """returns (number of unconfirmed witnesses, rows)"""
    bad = 0
    built = {}
    rows = []
    for codec, seq, why in UB_CASES:
        if codec not in built:
            built[codec] = build(codec, workdir)
        gcc, san, _ = built[codec]
        rc, out, err = run_binary(san, [seq])
        m = run_model([seq])[0]
        reported = rc != 0 and ('runtime error' in err or 'AddressSanitizer' in err)
        ok = reported and 'FAULT' in m
        rows.append({'codec': codec, 'sequence': flat(seq), 'sanitizer_reports': reported, 'model': m.split(' ')[-1], 'why': why, 'ok': ok})
        if verbose:
            print('%s  %-60s sanitizer=%s model=%s   (%s)' % ('ok ' if ok else 'BAD', flat(seq), 'reports' if reported else 'silent',
                                                            m.split(' ')[-1], why))
        bad += 0 if ok else 1
    return bad, rows


def static_lendet_compare(seed, n, verbose=True):
    """Python's REAL generation-time `get_length_determinant_length` against the model's `staticLenDetLen`
    (driver `cops (slen n)`), and against the true length of the OER length determinant as produced by the
    Python OER codec (`asn1tools.codecs.oer.Encoder.append_length_determinant`)."""
    from asn1tools.source.c.oer import get_length_determinant_length
    from asn1tools.codecs import oer as oer_codec
    rng = random.Random('slen-%s' % seed)
    ns = set()
    for b in (0, 1, 127, 128, 255, 256, 65535, 65536, 1677725, 1677726, 1677727, 16777215, 16777216, 16777217,
              2 ** 31 - 1, 2 ** 31, 2 ** 32 - 2, 2 ** 32 - 1, 2 ** 32, 2 ** 40, 2 ** 64):
        ns.update(x for x in (b - 1, b, b + 1) if x >= 0)
    while len(ns) < n:
        ns.add(rnd_uint(rng, rng.choice([8, 16, 21, 24, 25, 32, 33])))
    ns = sorted(ns)
    p = subprocess.run([DRIVER], input=''.join('cops\t(slen %d)\n' % x for x in ns), stdout=subprocess.PIPE,
                       stderr=subprocess.PIPE, text=True, errors='replace', timeout=3600)
    out = p.stdout.split('\n')[:-1]
    bad = 0
    stats_mismatch = []
    if len(out) != len(ns):
        if verbose:
            print('slen: answer count %d != %d' % (len(out), len(ns)))
        return 1, {'model_mismatch': [('count', len(out), len(ns))]}
    wrong = []
    for x, m in zip(ns, out):
        py = get_length_determinant_length(x)
        if str(py) != m:
            bad += 1
            if bad <= 10 and verbose:
                print('MISMATCH slen %d: python %s model %s' % (x, py, m))
            stats_mismatch.append((x, py, m))
        if x < 2 ** 32:
            enc = oer_codec.Encoder()
            enc.append_length_determinant(x)
            if len(enc.as_bytearray()) != py:
                wrong.append(x)
    stats = {'values': len(ns), 'static_differs_from_real_encoding': len(wrong), 'model_mismatch': stats_mismatch[:10], 'wrong': wrong}
    if wrong:
        stats['smallest'] = min(wrong)
        stats['largest'] = max(wrong)
        if not all(1677726 <= x < 16777216 for x in wrong):
            stats['outside'] = [x for x in wrong if not 1677726 <= x < 16777216][:10]
            if verbose:
                print('slen: disagreement outside [1677726, 16777216): %s' % stats['outside'])
            bad += 1
    missed = [x for x in ns if 1677726 <= x < 16777216 and x not in wrong]
    if missed:
        stats['missed'] = missed[:10]
        if verbose:
            print('slen: expected disagreement not observed: %s' % missed[:10])
        bad += 1
    return bad, stats


LENDEFECT_SPEC = '''
D DEFINITIONS AUTOMATIC TAGS ::= BEGIN
A ::= SEQUENCE { a BOOLEAN, ..., b SEQUENCE { c BOOLEAN, ..., d OCTET STRING (SIZE(2000000)) } }
END
'''

LENDEFECT_MAIN = r'''
#include <stdio.h>
#include <stdlib.h>
#include <string.h>
#include "d.h"
int main(void)
{
    struct d_d_a_t *v = calloc(1, sizeof(*v));
    uint8_t *out = malloc(2100000);
    ssize_t n;
    v->a = true; v->is_b_addition_present = true; v->b.c = true; v->b.is_d_addition_present = true;
    memset(v->b.d.buf, 0x11, sizeof(v->b.d.buf));
    n = d_d_a_encode(out, 2100000, v);
    if (n < 0) return 1;
    fwrite(out, 1, (size_t)n, stdout);
    return 0;
}
'''


def lendefect_mode(workdir, verbose=True):
    """The open type length of addition `b` is computed at generation time with
    get_length_determinant_length(2000000) = 5 (true: 4), so the generated C encoder writes 2000010
    where X.696 (and the Python codec) have 2000009."""
    import asn1tools
    from asn1tools.source import c as cgen
    from asn1tools.source.c.oer import get_length_determinant_length
    hdir = os.path.join(workdir, 'lendefect')
    os.makedirs(hdir, exist_ok=True)
    spec_path = os.path.join(hdir, 'd.asn')
    with open(spec_path, 'w') as f:
        f.write(LENDEFECT_SPEC)
    compiled = asn1tools.compile_files([spec_path], 'oer')
    header, source, _, _ = cgen.generate(compiled, 'oer', 'd', 'd.h', 'd.c', 'd_fuzzer.c')
    for name, text in (('d.h', header), ('d.c', source), ('m.c', LENDEFECT_MAIN)):
        with open(os.path.join(hdir, name), 'w') as f:
            f.write(text)
    exe = os.path.join(hdir, 'm')
    subprocess.run(['gcc', '-std=c99', '-O1', '-I', hdir, os.path.join(hdir, 'd.c'), os.path.join(hdir, 'm.c'), '-o', exe],
                   check=True)
    c_bytes = subprocess.run([exe], stdout=subprocess.PIPE, check=True).stdout
    py_bytes = bytes(compiled.encode('A', {'a': True, 'b': {'c': True, 'd': b'\x11' * 2000000}}))
    emitted = [l.strip() for l in source.split('\n') if 'encoder_append_length_determinant(encoder_p, 20000' in l]
    differs = c_bytes != py_bytes
    first = next((i for i in range(min(len(c_bytes), len(py_bytes))) if c_bytes[i] != py_bytes[i]), None)
    result = {'differs': differs, 'first_difference': first, 'c_head': c_bytes[:12].hex(), 'python_head': py_bytes[:12].hex(), 'emitted': emitted,
              'static': get_length_determinant_length(2000000)}
    if not verbose:
        return (0 if differs else 1), result
    print('static get_length_determinant_length(2000000) = %d' % get_length_determinant_length(2000000))
    print('generated C: %s' % ' | '.join(emitted))
    print('python codec: %d bytes, starts %s' % (len(py_bytes), py_bytes[:12].hex()))
    print('generated C : %d bytes, starts %s' % (len(c_bytes), c_bytes[:12].hex()))
    print('DEFECT CONFIRMED: encodings differ at byte %s (open type length %d vs %d)'
          % (first, int.from_bytes(c_bytes[6:9], 'big'), int.from_bytes(py_bytes[6:9], 'big')) if differs
          else 'encodings equal: defect NOT reproduced')
    return (0 if differs else 1), result


def main(argv=None):
    argv = sys.argv if argv is None else argv
    if not os.path.exists(DRIVER):
        raise SystemExit('driver not built: cd lean && lake build driver')
    workdir = tempfile.mkdtemp(prefix='chelpers_')
    try:
        if len(argv) >= 2 and argv[1] == 'lendefect':
            return lendefect_mode(workdir)[0]
        if len(argv) >= 2 and argv[1] == 'ub':
            bad, _ = ub_mode(workdir)
            print('ub witnesses: %d not confirmed' % bad)
            return 1 if bad else 0
        seed = argv[1] if len(argv) > 1 else '0'
        n = int(argv[2]) if len(argv) > 2 else 2000
        which = argv[3] if len(argv) > 3 else 'both'
        total_bad = 0
        for codec in (['uper', 'oer'] if which == 'both' else [which]):
            bad, stats, _ = compare(codec, seed, n, workdir)
            total_bad += bad
            print('%s: %s mismatches=%d' % (codec, ' '.join('%s=%s' % kv for kv in sorted(stats.items())), bad))
            if codec == 'oer':
                bad, stats = static_lendet_compare(seed, max(n, 200))
                total_bad += bad
                stats = {k: v for k, v in stats.items() if k not in ('wrong', 'model_mismatch')}
                print('slen (python get_length_determinant_length vs model staticLenDetLen): %s mismatches=%d'
                      % (' '.join('%s=%s' % kv for kv in sorted(stats.items())), bad))
        print('RESULT %s' % ('OK' if total_bad == 0 else 'FAIL'))
        return 1 if total_bad else 0
    finally:
        shutil.rmtree(workdir, ignore_errors=True)
