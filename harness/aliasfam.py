"""Scripted family "one referenced type, one member name, several uses" (C13, C19).

The compiler caches compiled types by (module, type name, member name) and attaches OPTIONAL / DEFAULT / SIZE / tags to
(copies of) the cached object, so members that share a name and a referenced type are where one use can leak into another, and
where the ORDER in which the assignments are compiled can matter.  The family writes, with random choices,

    Key ::= <string type>                       -- OCTET STRING or a known-multiplier / UTF8 string, possibly with its own SIZE
    <T1> ::= SEQUENCE { key Key <use 1>, ... }  -- uses: (SIZE(n)) | (SIZE(a..b)) | OPTIONAL | DEFAULT v | [n] | plain
    <T2> ::= SEQUENCE { key Key <use 2>, ... }
    <T3> ::= ...

under type names whose alphabetical order (the order `pformat` gives a parsed dictionary) differs from the order in the text,
with and without AUTOMATIC TAGS.  `build` returns the text, the same types with `Key` written inline at every use, the text
with the assignments sorted, and probe values (gen AST + value) for every type."""
from .gen import Gen, Opts, type_text, default_text

NAME_SETS = [('Zeta', 'Alpha', 'Mid'), ('Beta', 'Alpha', 'Gamma'), ('T2', 'T1', 'T3'), ('Alpha', 'Beta', 'Gamma'), ('Req', 'Ind', 'Cnf')]


def size_txt(sz):
    lo, hi = sz
    return '(SIZE (%d))' % lo if lo == hi else '(SIZE (%d..%d))' % (lo, hi)


def build(rng):
    g = Gen(rng, Opts(allow_exotic=0.0))
    kind = rng.choice(['octs', 'octs', 'IA5String', 'VisibleString', 'NumericString', 'PrintableString', 'UTF8String', 'bits', 'int', 'int'])
    if kind == 'int':
        return build_int(rng, g)
    if kind == 'octs':
        base = {'k': 'octs', 'size': None}
    elif kind == 'bits':
        base = {'k': 'bits', 'size': None}
    else:
        base = {'k': 'str', 'kind': kind, 'size': None}
    base_size = None
    if rng.random() < 0.25:
        base_size = (0, rng.choice([8, 16, 40]))
    names = list(rng.choice(NAME_SETS))
    ntypes = rng.choice([2, 2, 3])
    names = names[:ntypes]
    auto = rng.random() < 0.25
    uses = []
    kinds = ['size-fixed', 'opt', 'size-range', 'default', 'plain', 'tag']
    first = rng.sample(['size-fixed', 'size-range', 'size-fixed'], 1) + rng.sample(['opt', 'default', 'tag', 'plain', 'opt'], 1)
    rng.shuffle(first)
    for i in range(ntypes):
        uses.append(first[i] if i < 2 else rng.choice(kinds))
    types_ast, texts, inline_texts = [], [], []
    for name, use in zip(names, uses):
        t = dict(base)
        t['size'] = base_size + (False,) if base_size else None
        opt, default, tag, stxt = False, None, '', ''
        if use == 'size-fixed':
            n = rng.choice([1, 2, 3, 4, 8])
            t['size'] = (n, n, False)
            stxt = ' ' + size_txt((n, n))
        elif use == 'size-range':
            lo = rng.choice([0, 1, 2])
            hi = lo + rng.choice([1, 2, 5])
            t['size'] = (lo, hi, False)
            stxt = ' ' + size_txt((lo, hi))
        elif use == 'opt':
            opt = True
        elif use == 'default' and kind == 'NumericString':
            opt = True          # a number-like cstring DEFAULT is the recorded finding C01-numeric-cstring-default: not this family's business
        elif use == 'default':
            default = g.value(t, for_default=True)
        elif use == 'tag' and not auto:
            tag = '[%d] ' % rng.choice([0, 1, 5])
        others = []
        if rng.random() < 0.7:
            others.append(('n', {'k': 'int', 'lo': 0, 'hi': 255, 'ext': False, 'con': True}, 'INTEGER (0..255)'))
        if rng.random() < 0.5:
            others.append(('b', {'k': 'bool'}, 'BOOLEAN'))
        key_first = rng.random() < 0.7 or not others
        m_key = {'name': 'key', 't': t, 'opt': opt, 'default': default}
        ms = [m_key] if key_first else []
        ms += [{'name': n_, 't': t_, 'opt': False, 'default': None} for n_, t_, _ in others]
        if not key_first:
            ms.append(m_key)
        ast_t = {'k': 'seq', 'root': ms, 'ext': None}
        qual = ' OPTIONAL' if opt else (' DEFAULT ' + default_text(t, default) if default is not None else '')
        base_txt = type_text(dict(base, size=base_size + (False,) if base_size else None), 1)
        key_ref = 'key %sKey%s%s' % (tag, stxt, qual)
        key_inl = 'key %s%s%s%s' % (tag, type_text(dict(base, size=None), 1) if stxt else base_txt, stxt, qual)
        oth = ['%s %s' % (n_, tx) for n_, _, tx in others]
        body_ref = ', '.join(([key_ref] if key_first else []) + oth + ([] if key_first else [key_ref]))
        body_inl = ', '.join(([key_inl] if key_first else []) + oth + ([] if key_first else [key_inl]))
        texts.append('%s ::= SEQUENCE { %s }' % (name, body_ref))
        inline_texts.append('%s ::= SEQUENCE { %s }' % (name, body_inl))
        types_ast.append((name, ast_t))
    base_txt = type_text(dict(base, size=base_size + (False,) if base_size else None), 1)
    head = 'M DEFINITIONS %s::= BEGIN\n' % ('AUTOMATIC TAGS ' if auto else '')
    key_pos = rng.choice(['first', 'last'])
    key_line = 'Key ::= %s' % base_txt
    lines = ([key_line] if key_pos == 'first' else []) + texts + ([key_line] if key_pos == 'last' else [])
    text = head + '\n'.join(lines) + '\nEND\n'
    sorted_text = head + '\n'.join(sorted(lines)) + '\nEND\n'
    inline = head + '\n'.join(inline_texts) + '\nEND\n'
    probes = []
    for name, ast_t in types_ast:
        key_t = [m for m in ast_t['root'] if m['name'] == 'key'][0]
        lens = {0, 1, 2, 3, 4, 5, 8, 9}
        for _ in range(3):
            probes.append((name, ast_t, g.value(ast_t)))
        for ln in sorted(lens)[:rng.randint(3, 8)]:
            v = g.value(ast_t)
            kt = key_t['t']
            if kt['k'] == 'octs':
                v['key'] = bytes(range(ln))
            elif kt['k'] == 'bits':
                v['key'] = (bytes([0xa5] * ((ln + 7) // 8)), ln)
                if ln % 8:
                    v['key'] = (v['key'][0][:-1] + bytes([(0xa5 >> (8 - ln % 8)) << (8 - ln % 8)]), ln)
            else:
                v['key'] = ('1' * ln) if kt['kind'] == 'NumericString' else ('a' * ln)
            probes.append((name, ast_t, v))
    return {'text': text, 'sorted': sorted_text, 'inline': inline, 'probes': probes, 'uses': uses, 'auto': auto, 'base_kind': kind}


def build_int(rng, g):
    """the same family for a referenced INTEGER type: value ranges at the point of use (`level Level (0..10)`)"""
    names = list(rng.choice(NAME_SETS))[:rng.choice([2, 3, 3])]
    auto = rng.random() < 0.25
    base_rng = rng.choice([None, None, (0, 255), (-128, 127), (0, 65535)])
    lo0, hi0 = base_rng if base_rng else (-1000, 1000)
    uses = rng.sample(['range', 'range'], 1) + rng.sample(['opt', 'plain', 'default', 'range', 'tag'], 1)
    rng.shuffle(uses)
    while len(uses) < len(names):
        uses.append(rng.choice(['range', 'opt', 'plain', 'default']))
    types_ast, texts, inline_texts = [], [], []
    base_txt = 'INTEGER' + (' (%d..%d)' % base_rng if base_rng else '')
    for name, use in zip(names, uses):
        t = {'k': 'int', 'lo': base_rng[0] if base_rng else None, 'hi': base_rng[1] if base_rng else None, 'ext': False, 'con': bool(base_rng)}
        opt, default, tag, ctxt = False, None, '', ''
        if use == 'range':
            a = rng.randint(lo0, hi0 - 1)
            b = rng.randint(a, min(hi0, a + rng.choice([0, 1, 10, 100, 255, 256])))
            t = dict(t, lo=a, hi=b, con=True)
            ctxt = ' (%d..%d)' % (a, b)
        elif use == 'opt':
            opt = True
        elif use == 'default':
            default = rng.randint(lo0, hi0)
        elif use == 'tag' and not auto:
            tag = '[%d] ' % rng.choice([0, 1, 5])
        # (no other INTEGER component: next to an OPTIONAL / DEFAULT `key` it would be ambiguous without tags)
        others = [('o', {'k': 'octs', 'size': (0, 2, False)}, 'OCTET STRING (SIZE(0..2))')] if rng.random() < 0.6 else []
        if rng.random() < 0.5:
            others.append(('b', {'k': 'bool'}, 'BOOLEAN'))
        m_key = {'name': 'key', 't': t, 'opt': opt, 'default': default}
        key_first = rng.random() < 0.6 or not others
        ms = ([m_key] if key_first else []) + [{'name': n_, 't': t_, 'opt': False, 'default': None} for n_, t_, _ in others] + ([] if key_first else [m_key])
        qual = ' OPTIONAL' if opt else (' DEFAULT %d' % default if default is not None else '')
        key_ref = 'key %sKey%s%s' % (tag, ctxt, qual)
        key_inl = 'key %s%s%s%s' % (tag, 'INTEGER' if ctxt else base_txt, ctxt, qual)
        oth = ['%s %s' % (n_, tx) for n_, _, tx in others]
        texts.append('%s ::= SEQUENCE { %s }' % (name, ', '.join(([key_ref] if key_first else []) + oth + ([] if key_first else [key_ref]))))
        inline_texts.append('%s ::= SEQUENCE { %s }' % (name, ', '.join(([key_inl] if key_first else []) + oth + ([] if key_first else [key_inl]))))
        types_ast.append((name, {'k': 'seq', 'root': ms, 'ext': None}))
    head = 'M DEFINITIONS %s::= BEGIN\n' % ('AUTOMATIC TAGS ' if auto else '')
    key_line = 'Key ::= %s' % base_txt
    lines = ([key_line] if rng.random() < 0.5 else []) + texts
    if key_line not in lines:
        lines.append(key_line)
    text = head + '\n'.join(lines) + '\nEND\n'
    sorted_text = head + '\n'.join(sorted(lines)) + '\nEND\n'
    inline = head + '\n'.join(inline_texts) + '\nEND\n'
    probes = []
    for name, ast_t in types_ast:
        kt = [m for m in ast_t['root'] if m['name'] == 'key'][0]['t']
        cands = {lo0, hi0, 0, 1, -1, 255, 256}
        if kt['lo'] is not None:
            cands |= {kt['lo'] - 1, kt['lo'], kt['lo'] + 1, kt['hi'] - 1, kt['hi'], kt['hi'] + 1, (kt['lo'] + kt['hi']) // 2}
        for other_name, other in types_ast:
            ot = [m for m in other['root'] if m['name'] == 'key'][0]['t']
            if ot['lo'] is not None:
                cands |= {ot['lo'], ot['hi'], (ot['lo'] + ot['hi']) // 2}
        for kv in sorted(cands)[:14]:
            v = g.value(ast_t)
            v['key'] = kv
            probes.append((name, ast_t, v))
        probes.append((name, ast_t, g.value(ast_t)))
    return {'text': text, 'sorted': sorted_text, 'inline': inline, 'probes': probes, 'uses': uses, 'auto': auto, 'base_kind': 'int'}


def size_on_reference_honoured(codec, kind):
    """does `Ref (SIZE(..))` at a member change the encoding rule the same way as an inline SIZE? (recorded finding otherwise)"""
    if codec in ('per', 'uper'):
        return kind in ('octs', 'IA5String', 'VisibleString', 'NumericString', 'PrintableString')
    if codec == 'oer':
        return kind == 'octs'
    if codec == 'jer':
        return kind != 'bits'           # a fixed-size BIT STRING is a plain hex string in JER, otherwise an object with a length
    return True


def outcome(spec, name, v, codec, impl):
    r = impl.encode(spec, name, v)
    if r[0] != 'ok':
        return ('err', r[1])
    d = impl.decode(spec, name, r[1]) if codec != 'gser' else ('n/a', None)
    return ('ok', r[1], repr(d[1]) if d[0] == 'ok' else d[1])


def run_c19(sink, rng, n, impl, codecs):
    """the text, the text with its assignments sorted, and the text with `Key` written inline must behave identically"""
    for i in range(n):
        fam = build(rng)
        for codec in codecs:
            specs = {}
            for arr in ('text', 'sorted', 'inline'):
                st, sp = impl.compile_text(fam[arr], codec)
                specs[arr] = sp if st == 'ok' else None
                if st != 'ok':
                    sink.count('aliasfam.compile.%s' % st)
            if None in specs.values():
                if len({v is None for v in specs.values()}) > 1:
                    sink.violation('%s: one arrangement of a specification compiles and another does not' % codec,
                                   {'codec': codec, 'arrangements': {k: fam[k] for k in specs}, 'compiled': {k: v is not None for k, v in specs.items()}})
                continue
            for name, ast_t, v in fam['probes']:
                outs = {arr: outcome(sp, name, v, codec, impl) for arr, sp in specs.items()}
                sink.case((fam['text'], name, repr(v), codec))
                sink.count('aliasfam.%s.%s' % (codec, outs['inline'][0]))
                if outs['text'] == outs['sorted'] != outs['inline'] and not size_on_reference_honoured(codec, fam['base_kind']) \
                        and any(u.startswith('size') for u in fam['uses']):
                    sink.known_finding('C19-constraint-on-reference-ignored', '%s ignores a SIZE constraint applied to a type reference of this kind '
                                       '(set_size_range is implemented only by some types), so the reference and the inline copy encode differently' % codec)
                    continue
                if len(set(outs.values())) > 1:
                    sink.violation('%s: bytes / decoded values of a type depend on how the specification is organised (order of the assignments, reference vs inline copy)' % codec,
                                   {'codec': codec, 'type': name, 'value': repr(v), 'uses_of_key': fam['uses'],
                                    'arrangements': {k: fam[k] for k in specs}, 'outcomes': {k: repr(o)[:300] for k, o in outs.items()}})


def in_size(t, v):
    if t['k'] == 'int':
        return (t['lo'] is None or v >= t['lo']) and (t['hi'] is None or v <= t['hi'])
    sz = t.get('size')
    if not sz:
        return True
    n = v[1] if t['k'] == 'bits' else len(v)
    return sz[0] <= n and (sz[1] is None or n <= sz[1])


def text_safe(v):
    """every character string inside v is representable in JSON and XML 1.0 documents without loss (C02's domain)"""
    if isinstance(v, str):
        return all(0x20 <= ord(c) < 0x7f or 0xa0 <= ord(c) < 0xd800 for c in v)
    if isinstance(v, dict):
        return all(text_safe(x) for x in v.values())
    if isinstance(v, (list, tuple)):
        return all(text_safe(x) for x in v)
    return True


def run_c01(sink, rng, n, impl, codecs, py_equal, only_text_safe=False):
    """round trip of every value that satisfies the constraints written at ITS OWN member (a constraint of a same-named member
    of another type must not leak in through the compiled-type cache)"""
    for i in range(n):
        fam = build(rng)
        for codec in codecs:
            st, spec = impl.compile_text(fam['text'], codec)
            if st != 'ok':
                sink.count('aliasfam.compile.%s' % st)
                continue
            for name, ast_t, v in fam['probes']:
                key_t = [m for m in ast_t['root'] if m['name'] == 'key'][0]['t']
                if 'key' in v and not in_size(key_t, v['key']):
                    continue
                if only_text_safe and not text_safe(v):
                    continue
                sink.case((fam['text'], name, repr(v), codec))
                r = impl.encode(spec, name, v)
                sink.count('aliasfam.%s.enc.%s' % (codec, r[0] if r[0] == 'ok' else r[1].split(':')[0]))
                if r[0] != 'ok':
                    if r[1] == 'Timeout':
                        continue
                    sink.violation('%s: a value inside the constraints of its own type is rejected by the encoder (%s)' % (codec, r[1]),
                                   {'codec': codec, 'module': fam['text'], 'type': name, 'value': repr(v), 'error': r[2][:200]})
                    continue
                d = impl.decode(spec, name, r[1])
                if d[0] != 'ok' or not py_equal(ast_t, d[1], v):
                    sink.violation('%s: a value does not round-trip (members that share a name and a referenced type)' % codec,
                                   {'codec': codec, 'module': fam['text'], 'type': name, 'value': repr(v), 'encoded': r[1].hex(), 'decoded': repr(d[1:])[:300]})


def run_c12(sink, rng, n, impl, codecs):
    """one ill-formed component per value: the mandatory `key` missing, or ill-typed — EncodeError with the dotted path, for every
    use of the shared referenced type (a DEFAULT / OPTIONAL of a same-named member of ANOTHER type must not leak in)"""
    for i in range(n):
        fam = build(rng)
        seen = set()
        for name, ast_t, v in fam['probes']:
            if name in seen:
                continue
            seen.add(name)
            key_m = [m for m in ast_t['root'] if m['name'] == 'key'][0]
            wrong = [1.5, None, [], {}, (1,)] if key_m['t']['k'] == 'int' else [5, None, 1.5, [], {}]
            cases = [('wrong-python-type', dict(v, key=rng.choice(wrong)), name + '.key')]
            if not key_m['opt'] and key_m['default'] is None:
                nv = {k: x for k, x in v.items() if k != 'key'}
                cases.append(('missing-mandatory-member', nv, name))
            for kind, cv, expect in cases:
                if kind == 'wrong-python-type' and key_m['t']['k'] == 'bits' and cv['key'] is None and False:
                    continue
                for codec in codecs:
                    st, spec = impl.compile_text(fam['text'], codec)
                    if st != 'ok':
                        continue
                    sink.case((fam['text'], name, repr(cv), codec))
                    r = impl.encode(spec, name, cv, check_types=True, check_constraints=True)
                    cls = 'bytes' if r[0] == 'ok' else r[1]
                    sink.count('aliasfam.%s.%s' % (kind, cls.split(':')[0]))
                    bad = None
                    if cls not in ('EncodeError', 'ConstraintsError'):
                        bad = 'surfaces as %s instead of the library error' % cls if cls != 'bytes' else 'is encoded to bytes'
                    elif r[2].split(': ')[0] != expect:
                        bad = 'is reported at %r, expected path %r' % (r[2].split(': ')[0], expect)
                    if bad:
                        sink.violation('%s: %s component %s (members of different types share a name and a referenced type)' % (codec, kind, bad),
                                       {'codec': codec, 'module': fam['text'], 'type': name, 'value': repr(cv), 'kind': kind, 'impl': repr(r[1:3])[:300] if r[0] == 'err' else r[1].hex(),
                                        'expected_path': expect})


def run_c11(sink, rng, n, impl, codecs):
    """with check_constraints=True a value is rejected with ConstraintsError if and only if it violates the constraint written at ITS OWN
    member (value range / SIZE at the point of use of a shared referenced type), and nothing outside reaches the wire"""
    for i in range(n):
        fam = build(rng)
        for codec in codecs:
            st, spec = impl.compile_text(fam['text'], codec)
            if st != 'ok':
                sink.count('aliasfam.compile.%s' % st)
                continue
            for name, ast_t, v in fam['probes']:
                key_m = [m for m in ast_t['root'] if m['name'] == 'key'][0]
                if 'key' not in v:
                    continue
                inside = in_size(key_m['t'], v['key'])
                n_ok = all(m['name'] not in v or m['t']['k'] not in ('int', 'octs') or in_size(m['t'], v[m['name']]) for m in ast_t['root'])
                if not n_ok and inside:
                    continue
                sink.case((fam['text'], name, repr(v), codec, 'cc'))
                r = impl.encode(spec, name, v, check_constraints=True)
                cls = 'bytes' if r[0] == 'ok' else r[1]
                sink.count('aliasfam.c11.%s.%s' % ('inside' if inside else 'outside', cls.split(':')[0]))
                if inside and cls == 'ConstraintsError':
                    sink.violation('%s: a value inside the constraint written at its own member is rejected (constraint of a same-named member of another type?)' % codec,
                                   {'codec': codec, 'module': fam['text'], 'type': name, 'value': repr(v), 'error': r[2][:200]})
                elif not inside and cls == 'bytes':
                    sink.violation('%s: a value outside the constraint written at its own member reaches the wire with check_constraints=True' % codec,
                                   {'codec': codec, 'module': fam['text'], 'type': name, 'value': repr(v), 'encoded': r[1].hex() if isinstance(r[1], (bytes, bytearray)) else repr(r[1])[:200]})
