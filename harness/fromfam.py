"""Permitted-alphabet constraints `FROM (...)` (C11, C12) — outside the Lean universe, checked against an independent reading.

Modules  A ::= SEQUENCE { id <StringType> (FROM (<spec>)) [(SIZE (..))], n INTEGER (0..9) }  (also as a top-level type and as the
element of a SEQUENCE OF) where <spec> is a single string value, a single range, or a union of those — written with the features
real specifications have: a SPACE as first / last character of a value, the same character listed twice, overlapping ranges,
digits and letters, ranges of one character.  The permitted set is computed here from the pieces (X.680 51.7: the union of the
characters), values are built inside it (every boundary character, the space, each piece) and just outside it (the holes between
the pieces, the neighbours of every boundary)."""
from . import impl

CODECS = ['ber', 'der', 'per', 'uper', 'oer', 'jer', 'xer', 'gser']
BASE = {
    # (no backslash: asn1tools' grammar reads "\f", "\n", ... inside a character string value as escapes — pyparsing QuotedString —
    #  which ASN.1 does not have; noted in DESIGN.md §6.2, not this family's business)
    'IA5String': [chr(c) for c in range(32, 127) if c != 92],
    'VisibleString': [chr(c) for c in range(32, 127) if c != 92],
    'PrintableString': list("ABCDEFGHIJKLMNOPQRSTUVWXYZabcdefghijklmnopqrstuvwxyz0123456789 '()+,-./:=?"),
    'NumericString': list(' 0123456789'),
    'UTF8String': [chr(c) for c in range(32, 127) if c != 92],
}


def q(s):
    return '"' + s.replace('"', '""') + '"'


def build(rng):
    kind = rng.choice(list(BASE))
    base = sorted(BASE[kind])
    pieces, permitted = [], set()
    for _ in range(rng.choice([1, 1, 2, 3, 4])):
        if rng.random() < 0.5:
            i = rng.randrange(len(base))
            j = min(len(base) - 1, i + rng.choice([0, 1, 2, 5, 9, 25]))
            lo, hi = base[i], base[j]
            if '"' in (lo, hi):
                continue
            # a range is over the code points between its end points, of which only those of the base type count
            chars = [c for c in base if lo <= c <= hi]
            pieces.append('%s..%s' % (q(lo), q(hi)))
            permitted |= set(chars)
        else:
            k = rng.choice([1, 2, 3, 5])
            chars = [rng.choice(base) for _ in range(k)]
            x = rng.random()
            if x < 0.3 and ' ' in base:
                chars = [' '] + chars              # leading space
            elif x < 0.6 and ' ' in base:
                chars = chars + [' ']              # trailing space
            if rng.random() < 0.3:
                chars = chars + [chars[0]]         # a character listed twice
            chars = [c for c in chars if c != '"']
            if not chars:
                continue
            pieces.append(q(''.join(chars)))
            permitted |= set(chars)
    if not pieces:
        pieces, permitted = [q('ab ')], set('ab ')
    if rng.random() < 0.25 and pieces:
        pieces.append(pieces[0])                   # the same piece twice
    spec = ' | '.join(pieces)
    size = rng.choice(['', '', ' (SIZE (0..6))', ' (SIZE (1..4))'])
    smin, smax = (0, 6) if '0..6' in size else (1, 4) if '1..4' in size else (0, 12)
    shape = rng.choice(['member', 'member', 'top', 'element'])
    ty = '%s (FROM (%s))%s' % (kind, spec, size)
    if shape == 'member':
        text = 'M DEFINITIONS AUTOMATIC TAGS ::= BEGIN\nA ::= SEQUENCE { id %s, n INTEGER (0..9) }\nEND\n' % ty
        wrap = lambda s_: {'id': s_, 'n': 1}
        path = 'A.id'
    elif shape == 'top':
        text = 'M DEFINITIONS AUTOMATIC TAGS ::= BEGIN\nA ::= %s\nEND\n' % ty
        wrap = lambda s_: s_
        path = 'A'
    else:
        text = 'M DEFINITIONS AUTOMATIC TAGS ::= BEGIN\nA ::= SEQUENCE { items SEQUENCE OF %s, n INTEGER (0..9) }\nEND\n' % ty
        wrap = lambda s_: {'items': [s_], 'n': 1}
        path = 'A.items'
    inside_chars = sorted(permitted)
    outside = [c for c in base if c not in permitted]
    near = [c for c in outside if any(abs(ord(c) - ord(p)) == 1 for p in permitted)]
    values = []
    for _ in range(6):
        ln = rng.randint(max(smin, 1), smax)
        values.append((True, ''.join(rng.choice(inside_chars) for _ in range(ln))))
    for c in inside_chars[:12]:
        values.append((True, c * max(smin, 1)))
    if ' ' in permitted:
        values.append((True, ' ' * max(smin, 1)))
        values.append((True, (' ' + inside_chars[-1])[:smax]))
    for c in (near + outside)[:10]:
        body = ''.join(rng.choice(inside_chars) for _ in range(rng.randint(0, max(0, smax - 1))))
        pos = rng.randint(0, len(body))
        values.append((False, (body[:pos] + c + body[pos:])[:smax] if c in (body[:pos] + c + body[pos:])[:smax] else c))
    return {'text': text, 'wrap': wrap, 'path': path, 'values': values, 'kind': kind, 'permitted': ''.join(inside_chars), 'spec': spec}


def run(sink, prop, rng, n, codecs=CODECS):
    for i in range(n):
        fam = build(rng)
        for codec in codecs:
            st, spec = impl.compile_text(fam['text'], codec)
            if st != 'ok':
                sink.count('fromfam.compile.%s.%s' % (codec, st))
                continue
            for inside, sv in fam['values']:
                v = fam['wrap'](sv)
                sink.case((fam['text'], sv, codec))
                r = impl.encode(spec, 'A', v, check_constraints=True)
                cls = 'bytes' if r[0] == 'ok' else r[1]
                sink.count('fromfam.%s.%s' % ('inside' if inside else 'outside', cls.split(':')[0]))
                info = {'codec': codec, 'module': fam['text'], 'value': repr(v), 'permitted_characters': fam['permitted'],
                        'result': (r[1].hex() if isinstance(r[1], (bytes, bytearray)) and codec not in ('jer', 'xer', 'gser') else repr(r[1:3])[:300])}
                if inside and cls == 'ConstraintsError':
                    sink.violation('%s: a value inside the declared permitted alphabet is rejected' % codec, info)
                elif inside and cls != 'bytes' and not (codec in ('xer', 'jer') and cls.startswith('Foreign')):
                    sink.violation('%s: a value inside the declared permitted alphabet cannot be encoded (%s)' % (codec, cls), info)
                elif not inside and cls == 'bytes':
                    sink.violation('%s: a value with a character outside the declared permitted alphabet reaches the wire with check_constraints=True' % codec, info)
                elif not inside and prop == 'C12':
                    if cls not in ('ConstraintsError', 'EncodeError'):
                        sink.violation('%s: an out-of-alphabet character surfaces as %s instead of the library error' % (codec, cls), info)
                    elif r[2].split(': ')[0] != fam['path']:
                        sink.violation('%s: an out-of-alphabet character is reported at %r, expected path %r' % (codec, r[2].split(': ')[0], fam['path']), info)
                if inside and cls == 'bytes' and codec != 'gser':
                    d = impl.decode(spec, 'A', r[1], check_constraints=True)
                    if d[0] != 'ok' or d[1] != v:
                        sink.violation('%s: a value inside the declared permitted alphabet does not decode back with check_constraints=True' % codec,
                                       dict(info, decoded=repr(d[1:])[:300]))
