"""Tie between the Lean model of the parser dictionary and its in-place rewrite
(lean/Asn1Model/SpecDict.lean, `Preprocess.run`, driver ops `prep` / `prepseq`) and the real code
(`asn1tools.compile_dict`, which rewrites the dictionary returned by `asn1tools.parse_string`).

usage: tools/compare_prep.py <seed> <nmodules>            generated specifications + repository fixtures
       compare_prep.py <seed> <nmodules> nofix      generated specifications only
       compare_prep.py fixtures [all]                fixtures only (`all`: also the sub-directories)
       compare_prep.py dump <file.asn>...            print the S-expression of parse_files(...)

For every specification text:
  d = parse_string(text);  s0 = dump(d)
  Compiler(copy(d), n).pre_process()                 one rewrite; dump must equal driver `prep n s0`   (n = False, True)
  compile_dict(d, 'ber', numeric_enums=n1)           (rewrites d three times: codec, type checker, constraints checker)
      dump(d)  must equal  driver `prepseq (n1 n1 n1) s0`
  compile_dict(d, codec2, numeric_enums=n2)          dump(d) must equal `prepseq (n1 n1 n1 n2 n2 n2) s0`
  compile_dict(d, codec3, numeric_enums=n3)          dump(d) must equal `prepseq (n1 n1 n1 n2 n2 n2 n3 n3 n3) s0`
  eval(pformat(d)) must dump to the same text.
Additionally counted (C13, not a model mismatch): whether the dictionary after the history equals the
dictionary after a single fresh rewrite with the last flag.
A compile that raises is still compared when `Compiler(copy, n).pre_process()` alone succeeds on a
fresh copy (the exception then comes from a later compile stage); otherwise the case is skipped
and counted as 'python raises in pre_process'."""
import copy
import glob
import os
import random
import sys
from collections import Counter
from pprint import pformat

sys.set_int_max_str_digits(0)
from . import core                                                  # noqa
from .gen import Gen, Opts, RefCtx, module_text                     # noqa

import asn1tools                                                    # noqa
from asn1tools.codecs import compiler as _compiler                 # noqa


# ------------------------------------------------------------------------------ dictionary -> S-expression
class NoFit(Exception):
    pass


_PLAIN = set(b'abcdefghijklmnopqrstuvwxyzABCDEFGHIJKLMNOPQRSTUVWXYZ0123456789_.&-')


def s_str(s):
    if not isinstance(s, str):
        raise NoFit('not a string: %r' % (s,))
    return "'" + ''.join(chr(b) if b in _PLAIN else '%%%02x' % b for b in s.encode('utf-8'))


def s_opt(s):
    return '-' if s is None else s_str(s)


def s_bool(b):
    return 'T' if b else 'F'


def s_hex(b):
    return 'x' + bytes(b).hex()


def s_default(v):
    if v is None:
        return 'none'
    if isinstance(v, bool):
        return '(b %s)' % s_bool(v)
    if isinstance(v, int):
        return '(i %d)' % v
    if isinstance(v, str):
        return '(s %s)' % s_str(v)
    if isinstance(v, list) and all(isinstance(x, str) for x in v):
        return '(l%s)' % ''.join(' ' + s_str(x) for x in v)
    if isinstance(v, (bytes, bytearray)):
        return '(y %s)' % s_hex(v)
    if isinstance(v, tuple) and len(v) == 2 and isinstance(v[0], (bytes, bytearray)) and isinstance(v[1], int) \
            and not isinstance(v[1], bool) and v[1] >= 0:
        return '(t %s %d)' % (s_hex(v[0]), v[1])
    return '(o %s)' % s_str(repr(v))


def s_tag(t):
    if t is None:
        return '-'
    if set(t) - {'number', 'class', 'kind'} or 'number' not in t:
        raise NoFit('tag keys %r' % sorted(t))
    n = t['number']
    if isinstance(n, bool) or not isinstance(n, (int, str)):
        raise NoFit('tag number %r' % (n,))
    return '(tag %s %s %s)' % (n if isinstance(n, int) else s_str(n), s_opt(t.get('class')), s_opt(t.get('kind')))


KNOWN = {'type', 'name', 'tag', 'optional', 'default', 'values', 'named-bits', 'members', 'element'}
UNFIT_KEYS = {'parameters', 'actual-parameters', 'module-name', 'components-of'}


def s_desc(d):
    if not isinstance(d, dict) or 'type' not in d:
        raise NoFit('descriptor %r' % (d,))
    bad = UNFIT_KEYS & set(d)
    if bad:
        raise NoFit('descriptor key %s (parameterization is not modelled)' % sorted(bad))
    if 'members' in d and 'element' in d:
        raise NoFit('members and element')
    vals = '-'
    if 'values' in d:
        items = []
        for it in d['values']:
            if it is None:
                items.append('...')
            else:
                k, v = it
                if isinstance(v, bool) or not isinstance(v, (int, str)):
                    raise NoFit('enumeration value %r' % (v,))
                items.append('(%s %s)' % (s_str(k), v if isinstance(v, int) else s_str(v)))
        vals = '(%s)' % ' '.join(items)
    nbits = '-'
    if 'named-bits' in d:
        nbits = '(%s)' % ' '.join('(%s %s)' % (s_str(k), s_str(v)) for k, v in d['named-bits'])
    extra = '(%s)' % ' '.join('(%s %s)' % (s_str(k), s_str(repr(d[k]))) for k in sorted(set(d) - KNOWN))
    if 'members' in d:
        body = '(members%s)' % ''.join(' ' + s_item(m) for m in d['members'])
    elif 'element' in d:
        body = '(element %s)' % s_desc(d['element'])
    else:
        body = 'leaf'
    opt = '-'
    if 'optional' in d:
        if not isinstance(d['optional'], bool):
            raise NoFit('optional %r' % (d['optional'],))
        opt = s_bool(d['optional'])
    return '(d %s %s %s %s %s %s %s %s %s)' % (
        s_str(d['type']), s_opt(d.get('name')), s_tag(d.get('tag')), opt,
        s_default(d['default']) if 'default' in d else '-', vals, nbits, extra, body)


def s_item(m):
    if m is None:
        return '...'
    if isinstance(m, list):
        return '(group%s)' % ''.join(' ' + s_desc(x) for x in m)
    if isinstance(m, dict) and set(m) == {'components-of'}:
        return '(compof %s)' % s_str(m['components-of'])
    return s_desc(m)


MODULE_KEYS = {'imports', 'types', 'values', 'object-classes', 'object-sets', 'extensibility-implied', 'tags'}


def s_spec(spec):
    out = []
    for name, m in spec.items():
        if set(m) - MODULE_KEYS:
            raise NoFit('module keys %r' % sorted(set(m) - MODULE_KEYS))
        if m.get('object-classes') or m.get('object-sets'):
            raise NoFit('information object classes / sets are not modelled')
        imps = ''.join(' (%s%s)' % (s_str(f), ''.join(' ' + s_str(x) for x in syms)) for f, syms in m['imports'].items())
        types = ''.join(' (%s %s)' % (s_str(n), s_desc(t)) for n, t in m['types'].items())
        vals = ''.join(' (%s %s)' % (s_str(n), s_str(repr(v))) for n, v in m['values'].items())
        out.append('(%s (imports%s) %s %s (types%s) (values%s))' % (
            s_str(name), imps, s_opt(m.get('tags')), s_bool(m['extensibility-implied']), types, vals))
    return '(%s)' % ' '.join(out)


# ------------------------------------------------------------------------------ generator of specifications
LEAVES = ['BOOLEAN', 'INTEGER', 'NULL', 'OCTET STRING', 'BIT STRING', 'IA5String', 'ENUM', 'NBITS', 'REAL',
          'INTEGER (0..255)', 'OCTET STRING (SIZE(1..4))', 'UTF8String']


class PGen:
    """Specifications that exercise exactly what the rewrite touches: several modules with different tag
    defaults and EXTENSIBILITY IMPLIED, IMPORTS (also chains through a re-exporting module), references,
    COMPONENTS OF (same module, other module, nested, with markers), explicit tags of all shapes, groups,
    DEFAULT values in every spelling (also reached through references)."""

    def __init__(self, rng):
        self.r = rng
        self.n = 0

    def fresh(self, p):
        self.n += 1
        return '%s%d' % (p, self.n)

    def enum_items(self):
        r = self.r
        n = r.randint(1, 5)
        vals = r.sample(range(0, 12), n)
        items = ['%s(%d)' % (self.fresh('e'), v) for v in vals]
        names = [i.split('(')[0] for i in items]
        if r.random() < 0.3:
            items.append('...')
            if r.random() < 0.7:
                nm = self.fresh('x')
                items.append('%s(%d)' % (nm, 20 + r.randint(0, 5)))
                names.append(nm)
        return items, names

    def nbits_items(self):
        r = self.r
        n = r.randint(1, 5)
        pos = r.sample(range(0, 20), n)
        names = [self.fresh('b') for _ in pos]
        return ['%s(%d)' % (a, p) for a, p in zip(names, pos)], names

    def leaf(self):
        """(text, kind, info)"""
        r = self.r
        k = r.choice(LEAVES)
        if k == 'ENUM':
            items, names = self.enum_items()
            return 'ENUMERATED { %s }' % ', '.join(items), 'ENUMERATED', names
        if k == 'NBITS':
            items, names = self.nbits_items()
            return 'BIT STRING { %s }' % ', '.join(items), 'BIT STRING', names
        return k, k.split(' (')[0], None

    def default_for(self, kind, info):
        r = self.r
        if kind == 'BOOLEAN':
            return r.choice(['TRUE', 'FALSE'])
        if kind == 'INTEGER':
            return str(r.randint(-5, 300))
        if kind == 'NULL':
            return 'NULL'
        if kind == 'REAL':
            return r.choice(['1.5', '0', '-2.0'])
        if kind in ('IA5String', 'UTF8String'):
            return '"%s"' % r.choice(['', 'abc', 'TRUE', '0b01', '0x41', 'a b'])
        if kind == 'ENUMERATED':
            return r.choice(info) if info else 'zz'
        if kind == 'OCTET STRING':
            x = r.random()
            if x < 0.5:
                return "'%s'H" % ''.join(r.choice('0123456789ABCDEF') for _ in range(r.randint(0, 7)))
            return "'%s'B" % ''.join(r.choice('01') for _ in range(r.randint(0, 19)))
        if kind == 'BIT STRING':
            x = r.random()
            if info and x < 0.4:
                return '{ %s }' % ', '.join(r.sample(info, r.randint(0, len(info))))
            if x < 0.7:
                return "'%s'B" % ''.join(r.choice('01') for _ in range(r.randint(0, 19)))
            return "'%s'H" % ''.join(r.choice('000123456789ABCDEF') for _ in range(r.randint(0, 7)))
        return None

    def tag_text(self):
        r = self.r
        x = r.random()
        cls = r.choice(['', '', '', 'APPLICATION ', 'PRIVATE ', 'UNIVERSAL '])
        num = r.randint(0, 40)
        kind = r.choice(['', '', ' IMPLICIT', ' EXPLICIT'])
        return '[%s%d]%s ' % (cls, num, kind)

    def spec(self):
        r = self.r
        nmod = r.choice([1, 1, 2, 2, 3])
        mods = ['M%d' % i for i in range(nmod)]
        # per module: list of (name, text); registry of named types: name -> (module, kind, info)
        reg = {}
        body = {m: [] for m in mods}
        exports = {m: [] for m in mods}

        def define(m, text, kind, info, prefix='T'):
            name = self.fresh(prefix)
            body[m].append((name, text))
            reg[name] = (m, kind, info)
            exports[m].append(name)
            return name

        used = {m: set() for m in mods}      # names a module must import

        def ref(m, name):
            if reg[name][0] != m:
                used[m].add(name)
            return name

        # leaf type assignments (reference targets), some of them references to references
        for m in mods:
            for _ in range(r.randint(1, 4)):
                text, kind, info = self.leaf()
                if r.random() < 0.2:
                    text = self.tag_text() + text
                define(m, text, kind, info)
        for m in mods:
            for _ in range(r.randint(0, 2)):
                tgt = r.choice(list(reg))
                _, kind, info = reg[tgt]
                text = ref(m, tgt)
                if r.random() < 0.2:
                    text = self.tag_text() + text
                define(m, text, kind, info)

        def type_use(m, depth):
            """(text, kind, info) of a type in member / element position"""
            x = r.random()
            if x < 0.35 and reg:
                name = r.choice(list(reg))
                _, kind, info = reg[name]
                return ref(m, name), kind, info
            if x < 0.5 and depth < 3:
                return composite(m, depth + 1)
            return self.leaf()

        def members(m, depth, kind):
            out = []
            n = r.randint(0, 5)
            state = 0            # 0 root, 1 additions, 2 second root
            for i in range(n):
                x = r.random()
                if x < 0.12 and state < 2 and (out or kind != 'CHOICE'):
                    out.append('...')
                    state += 1
                    continue
                if x < 0.2 and state == 1 and kind != 'CHOICE':
                    grp = [member(m, depth, kind) for _ in range(r.randint(1, 3))]
                    out.append('[[ %s ]]' % ', '.join(grp))
                    continue
                if x < 0.35 and kind != 'CHOICE' and depth == 0:
                    # (a COMPONENTS OF below the member list of a type assignment makes the real code raise KeyError)
                    cands = [nm for nm, (_, k, _) in reg.items() if k in ('SEQUENCE', 'SET')]
                    if cands:
                        out.append('COMPONENTS OF ' + ref(m, r.choice(cands)))
                        continue
                out.append(member(m, depth, kind))
            return out

        def member(m, depth, kind):
            text, k, info = type_use(m, depth)
            s = self.fresh('m') + ' '
            if r.random() < self.p_tag:
                s += self.tag_text()
            s += text
            if kind != 'CHOICE':
                x = r.random()
                if x < 0.25:
                    s += ' OPTIONAL'
                elif x < 0.7:
                    dv = self.default_for(k, info)
                    if dv is not None:
                        s += ' DEFAULT ' + dv
            return s

        def composite(m, depth):
            x = r.random()
            if x < 0.25:
                text, k, info = type_use(m, depth)
                et = self.tag_text() if r.random() < 0.15 else ''
                kw = r.choice(['SEQUENCE', 'SET'])
                sz = r.choice(['', '', ' (SIZE(1..3))'])
                return '%s%s OF %s%s' % (kw, sz, et, text), kw + ' OF', None
            kind = r.choice(['SEQUENCE', 'SEQUENCE', 'SET', 'CHOICE'])
            self.p_tag = r.choice([0.0, 0.0, 0.0, 0.15, 0.5, 1.0])
            ms = members(m, depth, kind)
            if kind == 'CHOICE' and (not ms or ms[0] == '...'):
                ms = [member(m, depth, kind)] + ms
            return '%s { %s }' % (kind, ', '.join(ms)), kind, None

        self.p_tag = 0.0
        for rounds in range(r.randint(1, 3)):
            for m in mods:
                for _ in range(r.randint(1, 3)):
                    text, kind, info = composite(m, 0)
                    if r.random() < 0.1:
                        text = self.tag_text() + text
                    define(m, text, kind, info, 'S')

        # imports: direct, or through a re-exporting module (A imports T from B, B imports T from C)
        imports = {m: {} for m in mods}
        for m in mods:
            for name in sorted(used[m]):
                home = reg[name][0]
                via = home
                others = [x for x in mods if x not in (m, home)]
                if others and r.random() < 0.25:
                    via = others[0]
                    imports[via].setdefault(home, set()).add(name)
                imports[m].setdefault(via, set()).add(name)
        texts = []
        order = list(mods)
        r.shuffle(order)
        for m in order:
            tags = r.choice(['AUTOMATIC TAGS', 'AUTOMATIC TAGS', 'IMPLICIT TAGS', 'EXPLICIT TAGS', ''])
            ext = ' EXTENSIBILITY IMPLIED' if r.random() < 0.25 else ''
            s = '%s DEFINITIONS %s%s ::= BEGIN\n' % (m, tags, ext)
            if imports[m]:
                s += 'IMPORTS ' + ' '.join('%s FROM %s' % (', '.join(sorted(v)), k) for k, v in imports[m].items()) + ';\n'
            ass = list(body[m])
            r.shuffle(ass)
            for name, text in ass:
                s += '%s ::= %s\n' % (name, text)
            s += 'END\n'
            texts.append(s)
        return '\n'.join(texts)


def harness_module(rng):
    g = Gen(rng, Opts(max_depth=3, allow_exotic=0.0, big_lengths=0.0,
                      kinds=['bool', 'null', 'int', 'enum', 'octs', 'bits', 'str', 'seq', 'seqof', 'choice', 'set', 'setof']))
    types = [('A', g.type()), ('B', g.type())]
    rc = RefCtx(rng, p_type=0.5, p_value=0.4, p_con_on_ref=0.3, con_kinds=('octs',))
    tags = rng.choice(['AUTOMATIC TAGS', 'AUTOMATIC TAGS', 'IMPLICIT TAGS', 'EXPLICIT TAGS', ''])
    return module_text(types, ctx=rc, tags=tags, split=rng.random() < 0.3, ext_implied=rng.random() < 0.2)


def mutate_dict(d, rng):
    """Hand-made dictionaries: a parsed dictionary with a few entries replaced by forms the parser never
    produces (already converted or foreign DEFAULT values, duplicate / referenced enumeration numbers,
    a dropped tag kind, a dropped module tag default).  Probes the model off the image of the parser."""
    descs = []

    def walk(t):
        if not isinstance(t, dict) or 'type' not in t:
            return
        descs.append(t)
        for m in t.get('members', []):
            if isinstance(m, list):
                for x in m:
                    walk(x)
            elif m is not None:
                walk(m)
        if 'element' in t:
            walk(t['element'])

    for m in d.values():
        for t in m['types'].values():
            walk(t)
    for _ in range(rng.randint(1, 3)):
        x = rng.random()
        if x < 0.55:
            c = [t for t in descs if 'default' in t]
            if c:
                t = rng.choice(c)
                t['default'] = rng.choice([True, False, 0, 1, 5, 'TRUE', 'FALSE', '0b101', '0x1f', '0b', '0x', b'\x01\x02',
                                           b'', (b'\xa0', 3), (b'', 0), [], None, 'e1', 'abc', 2.5, [1, 2]])
        elif x < 0.8:
            c = [t for t in descs if 'values' in t and len([v for v in t['values'] if v is not None]) >= 1]
            if c:
                t = rng.choice(c)
                vals = t['values']
                idx = [i for i, v in enumerate(vals) if v is not None]
                i = rng.choice(idx)
                y = rng.random()
                if y < 0.4:
                    j = rng.choice(idx)
                    vals[i] = (vals[i][0], vals[j][1])                 # duplicate number
                elif y < 0.7:
                    j = rng.choice(idx)
                    vals[i] = (vals[i][0], vals[j][0])                 # number = reference named like an item
                elif y < 0.85:
                    vals[i] = (vals[rng.choice(idx)][0], vals[i][1])   # duplicate name
                else:
                    vals[i] = (vals[i][0], rng.choice([0, 1]))
        elif x < 0.9:
            c = [t for t in descs if 'tag' in t and 'kind' in t['tag']]
            if c:
                del rng.choice(c)['tag']['kind']
        else:
            m = rng.choice(list(d.values()))
            m.pop('tags', None)
    return d


HAND = [
    ('default-value-reference-chain', """M DEFINITIONS AUTOMATIC TAGS ::= BEGIN
Level ::= INTEGER (0..255) Name ::= IA5String
normalLevel Level ::= factoryLevel factoryLevel Level ::= 5 greeting Name ::= "hello" hello Name ::= "world"
Cfg ::= SEQUENCE { lvl Level DEFAULT normalLevel, nm Name DEFAULT greeting, flag BOOLEAN DEFAULT TRUE, other Level DEFAULT factoryLevel } END"""),
    ('enum-value-reference-clash', 'M DEFINITIONS AUTOMATIC TAGS ::= BEGIN A ::= SEQUENCE { e ENUMERATED { a(b), b(1) } DEFAULT a } b INTEGER ::= 7 END'),
    ('components-of-name-capture', """M0 DEFINITIONS AUTOMATIC TAGS ::= BEGIN E ::= ENUMERATED { a(0), b(5) } S ::= SEQUENCE { m E DEFAULT b } END
M1 DEFINITIONS AUTOMATIC TAGS ::= BEGIN IMPORTS S FROM M0; E ::= ENUMERATED { c(5), d(7), e(8) } T ::= SEQUENCE { COMPONENTS OF S, x BOOLEAN } END"""),
    ('module-order-M0-M1', """M0 DEFINITIONS AUTOMATIC TAGS ::= BEGIN S ::= SEQUENCE { a INTEGER, b BOOLEAN } END
M1 DEFINITIONS AUTOMATIC TAGS ::= BEGIN IMPORTS S FROM M0; T ::= SEQUENCE { COMPONENTS OF S, c NULL OPTIONAL } END"""),
    ('module-order-M1-M0', """M1 DEFINITIONS AUTOMATIC TAGS ::= BEGIN IMPORTS S FROM M0; T ::= SEQUENCE { COMPONENTS OF S, c NULL OPTIONAL } END
M0 DEFINITIONS AUTOMATIC TAGS ::= BEGIN S ::= SEQUENCE { a INTEGER, b BOOLEAN } END"""),
    ('c13-example', """M DEFINITIONS AUTOMATIC TAGS ::= BEGIN
A ::= SEQUENCE { COMPONENTS OF B, flags BIT STRING { x(0), y(2) } DEFAULT { y }, mask BIT STRING DEFAULT '0101'B, ..., extra BOOLEAN DEFAULT TRUE }
B ::= SEQUENCE { id INTEGER, e ENUMERATED { a(0), b(5) } DEFAULT b, ..., later NULL } END"""),
    ('components-of-chain', """M DEFINITIONS AUTOMATIC TAGS ::= BEGIN
A ::= SEQUENCE { COMPONENTS OF B, a1 NULL } B ::= SEQUENCE { COMPONENTS OF C, b1 NULL, ..., b2 NULL } C ::= SET { c1 [3] NULL, COMPONENTS OF D } D ::= SEQUENCE { d1 BOOLEAN DEFAULT TRUE } END"""),
    ('import-chain', """A DEFINITIONS AUTOMATIC TAGS ::= BEGIN IMPORTS T FROM B; X ::= SEQUENCE { t [1] T DEFAULT '01'B, u T } END
B DEFINITIONS ::= BEGIN IMPORTS T FROM C; Y ::= CHOICE { y [0] T } END
C DEFINITIONS IMPLICIT TAGS ::= BEGIN T ::= BIT STRING { z(1) } END"""),
]


# ------------------------------------------------------------------------------ comparison
CODECS = ['ber', 'der', 'per', 'uper', 'oer', 'jer', 'xer', 'gser']


def pre_process_ok(d, numeric):
    try:
        with core.time_limit(60):
            _compiler.Compiler(copy.deepcopy(d), numeric).pre_process()
        return True
    except RecursionError:
        return False
    except Exception:
        return False


def do_compile(d, codec, numeric):
    try:
        with core.time_limit(600):
            asn1tools.compile_dict(d, codec, numeric_enums=numeric)
        return 'ok'
    except Exception as e:
        return type(e).__name__


def plan_case(label, parse, rng, stats):
    """Runs the real code; returns (label, [(request line, expected answer, what)], info) or None."""
    try:
        d = parse()
    except Exception as e:
        stats['parse error ' + type(e).__name__] += 1
        return (label, None, 'parse error: %s %s' % (type(e).__name__, str(e)[:80]))
    try:
        s0 = s_spec(d)
    except NoFit as e:
        stats['does not fit the AST'] += 1
        return (label, None, str(e))
    if not pre_process_ok(d, False) or not pre_process_ok(d, True):
        stats['python raises in pre_process (skipped)'] += 1
        return (label, None, 'pre_process raises')
    fresh = {}
    for n in (False, True):
        c = copy.deepcopy(d)
        _compiler.Compiler(c, n).pre_process()
        fresh[n] = s_spec(c)
    # one rewrite: `Compiler(copy, n).pre_process()` against driver op `prep`
    reqs = [('prep\t%s\t%s' % (s_bool(n), s0), 'ok ' + fresh[n], 'Compiler(d, %s).pre_process() [prep]' % n) for n in (False, True)]
    flags = []
    hist = []
    rebased = False
    steps = [('ber', rng.random() < 0.4), (rng.choice(CODECS), rng.random() < 0.5), (rng.choice(CODECS), rng.random() < 0.5)]
    for k, (codec, numeric) in enumerate(steps):
        st = do_compile(d, codec, numeric)
        stats['compile_dict %s' % ('ok' if st == 'ok' else 'raises after pre_process')] += 1
        flags += [numeric] * 3
        hist.append('%s/%s' % (codec, s_bool(numeric)))
        try:
            now = s_spec(d)
        except NoFit as e:
            stats['rewritten dictionary does not fit'] += 1
            return (label, None, str(e))
        what = ' -> '.join(hist)
        reqs.append(('prepseq\t(%s)\t%s' % (' '.join(s_bool(f) for f in flags), s0), 'ok ' + now, what + ' [prepseq]'))
        if not rebased:
            stats['history step == fresh rewrite with the last flag' if now == fresh[numeric]
                  else 'history step != fresh rewrite (C13 finding)'] += 1
            if now != fresh[numeric]:
                stats.setdefault('_c13', []).append((label, what))
        if rng.random() < 0.3:
            # pformat sorts dictionary keys: the evaluated copy lists modules / assignments in sorted order,
            # so it is a new starting point for the model (and its fresh rewrites are recomputed)
            srt = rng.random() < 0.5
            d2 = eval(pformat(d, sort_dicts=srt))
            if d2 != d:
                stats['eval(pformat(d)) != d'] += 1
            if not srt and s_spec(d2) != now:
                stats['eval(pformat(d, sort_dicts=False)) dumps differently'] += 1
            d = d2
            s0 = s_spec(d)
            flags = []
            hist.append('eval(pformat%s)' % ('' if srt else ',unsorted'))
            if srt:
                # history independence is only claimed relative to this (re-ordered, already rewritten) dictionary
                for n in (False, True):
                    c = copy.deepcopy(d)
                    _compiler.Compiler(c, n).pre_process()
                    fresh[n] = s_spec(c)
                rebased = True
    return (label, reqs, None)


def run_cases(cases, rng, verbose=True):
    stats = Counter()
    planned = []
    for label, parse in cases:
        p = plan_case(label, parse, rng, stats)
        if p is not None:
            planned.append(p)
    lines = []
    index = []
    skipped = []
    for label, reqs, info in planned:
        if reqs is None:
            skipped.append((label, info))
            continue
        for line, expected, what in reqs:
            lines.append(line)
            index.append((label, expected, what))
    c13 = stats.pop('_c13', [])
    answers = core.Model().batch(lines, timeout=7200)
    mismatches = []
    bad_labels = set()
    for (label, expected, what), got, line in zip(index, answers, lines):
        stats['comparisons'] += 1
        if got == expected:
            stats['comparisons equal'] += 1
        else:
            stats['MISMATCH'] += 1
            bad_labels.add(label)
            mismatches.append((label, what, expected, got, line))
    stats['specifications compared'] = len({l for l, _, _ in index})
    stats['specifications with a mismatch'] = len(bad_labels)
    if verbose:
        for label, what, expected, got, line in mismatches[:5]:
            print('MISMATCH', label if len(label) < 3000 else label[:3000], '\n history', what)
            k = next((i for i, (a, b) in enumerate(zip(expected, got)) if a != b), min(len(expected), len(got)))
            print('  python:', expected[max(0, k - 300):k + 200])
            print('  model :', got[max(0, k - 300):k + 200])
    return stats, skipped, mismatches, c13


def fixture_cases(all_dirs=False):
    base = os.path.join(core.REPO, 'tests', 'files')
    files = sorted(glob.glob(os.path.join(base, '*.asn')))
    if all_dirs:
        files += sorted(f for f in glob.glob(os.path.join(base, '*', '*.asn')))
    cases = []
    for f in files:
        cases.append((os.path.relpath(f, base), (lambda f=f: asn1tools.parse_files([f]))))
    return cases


def report(title, stats, skipped, c13, show_skipped=True):
    print(title)
    for k in sorted(stats):
        print('  %-58s %d' % (k, stats[k]))
    if show_skipped:
        for label, info in skipped:
            print('  skipped %-40s %s' % (label[:40].replace('\n', ' '), info[:120]))
    for label, what in c13[:3]:
        print('  C13 finding witness:', what, '\n' + (label if len(label) < 1500 else label[:1500]))


def main(argv):
    if argv[1] == 'dump':
        print(s_spec(asn1tools.parse_files(argv[2:])))
        return 0
    if argv[1] == 'fixtures':
        rng = random.Random(1)
        stats, skipped, mm, c13 = run_cases(fixture_cases(len(argv) > 2 and argv[2] == 'all'), rng)
        report('fixtures', stats, skipped, c13)
        return 1 if mm else 0
    seed, n = int(argv[1]), int(argv[2])
    rng = random.Random(seed)
    rc = 0
    cases = []
    for label, text in HAND:
        cases.append((label + '\n' + text, (lambda text=text: asn1tools.parse_string(text))))
    for i in range(n):
        sub = random.Random(rng.getrandbits(32))
        if i % 2 == 0:
            text = PGen(sub).spec()
        else:
            text = harness_module(sub)
        if i % 5 == 4:
            # a hand-made dictionary (not in the image of the parser)
            cases.append(('MUTATED DICTIONARY of\n' + text,
                          (lambda text=text, sub=sub: mutate_dict(asn1tools.parse_string(text), sub))))
        else:
            cases.append((text, (lambda text=text: asn1tools.parse_string(text))))
    stats, skipped, mm, c13 = run_cases(cases, rng)
    why = Counter(info[:60] for _, info in skipped)
    report('generated specifications (seed %d, %d)' % (seed, n), stats, skipped, c13, show_skipped=False)
    for k, v in why.most_common(8):
        print('  skipped because: %-50s %d' % (k, v))
    rc |= 1 if mm else 0
    if len(argv) <= 3 or argv[3] != 'nofix':
        stats, skipped, mm, c13 = run_cases(fixture_cases(False), rng)
        report('fixtures /repo/tests/files/*.asn', stats, skipped, c13)
        rc |= 1 if mm else 0
    return rc


if __name__ == '__main__':
    sys.exit(main(sys.argv))
