"""Shared helpers for the binary-codec properties (C01, C03, C05, C06, C07, C16)."""
from . import core, impl
from .gen import Gen, Opts, module_text, ty_sx, val_sx, canon_py, features

MODELLED = ('uper', 'oer', 'per', 'der', 'ber')
RT_CODECS = ('uper', 'oer')   # codecs with a round-trip theorem whose hypotheses the driver evaluates (`rt`)


def walk(t, v, fn, path=()):
    """call fn(t, v, path) on every (sub)type/value pair of a well-shaped value"""
    fn(t, v, path)
    k = t['k']
    if v is None:
        return
    if k in ('seqof', 'setof'):
        for i, e in enumerate(v):
            walk(t['elem'], e, fn, path + (i,))
    elif k in ('seq', 'set'):
        for m in t['root'] + (t['ext'] or []):
            if m['name'] in v:
                walk(m['t'], v[m['name']], fn, path + (m['name'],))
    elif k == 'choice':
        for n, at in t['root'] + (t['ext'] or []):
            if n == v[0]:
                walk(at, v[1], fn, path + (n,))


def approx_octets(v):
    """rough lower bound of the encoded size of a value in octets"""
    if isinstance(v, (bytes, bytearray, str)):
        return len(v)
    if isinstance(v, tuple) and len(v) == 2 and isinstance(v[0], (bytes, bytearray)):
        return len(v[0])
    if isinstance(v, tuple) and len(v) == 2:
        return approx_octets(v[1])
    if isinstance(v, list):
        return len(v) // 8 + sum(approx_octets(e) for e in v)
    if isinstance(v, dict):
        return sum(approx_octets(e) for e in v.values())
    if isinstance(v, int) and not isinstance(v, bool):
        return v.bit_length() // 8
    return 0


def value_tags(t, v, codec):
    """Finding predicates over (type, value): names of the known-defect shapes this case touches."""
    tags = set()

    def visit(t, v, path):
        k = t['k']
        if k == 'int':
            open_ = t['lo'] is None or t['hi'] is None
            if t['ext'] and open_:
                tags.add('ext-open-range')
            if open_ and t['con'] and not t['ext']:
                tags.add('semi-constrained')
            inroot = (t['lo'] is None or v >= t['lo']) and (t['hi'] is None or v <= t['hi'])
            nbytes = (max(v, -v - 1).bit_length() // 8) + 1
            if nbytes >= 16384 and (open_ or not inroot):
                tags.add('unfragmented')
        if k in ('octs', 'bits', 'str', 'seqof', 'setof') and t['size']:
            lo, hi, ext = t['size']
            n = v[1] if k == 'bits' else len(v)
            if ext and hi is None:
                tags.add('ext-open-size')
            if ext and hi is not None and not (lo <= n <= hi):
                if k in ('str', 'bits'):
                    tags.add('size-extension-unimplemented')
                if n >= 16384:
                    tags.add('unfragmented')
        if k == 'str' and t['kind'] == 'UTF8String' and t['size'] and not t['size'][2] and t['size'][0] == t['size'][1]:
            if len(v.encode('utf-8')) != t['size'][0]:
                tags.add('oer-fixed-utf8')
        if k == 'choice' and t['ext'] and v[0] in [n for n, _ in t['ext']] and approx_octets(v[1]) >= 16000:
            tags.add('unfragmented')      # open type of an extension alternative >= 16K octets
        if k == 'seq' and t['ext']:
            for m in t['ext']:
                if not m['opt'] and m['default'] is None and m['name'] not in v:
                    tags.add('mandatory-addition-missing')
                if m['name'] in v and approx_octets(v[m['name']]) >= 16000:
                    tags.add('unfragmented')  # open type of an extension addition >= 16K octets
            if len(t['ext']) > 64:
                tags.add('many-additions')
    walk(t, v, visit)
    return tags


def encoded_tags(t, v, spec_codec, encoded_len):
    tags = set()
    return tags


def py_equal(t, a, b):
    """abstract-value equality of two Python values of type t (after canonicalisation)"""
    try:
        return canon_py(t, a) == canon_py(t, b)
    except Exception:
        return False


def impl_answer_enc(r):
    if r[0] == 'ok':
        return 'ok ' + (r[1].hex() or '-')
    return 'err ' + ('Foreign' if r[1].startswith('Foreign') else r[1])


def impl_answer_dec(t, r):
    if r[0] == 'ok':
        try:
            return 'ok ' + val_sx(t, r[1])
        except Exception:
            return 'ok ?? %r' % (r[1],)
    return 'err ' + ('Foreign' if r[1].startswith('Foreign') else r[1])
