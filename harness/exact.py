"""Byte-exactness against the standard (C03 / C05 / C06).

For every generated (module, value): the implementation's bytes are compared with
  S = the specification-level encoder written from the standard in Lean (`spec` op), and
  M = the code-level Lean model (`enc` op).
The Lean theorem `*_refines` states M = S whenever the list of deviation predicates `dev` is empty, so
  impl != S with dev = ()            -> VIOLATION (the failing input is the replay)
  impl != S with dev != () and impl == M -> KNOWN-FINDING <property>-<deviation name>
  impl != M while impl == S          -> correspondence broken (model wrong or code changed harmlessly)
and S's bytes are fed to the real decoder, which must return the value ("the decoder accepts exactly those")."""
from . import core, impl
from .codecs import py_equal, impl_answer_enc
from .gen import Gen, Opts, module_text, ty_sx, val_sx, features, is_modelled, RefCtx, variant, boundary_cases


def parse_spec_answer(a):
    """'ok <hex> dev=(a b)' / 'err <cls> dev=(..)' -> (kind, payload, [dev names])"""
    head, _, dev = a.partition(' dev=(')
    devs = [x for x in dev.rstrip(')').split(' ') if x]
    parts = head.split(' ')
    return parts[0], (parts[1] if len(parts) > 1 else ''), devs


def work(job):
    chunk, prop, codecs, option_devs = job
    part = core.Part()
    for (t, texts, vals, answers) in chunk:
      nontrivial = t['k'] not in ('bool', 'null')
      for label, text, tagfree_only in texts:
        for codec in codecs:
            if tagfree_only and codec not in ('uper', 'per'):
                continue
            st, spec = impl.compile_text(text, codec)
            if st != 'ok':
                part.count('compile.' + st)
                continue
            part.count('arrangement.' + label)
            for v, ans in zip(vals, answers):
                s_ans, m_ans = ans[codec]
                kind, payload, devs = parse_spec_answer(s_ans)
                part.case((text, repr(v), codec), nontrivial=nontrivial)
                r = impl.encode(spec, 'A', v)
                mine = impl_answer_enc(r)
                for dname in devs:
                    part.count('%s.dev.%s' % (codec, dname))
                spec_bytes = payload if kind == 'ok' else None
                if r[0] == 'ok' and spec_bytes is not None and (r[1].hex() or '-') == spec_bytes:
                    part.count(codec + '.exact')
                    if mine != m_ans and not m_ans.endswith('unmodelled'):
                        part.disagreement('corr.%s.encode' % codec, {'module': text, 'value': repr(v)[:300], 'impl': mine[:200], 'model': m_ans[:200]})
                    # decoder accepts exactly the standard's octets
                    d = impl.decode(spec, 'A', r[1])
                    if d[0] != 'ok' or not py_equal(t, d[1], v):
                        part.violation('%s: the decoder does not return the value from the standard encoding' % codec,
                                       {'codec': codec, 'module': text, 'value': repr(v), 'standard_bytes': spec_bytes, 'decoded': repr(d)[:300]})
                    else:
                        part.sample({'codec': codec, 'module': text, 'value': repr(v)[:200], 'impl': mine[:90], 'standard': s_ans[:110]})
                    continue
                # impl differs from the standard (or one of them refuses)
                if not devs:
                    if kind == 'err' and r[0] != 'ok':
                        part.count(codec + '.both-refuse')
                        continue
                    part.violation('%s: encoder output differs from the encoding the standard prescribes' % codec,
                                   {'codec': codec, 'module': text, 'value': repr(v), 'impl': mine[:400], 'standard': s_ans[:400], 'model_M': m_ans[:400]})
                else:
                    # a named deviation predicate (decided in Lean from the type and value) holds of this case: the
                    # difference is attributed to that finding.  (Where the deviation sits inside an extension addition
                    # the code models only approximate the code — they swallow every error there — so equality with M
                    # is not required.)
                    for dname in devs:
                        part.known_finding('%s-%s' % (prop, dname), '%s deviates from the standard (%s)' % (codec, dname))
                    if mine != m_ans and r[0] == 'ok' and not m_ans.endswith('unmodelled'):
                        part.count(codec + '.deviation-not-reproduced-by-M')
                # the real decoder must still accept the standard's octets whenever the standard defines them
                if spec_bytes is not None and not devs:
                    data = bytes.fromhex(spec_bytes) if spec_bytes != '-' else b''
                    d = impl.decode(spec, 'A', data)
                    if d[0] != 'ok' or not py_equal(t, d[1], v):
                        part.violation('%s: the decoder rejects / misreads the standard encoding' % codec,
                                       {'codec': codec, 'module': text, 'value': repr(v), 'standard_bytes': spec_bytes, 'decoded': repr(d)[:300]})
    return part


def run_exact(ctx, prop, codecs, spec_codec_name, option_devs=(), opts=None, nmods=(300, 6000), con_kinds=('octs',)):
    """spec_codec_name: codec -> name understood by the driver's `spec` op"""
    rng = ctx.rng
    opts = opts or Opts(big_lengths=0.02 if ctx.quick() else 0.06, max_depth=3 if ctx.quick() else 4)
    cases, reqs = [], []
    feat = {}
    for i in range(ctx.n(*nmods)):
        g = Gen(rng, opts)
        t = g.type()
        features(t, feat)
        sib = variant(g, t)
        plain = module_text([('A', t), ('B', sib)])
        texts = [('plain', plain, False)]
        rc = RefCtx(rng, p_type=0.4, p_value=0.3, p_con_on_ref=0.3, con_kinds=con_kinds)
        texts.append(('reorganised', module_text([('A', t), ('B', sib)], ctx=rc), False))
        if not any(k in plain for k in ('CHOICE', 'SET')):
            rc2 = RefCtx(rng, p_type=0.5, p_value=0.2, p_con_on_ref=0.4, con_kinds=con_kinds)
            # sibling first: a leaked constraint of B would then show up in A
            texts.append(('reorganised-untagged', module_text([('B', sib), ('A', t)], ctx=rc2, tags=''), True))
        vals = [g.value(t) for _ in range(4)]
        tsx = ty_sx(t)
        for v in vals:
            vsx = val_sx(t, v)
            for codec in codecs:
                reqs.append('spec\t%s\t%s\t%s' % (spec_codec_name[codec], tsx, vsx))
                reqs.append('enc\t%s\t%s\t%s' % (codec, tsx, vsx))
        cases.append((t, texts, vals))
    # deterministic-shape cases at the thresholds the codecs branch on (range widths up to 2^72, 7/8/9 .. 65 additions,
    # lengths around 127/128, 255/256, 16K), in addition to the random ones
    nb = 0
    for t, vals in boundary_cases(rng):
        if not is_modelled(t):
            continue
        features(t, feat)
        vals = vals[:8]
        tsx = ty_sx(t)
        for v in vals:
            vsx = val_sx(t, v)
            for codec in codecs:
                reqs.append('spec\t%s\t%s\t%s' % (spec_codec_name[codec], tsx, vsx))
                reqs.append('enc\t%s\t%s\t%s' % (codec, tsx, vsx))
        cases.append((t, [('boundary', module_text([('A', t)]), False)], vals))
        nb += 1
    ctx.count('boundary_case_types', nb)
    ctx.hist.update({'type.' + k: v for k, v in feat.items()})
    ans = ctx.model.batch(reqs)
    it = iter(ans)
    full = []
    for (t, texts, vals) in cases:
        per_val = []
        for v in vals:
            d = {}
            for codec in codecs:
                d[codec] = (next(it), next(it))
            per_val.append(d)
        full.append((t, texts, vals, per_val))
    n = 28
    jobs = [(full[k::n], prop, codecs, tuple(option_devs)) for k in range(n)]
    parts = core.parallel_map(work, jobs)
    core.merge(ctx, parts)
