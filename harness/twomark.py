"""SEQUENCE / SET with TWO extension markers and root components after the second one (X.680 25.1:
`{ root1, ..., additions, ..., root2 }`) — a shape the generator and the Lean universe do not have (C01, C05, C06, C07).

  * C07: V2 = V1 with more additions at the insertion point (between the markers).  V1 must read V2's encodings as the V1 projection
    and V2 must read V1's encodings as the same value, for per, uper, oer, jer, xer.  (BER / DER under AUTOMATIC TAGS: asn1tools numbers
    the components in textual order instead of root first, X.680 25.7, so the tags of root2 move when additions are added: recorded
    finding C07-automatic-tags-trailing-root.)
  * C05 / C06: for PER, UPER and OER the components of root2 are ordinary root components (X.691 19.6 / X.696 16): the encoding is
    that of `{ root1, root2, ..., additions }`, octet for octet, and each spelling's decoder reads the other's octets.
  * C01 / C02: round trip inside one version."""
from . import impl

LEAVES = [
    ('INTEGER (0..255)', lambda r: r.choice([0, 1, 200, 255])),
    ('INTEGER', lambda r: r.choice([0, -1, 127, 128, -129, 70000])),
    ('BOOLEAN', lambda r: r.random() < 0.5),
    ('OCTET STRING', lambda r: bytes(r.randrange(256) for _ in range(r.choice([0, 1, 3, 17])))),
    ('IA5String', lambda r: ''.join(r.choice('abcXYZ 09') for _ in range(r.choice([0, 1, 5])))),
    ('NULL', lambda r: None),
    ('ENUMERATED { e0, e1, e2 }', lambda r: r.choice(['e0', 'e1', 'e2'])),
    ('SEQUENCE OF INTEGER (0..7)', lambda r: [r.randint(0, 7) for _ in range(r.choice([0, 1, 4]))]),
    ('SEQUENCE { p INTEGER (0..3), q BOOLEAN OPTIONAL }', lambda r: dict([('p', r.randint(0, 3))] + ([('q', True)] if r.random() < 0.5 else []))),
    ('BIT STRING (SIZE (5))', lambda r: (bytes([r.choice([0x00, 0xa8, 0xf8])]), 5)),
]


def comp(rng, name, p_opt):
    text, gen = rng.choice(LEAVES)
    return {'name': name, 'text': text, 'gen': gen, 'opt': rng.random() < p_opt}


def render(kind, r1, adds, r2, trailing=True):
    def c(x):
        return '%s %s%s' % (x['name'], x['text'], ' OPTIONAL' if x['opt'] else '')
    parts = [c(x) for x in r1]
    if trailing:
        parts += ['...'] + [c(x) for x in adds] + ['...'] + [c(x) for x in r2]
    else:
        parts += [c(x) for x in r2] + ['...'] + [c(x) for x in adds]
    return 'M DEFINITIONS AUTOMATIC TAGS ::= BEGIN\nS ::= %s { %s }\nEND\n' % (kind, ', '.join(parts))


def value(rng, comps, p_present=0.6):
    v = {}
    for x in comps:
        if not x['opt'] or rng.random() < p_present:
            v[x['name']] = x['gen'](rng)
    return v


def build(rng):
    kind = rng.choice(['SEQUENCE', 'SEQUENCE', 'SET'])
    r1 = [comp(rng, 'a%d' % i, 0.4) for i in range(rng.choice([1, 2, 3]))]
    r2 = [comp(rng, 'z%d' % i, 0.4) for i in range(rng.choice([1, 1, 2]))]
    adds1 = [comp(rng, 'x%d' % i, 0.8) for i in range(rng.choice([0, 1, 2]))]
    adds2 = [comp(rng, 'y%d' % i, 0.8) for i in range(rng.choice([1, 2, 9]))]
    return {'kind': kind, 'r1': r1, 'r2': r2, 'adds1': adds1, 'adds2': adds2,
            'v1': render(kind, r1, adds1, r2), 'v2': render(kind, r1, adds1 + adds2, r2),
            'eq1': render(kind, r1, adds1, r2, trailing=False), 'eq2': render(kind, r1, adds1 + adds2, r2, trailing=False)}


def enc_repr(codec, b):
    return b.hex() if codec not in ('jer', 'xer', 'gser') else b.decode('utf-8', 'replace')


def run(sink, prop, rng, n, codecs):
    for _ in range(n):
        f = build(rng)
        all1 = f['r1'] + f['adds1'] + f['r2']
        all2 = f['r1'] + f['adds1'] + f['adds2'] + f['r2']
        vals1 = [value(rng, all1) for _ in range(3)]
        vals2 = [value(rng, all2, 0.8) for _ in range(3)]
        known2 = {x['name'] for x in all1}
        for codec in codecs:
            specs = {}
            for key in ('v1', 'v2', 'eq1', 'eq2'):
                st, sp = impl.compile_text(f[key], codec)
                if st != 'ok':
                    sink.violation('%s: a SEQUENCE / SET with two extension markers and trailing root components does not compile (%s)' % (codec, st),
                                   {'codec': codec, 'module': f[key], 'error': repr(sp)[:300]})
                    specs = None
                    break
                specs[key] = sp
            if not specs:
                continue
            for ver, vals in (('v1', vals1), ('v2', vals2)):
                other = 'v2' if ver == 'v1' else 'v1'
                for v in vals:
                    sink.case((f[ver], repr(v), codec, prop))
                    e = impl.encode(specs[ver], 'S', v)
                    sink.count('twomark.%s.%s.%s' % (prop, codec, e[0] if e[0] == 'ok' else e[1].split(':')[0]))
                    info = {'codec': codec, 'module': f[ver], 'value': repr(v)}
                    if e[0] != 'ok':
                        if prop in ('C01', 'C02'):
                            sink.violation('%s: a value of a type with two extension markers is rejected by the encoder (%s)' % (codec, e[1]), dict(info, error=e[2]))
                        continue
                    info['encoded'] = enc_repr(codec, e[1])
                    own = impl.decode(specs[ver], 'S', e[1])
                    if own[0] != 'ok' or own[1] != v:
                        if prop in ('C01', 'C02'):
                            sink.violation('%s: a value of a type with two extension markers does not round-trip' % codec, dict(info, decoded=repr(own[1:])[:300]))
                        continue
                    if prop in ('C01', 'C02'):
                        e2 = impl.encode(specs[ver], 'S', own[1])
                        if e2[0] != 'ok' or (codec != 'ber' and e2[1] != e[1]):
                            sink.violation('%s: re-encoding the decoded value of a type with two extension markers gives other octets' % codec, dict(info, reencoded=repr(e2[1])[:200]))
                    elif prop in ('C05', 'C06'):
                        eq = 'eq1' if ver == 'v1' else 'eq2'
                        ee = impl.encode(specs[eq], 'S', v)
                        if ee[0] != 'ok' or ee[1] != e[1]:
                            sink.violation('%s: the components after the second extension marker are root components: the encoding must be that of { root1, root2, ..., additions }' % codec,
                                           dict(info, same_type_with_one_marker=f[eq], its_encoding=enc_repr(codec, ee[1]) if ee[0] == 'ok' else repr(ee[1:])))
                            continue
                        d = impl.decode(specs[ver], 'S', ee[1])
                        if d[0] != 'ok' or d[1] != v:
                            sink.violation('%s: the octets X.691 / X.696 prescribe for a type with trailing root components are not decoded to the value' % codec,
                                           dict(info, decoded=repr(d[1:])[:300]))
                    elif prop == 'C07':
                        d = impl.decode(specs[other], 'S', e[1])
                        want = v if ver == 'v1' else {k: x for k, x in v.items() if k in known2}
                        if d[0] == 'ok' and d[1] == want:
                            continue
                        if codec in ('ber', 'der'):
                            sink.known_finding('C07-automatic-tags-trailing-root', '%s: automatic tags are numbered in textual order, so the tags of the root components after the second '
                                               'extension marker change when additions are added (X.680 25.7 numbers the root first)' % codec)
                            continue
                        sink.violation('%s: %s (type with two extension markers and trailing root components)'
                                       % (codec, 'a V2 encoding does not decode under V1 to the V1 projection' if ver == 'v2' else 'a V1 encoding does not decode under V2 to the same value'),
                                       dict(info, other_version=f[other], expected=repr(want), got=repr(d[1:])[:400]))
