"""Shared machinery for every property check: stage P (Lean build + axiom audit),
the line-protocol client for the Lean driver, evidence / replay / known-finding
bookkeeping and verdict printing."""
import hashlib
import json
import os
import random
import re
import signal
import subprocess
import sys
import time
from contextlib import contextmanager

VERIF = os.path.dirname(os.path.dirname(os.path.abspath(__file__)))
LEAN = os.path.join(VERIF, 'lean')
DRIVER = os.path.join(LEAN, '.lake', 'build', 'bin', 'driver')
REPO = os.environ.get('ASN1TOOLS_REPO', '/repo')
OUT = os.environ.get('VERIF_OUT', VERIF)     # where evidence/ and replays/ are written
ALLOWED_AXIOMS = {'propext', 'Classical.choice', 'Quot.sound'}
FORBIDDEN = re.compile(r'\b(sorry|admit|native_decide|bv_decide|implemented_by)\b|^axiom |unsafe |maxHeartbeats 0')


class Timeout(Exception):
    pass


@contextmanager
def time_limit(seconds):
    """Raises Timeout after `seconds` of CPU time of this process (ITIMER_PROF: independent of how loaded the machine
    is, so a busy host cannot turn a slow case into an alarm), or after 10x that in wall-clock time (a blocked call)."""
    def handler(signum, frame):
        raise Timeout()
    old_alrm = signal.signal(signal.SIGALRM, handler)
    old_prof = signal.signal(signal.SIGPROF, handler)
    signal.setitimer(signal.ITIMER_PROF, seconds)
    signal.setitimer(signal.ITIMER_REAL, 10 * seconds)
    try:
        yield
    finally:
        signal.setitimer(signal.ITIMER_PROF, 0)
        signal.setitimer(signal.ITIMER_REAL, 0)
        signal.signal(signal.SIGALRM, old_alrm)
        signal.signal(signal.SIGPROF, old_prof)


def run_cmd(cmd, cwd=None, timeout=3600, env=None):
    p = subprocess.run(cmd, cwd=cwd, stdout=subprocess.PIPE, stderr=subprocess.STDOUT,
                       text=True, timeout=timeout, env=env)
    return p.returncode, p.stdout


def strip_lean_comments(text):
    """Remove -- line comments and /- -/ block comments (nesting) for the forbidden-token grep."""
    out = []
    i = 0
    depth = 0
    n = len(text)
    while i < n:
        if text.startswith('/-', i):
            depth += 1
            i += 2
        elif depth and text.startswith('-/', i):
            depth -= 1
            i += 2
        elif depth:
            i += 1
        elif text.startswith('--', i):
            while i < n and text[i] != '\n':
                i += 1
        else:
            out.append(text[i])
            i += 1
    return ''.join(out)


class StageP:
    """Proof obligations of one property: regenerate Extracted.lean from /repo, build,
    grep for forbidden constructs, and audit the axioms of every property theorem."""

    def __init__(self, prop, tier):
        self.prop = prop
        self.tier = tier
        self.obligations = []
        self.discharged = []
        self.axioms = {}
        self.errors = []
        self.log = ''

    def property_files(self):
        import glob
        d = os.path.join(LEAN, 'Asn1Proofs', 'Properties')
        return sorted(f for f in glob.glob(os.path.join(d, self.prop + '*.lean'))
                      if re.fullmatch(re.escape(self.prop) + r'[a-z]?\.lean', os.path.basename(f)))

    def theorem_names_of(self, path):
        src = strip_lean_comments(open(path).read())
        names, stack = [], []                  # stack of open blocks: a namespace name, or None for section / mutual
        for line in src.split('\n'):
            m = re.match(r'^namespace\s+(\S+)', line)
            if m:
                stack.append(m.group(1))
                continue
            if re.match(r'^\s*(section|mutual|noncomputable section)\b', line):
                stack.append(None)
                continue
            if re.match(r'^\s*end\b', line):
                if stack:
                    stack.pop()
                continue
            m = re.match(r'^theorem\s+([A-Za-z0-9_\.\']+)', line)
            if m:
                names.append('.'.join([x for x in stack if x] + [m.group(1)]))
        return names

    def theorem_names(self):
        names = []
        for path in self.property_files():
            names += self.theorem_names_of(path)
        return names

    def closure(self, roots):
        """modules of this Lake package reachable through `import` from the given module names -> {module: path}"""
        seen = {}
        todo = list(roots)
        while todo:
            m = todo.pop()
            if m in seen:
                continue
            path = os.path.join(LEAN, *m.split('.')) + '.lean'
            if not os.path.exists(path):
                continue
            seen[m] = path
            for imp in re.findall(r'^import\s+(\S+)', strip_lean_comments(open(path).read()), re.M):
                todo.append(imp)
        return seen

    def run(self):
        t0 = time.time()
        from . import extract, py2lean
        try:
            extract.write_extracted()
        except Exception as e:  # extraction failure = the tie to the source is broken
            self.errors.append('extract: %r' % (e,))
        translate_error = None
        try:
            py2lean.write_translated(LEAN, REPO)
        except Exception as e:  # the source left the translated subset (or a target disappeared)
            translate_error = 'translate (harness/py2lean.py): %r' % (e,)
        prop_modules = ['Asn1Proofs.Properties.%s' % os.path.basename(pf)[:-5] for pf in self.property_files()]
        reach = self.closure(prop_modules + ['Main'])
        from . import trcheck
        self.uses_translated = 'Asn1Model.Translated' in reach or self.prop in trcheck.TR_PREFIXES
        targets = ['driver']
        if self.uses_translated:
            targets.append('trdriver')
            if translate_error:
                self.errors.append(translate_error)
        rc, out = run_cmd(['lake', 'build'] + targets, cwd=LEAN)
        self.log += out[-3000:]
        if rc != 0:
            self.errors.append('lake build failed: ' + ' '.join(targets))
            self.errors += ['%s:%s' % f for f in re.findall(r'error: (\S+\.lean):(\d+)', out)[:10]]
        # each property module is built and audited on its own, so that a broken module does not hide the others
        built = []
        for pm in prop_modules:
            rcm, outm = run_cmd(['lake', 'build', pm], cwd=LEAN)
            if rcm == 0:
                built.append(pm)
            else:
                rc = rc or rcm
                self.log += outm[-3000:]
                self.errors.append('lake build failed: ' + pm)
                self.errors += ['%s:%s' % f for f in re.findall(r'error: (\S+\.lean):(\d+)', outm)[:10]]
        # forbidden constructs, in every module the property theorems and the driver depend on
        for m, path in sorted(reach.items()):
            body = strip_lean_comments(open(path).read())
            for ln in body.splitlines():
                if FORBIDDEN.search(ln):
                    self.errors.append('forbidden construct in %s: %s' % (os.path.basename(path), ln.strip()[:80]))
        try:
            self.obligations = self.theorem_names()
        except Exception as e:
            self.errors.append('cannot list theorems: %r' % (e,))
            self.obligations = []
        if built and self.obligations:
            audit = os.path.join(LEAN, '.lake', 'audit_%s.lean' % self.prop)
            with open(audit, 'w') as f:
                for pm in built:
                    f.write('import %s\n' % pm)
                for pm in built:
                    for t in self.theorem_names_of(os.path.join(LEAN, *pm.split('.')) + '.lean'):
                        f.write('#print axioms %s\n' % t)
            rc2, out2 = run_cmd(['lake', 'env', 'lean', audit], cwd=LEAN)
            text = out2.replace('\n  ', ' ')
            for m in re.finditer(r"'(\S+)' (depends on axioms: \[([^\]]*)\]|does not depend on any axioms)", text):
                name = m.group(1)
                axs = [a.strip() for a in (m.group(3) or '').split(',') if a.strip()]
                self.axioms[name] = axs
            if rc2 != 0:
                self.errors.append('audit failed: ' + out2[-500:])
        for t in self.obligations:
            if t in self.axioms and set(self.axioms[t]) <= ALLOWED_AXIOMS:
                self.discharged.append(t)
            else:
                self.errors.append('theorem %s not discharged (axioms: %s)' % (t, self.axioms.get(t)))
        if self.tier == 'thorough' and rc == 0 and os.environ.get('VERIF_SKIP_LEANCHECKER') != '1':
            rc3, out3 = run_cmd(['lake', 'env', 'leanchecker'] + ['Asn1Proofs.Properties.%s' % os.path.basename(pf)[:-5] for pf in self.property_files()],
                                cwd=LEAN, timeout=3000)
            self.leanchecker = (rc3 == 0)
            if rc3 != 0:
                self.errors.append('leanchecker failed: ' + out3[-500:])
        self.wall = time.time() - t0
        return not self.errors

    def used_axioms(self):
        s = set()
        for t in self.discharged:
            s |= set(self.axioms.get(t, []))
        return sorted(s)


class Model:
    """Client of the Lean driver (line protocol).  Batch oriented: send all lines, read all answers."""

    def __init__(self):
        self.calls = 0

    def available(self):
        return os.path.exists(DRIVER)

    def batch(self, lines, timeout=1800):
        if not lines:
            return []
        data = ''.join(l + '\n' for l in lines)
        try:
            p = subprocess.run([DRIVER], input=data, stdout=subprocess.PIPE, stderr=subprocess.PIPE,
                               text=True, timeout=timeout)
        except subprocess.TimeoutExpired:
            # one request on which the (total, fuel-driven) model does not finish in time must not take the whole run down:
            # find it by bisection, answer it as unmodelled (callers skip such answers) and report it on stderr
            if len(lines) == 1:
                sys.stderr.write('model driver: no answer within %ss for request %s\n' % (timeout, lines[0][:400]))
                return ['timeout unmodelled']
            per = max(15, timeout // 6)
            mid = len(lines) // 2
            return self.batch(lines[:mid], timeout=per) + self.batch(lines[mid:], timeout=per)
        out = p.stdout.split('\n')
        if out and out[-1] == '':
            out.pop()
        if len(out) != len(lines):
            raise RuntimeError('driver answered %d lines for %d requests (rc=%s, stderr=%s)'
                               % (len(out), len(lines), p.returncode, p.stderr[-300:]))
        self.calls += len(lines)
        return out


def sx(x):
    """Render a Python structure (nested lists / str / int) as an S-expression."""
    if isinstance(x, (list, tuple)):
        return '(' + ' '.join(sx(e) for e in x) + ')'
    if isinstance(x, bool):
        return 'T' if x else 'F'
    return str(x)


def parse_sx(s):
    toks = re.findall(r'\(|\)|[^\s()]+', s)
    pos = 0
    stack = [[]]
    for t in toks:
        if t == '(':
            stack.append([])
        elif t == ')':
            top = stack.pop()
            stack[-1].append(top)
        else:
            stack[-1].append(t)
    return stack[0]


class Ctx:
    def __init__(self, prop, tier, seed):
        self.prop = prop
        self.tier = tier
        self.seed = seed
        self.rng = random.Random((seed * 1000003) ^ int(hashlib.sha1(prop.encode()).hexdigest()[:8], 16))
        self.model = Model()
        self.evaluations = 0
        self.nontrivial = set()
        self.samples = []
        self.hist = {}
        self.violations = []      # (what, replay dict)
        self.known_hits = {}      # finding id -> count / example
        self.notes = []
        self.assumptions = []
        self.extra = {}
        self.known = load_known().get(prop, [])
        self.stagep = None
        self.corr_disagreements = []   # model != impl where the property still holds

    def count(self, key, n=1):
        self.hist[key] = self.hist.get(key, 0) + n

    def case(self, key=None, nontrivial=True):
        self.evaluations += 1
        if nontrivial and key is not None:
            self.nontrivial.add(hashlib.sha1(repr(key).encode()).digest()[:8])

    def sample(self, s, limit=5):
        if len(self.samples) < limit:
            self.samples.append(s)

    def quick(self):
        return self.tier != 'thorough'

    def n(self, quick, thorough):
        return quick if self.quick() else thorough

    def violation(self, what, replay):
        """A failure of the property demonstrated on the real implementation."""
        self.violations.append((what, replay))

    def known_finding(self, fid, what):
        d = self.known_hits.setdefault(fid, {'count': 0, 'what': what})
        d['count'] += 1

    def disagreement(self, relation, detail):
        """Model and implementation differ (or a proof broke) although no failing input is known yet."""
        self.corr_disagreements.append({'relation': relation, 'detail': detail})


def parallel_map(fn, items, nproc=None):
    """Run fn over items in forked worker processes (results in order).  fn must be a top-level function."""
    import multiprocessing as mp
    nproc = nproc or min(14, max(1, (os.cpu_count() or 2) - 2))
    if len(items) <= 1 or nproc <= 1:
        return [fn(x) for x in items]
    ctx = mp.get_context('fork')
    with ctx.Pool(nproc) as pool:
        return pool.map(fn, items, chunksize=1)


class Part:
    """Picklable partial result of a worker: merged into the Ctx by `merge`."""

    def __init__(self):
        self.cases = []          # (key, nontrivial)
        self.hist = {}
        self.violations = []
        self.known = []          # (fid, what)
        self.disagreements = []
        self.samples = []

    def count(self, key, n=1):
        self.hist[key] = self.hist.get(key, 0) + n

    def case(self, key, nontrivial=True):
        self.cases.append((hashlib.sha1(repr(key).encode()).digest()[:8] if nontrivial else None))

    def violation(self, what, replay):
        if len(self.violations) < 20:
            self.violations.append((what, replay))

    def known_finding(self, fid, what):
        self.known.append((fid, what))

    def disagreement(self, relation, detail):
        if len(self.disagreements) < 20:
            self.disagreements.append({'relation': relation, 'detail': detail})

    def sample(self, s, limit=3):
        if len(self.samples) < limit:
            self.samples.append(s)


def merge(ctx, parts):
    for p in parts:
        for h in p.cases:
            ctx.evaluations += 1
            if h is not None:
                ctx.nontrivial.add(h)
        for k, v in p.hist.items():
            ctx.count(k, v)
        for w, r in p.violations:
            ctx.violation(w, r)
        for fid, what in p.known:
            ctx.known_finding(fid, what)
        ctx.corr_disagreements += p.disagreements
        for smp in p.samples:
            ctx.sample(smp)


def load_known():
    path = os.path.join(VERIF, 'known_findings.json')
    if not os.path.exists(path):
        return {}
    data = json.load(open(path))
    out = {}
    for f in data.get('findings', []):
        out.setdefault(f['property'], []).append(f)
    return out


def write_replay(prop, what, replay):
    os.makedirs(os.path.join(OUT, 'replays'), exist_ok=True)
    body = json.dumps({'property': prop, 'what': what, 'replay': replay}, indent=1, sort_keys=True, default=repr)
    h = hashlib.sha1(body.encode()).hexdigest()[:12]
    path = os.path.join(OUT, 'replays', '%s-%s.json' % (prop, h))
    with open(path, 'w') as f:
        f.write(body + '\n')
    return path


def finish(ctx, t0, level='proof'):
    sp = ctx.stagep
    prop = ctx.prop
    lines = []
    exit_code = 0
    # 1. direct violations (failing input on the real code)
    seen = set()
    for what, replay in ctx.violations:
        key = what
        if key in seen:
            continue
        seen.add(key)
        if len(seen) > 5:
            break
        path = write_replay(prop, what, replay)
        lines.append('VIOLATION property=%s replay=%s' % (prop, path))
        exit_code = 1
    # 2. broken proof / correspondence without a failing input
    if exit_code == 0:
        broken = []
        if sp is not None and sp.errors:
            broken.append({'stage': 'P', 'errors': sp.errors, 'log_tail': sp.log[-1500:]})
        if ctx.corr_disagreements:
            broken.append({'stage': 'K', 'disagreements': ctx.corr_disagreements[:5]})
        if broken:
            path = write_replay(prop, 'proof obligation or correspondence no longer checks', broken)
            lines.append('VIOLATION property=%s replay=%s no-failing-input-found' % (prop, path))
            exit_code = 1
    for fid, d in sorted(ctx.known_hits.items()):
        lines.append('KNOWN-FINDING: property=%s %s %s (hit %d times this run)' % (prop, fid, d['what'], d['count']))
    coverage = {
        'obligations': len(sp.obligations) if sp else 0,
        'discharged': len(sp.discharged) if sp else 0,
        'checker_cmd': 'cd lean && lake build driver Asn1Proofs.Properties.%s* && lake env lean .lake/audit_%s.lean  (#print axioms of every theorem in Asn1Proofs/Properties/%s.lean)%s'
                       % (prop, prop, prop, ' && lake env leanchecker Asn1Proofs.Properties.%s' % prop if ctx.tier == 'thorough' else ''),
        'trusted_base': (['Lean 4.33.0 kernel', 'axioms used by the property theorems: %s' % (sp.used_axioms() if sp else [])]
                         + ctx.assumptions),
        'theorems': sp.obligations if sp else [],
        'evaluations': ctx.evaluations,
        'distinct_nontrivial': len(ctx.nontrivial),
        'rule': ctx.extra.pop('rule', ''),
        'samples': ctx.samples,
        'disagreements_checked': ctx.extra.pop('disagreements_checked', ctx.evaluations),
        'histogram': ctx.hist,
        'known_findings_hit': {k: v['count'] for k, v in ctx.known_hits.items()},
        'model_driver_requests': ctx.model.calls,
        'exhaustive': False,
    }
    coverage.update(ctx.extra)
    ev = {
        'property_id': prop,
        'tier': 'thorough' if ctx.tier == 'thorough' else 'quick',
        'seed': ctx.seed,
        'level': level,
        'coverage': coverage,
        'assumptions': ctx.assumptions + ctx.notes,
        'wall_s': round(time.time() - t0, 2),
        'violations': len(seen) + (1 if exit_code == 1 and not seen else 0),
    }
    os.makedirs(os.path.join(OUT, 'evidence'), exist_ok=True)
    with open(os.path.join(OUT, 'evidence', prop + '.json'), 'w') as f:
        json.dump(ev, f, indent=1, sort_keys=True, default=repr)
        f.write('\n')
    for l in lines:
        print(l)
    print('%s tier=%s seed=%d evaluations=%d distinct=%d obligations=%d/%d wall=%.1fs exit=%d'
          % (prop, ctx.tier, ctx.seed, ctx.evaluations, len(ctx.nontrivial),
             coverage['discharged'], coverage['obligations'], time.time() - t0, exit_code))
    return exit_code
