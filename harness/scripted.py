"""Small scripted checks added for round-6 seeded changes (each states its own oracle)."""
from . import impl


def hexs(b):
    return b.hex() if isinstance(b, (bytes, bytearray)) else repr(b)


def set_missing_member(sink, codecs):
    """C12: a SET value that lacks a mandatory root member is rejected with EncodeError and the path, however many members are present"""
    text = ('M DEFINITIONS AUTOMATIC TAGS ::= BEGIN\nT ::= SET { a INTEGER, b BOOLEAN, c OCTET STRING, d IA5String OPTIONAL, e NULL }\n'
            'U ::= SEQUENCE { s T, n INTEGER }\nEND\n')
    full = {'a': 1, 'b': True, 'c': b'\x01', 'd': 'x', 'e': None}
    for codec in codecs:
        st, spec = impl.compile_text(text, codec)
        if st != 'ok':
            sink.count('scripted.set-missing.compile.' + st)
            continue
        for gone in ('a', 'b', 'c', 'e'):
            for drop_opt in (False, True):
                v = {k: x for k, x in full.items() if k != gone and not (drop_opt and k == 'd')}
                for name, val, path in (('T', v, 'T'), ('U', {'s': v, 'n': 3}, 'U.s')):
                    r = impl.encode(spec, name, val)
                    sink.case(('set-missing', codec, gone, drop_opt, name))
                    if r[0] == 'ok' or r[1] != 'EncodeError' or not r[2].startswith(path + ':') or ("'%s'" % gone) not in r[2]:
                        sink.violation('%s: a SET value without its mandatory member %r is not rejected with the library error and the path %r' % (codec, gone, path),
                                       {'codec': codec, 'module': text, 'type': name, 'value': repr(val), 'result': hexs(r[1]) if r[0] == 'ok' else repr(r[1:])})


def oer_default_bits(sink):
    """C06: a BIT STRING component whose value is abstractly its DEFAULT (junk in the unused bits, trailing zero bits of a named-bit list) is
    absent from the encoding: the octets are those of the value without the component (X.696 16.2)"""
    text = ("M DEFINITIONS AUTOMATIC TAGS ::= BEGIN\nS ::= SEQUENCE { f BIT STRING DEFAULT '101'B, g BIT STRING { a(0), b(1), c(5) } DEFAULT { a }, n INTEGER (0..7) }\n"
            "W ::= SET { n INTEGER (0..7), f BIT STRING DEFAULT '101'B }\nEND\n")
    st, spec = impl.compile_text(text, 'oer')
    if st != 'ok':
        sink.violation('oer: module does not compile', {'module': text})
        return
    for name, dflt, base in (('S', {'f': (b'\xbf', 3)}, {'n': 5}), ('S', {'g': (b'\x80', 2)}, {'n': 5}), ('S', {'g': (b'\x80\x00', 9)}, {'n': 2}),
                             ('S', {'f': (b'\xa0', 3), 'g': (b'\x80', 1)}, {'n': 7}), ('W', {'f': (b'\xa7', 3)}, {'n': 1})):
        a, b = impl.encode(spec, name, dict(base, **dflt)), impl.encode(spec, name, base)
        sink.case(('oer-default-bits', name, repr(dflt)))
        if a[0] != 'ok' or b[0] != 'ok' or a[1] != b[1]:
            sink.violation('oer: a BIT STRING component equal to its DEFAULT (modulo unused / trailing zero bits) is not encoded as absent',
                           {'module': text, 'type': name, 'value': repr(dict(base, **dflt)), 'encoded': hexs(a[1]), 'encoding_without_the_component': hexs(b[1])})
            continue
        d = impl.decode(spec, name, a[1])
        if d[0] != 'ok' or d[1].get('n') != base['n']:
            sink.violation('oer: the encoding of a value with a DEFAULT-valued BIT STRING does not decode back', {'module': text, 'encoded': hexs(a[1]), 'decoded': repr(d[1:])})


def per_small_alphabet_prefixes(sink, codecs=('per', 'uper')):
    """C16: strings whose characters are narrower than an octet, at the end of a message and behind alignment padding: every strict prefix fails"""
    text = ('M DEFINITIONS AUTOMATIC TAGS ::= BEGIN\nN ::= NumericString (SIZE (0..7))\nF ::= IA5String (FROM ("abc")) (SIZE (0..12))\n'
            'S ::= SEQUENCE { b BOOLEAN, s NumericString (SIZE (0..7)) }\nT ::= SEQUENCE { b BOOLEAN, s NumericString (SIZE (1..30)), f IA5String (FROM ("01")) (SIZE (0..20)) }\nEND\n')
    for codec in codecs:
        st, spec = impl.compile_text(text, codec)
        if st != 'ok':
            sink.violation('%s: module does not compile' % codec, {'module': text})
            continue
        vals = [('N', '1' * k) for k in range(1, 8)] + [('N', '123'), ('F', 'abcab' * 2), ('F', 'a' * k)] if False else []
        vals = [('N', '1234567'[:k]) for k in range(1, 8)] + [('F', 'abcabcabcabc'[:k]) for k in range(1, 13)]
        vals += [('S', {'b': True, 's': '1234567'[:k]}) for k in range(1, 8)]
        vals += [('T', {'b': False, 's': '9' * k, 'f': '01' * j}) for k in (1, 3, 9, 30) for j in (0, 1, 3, 10)]
        for name, v in vals:
            e = impl.encode(spec, name, v)
            if e[0] != 'ok':
                continue
            own = impl.decode(spec, name, e[1])
            if own[0] != 'ok' or own[1] != v:
                continue
            for k in range(len(e[1])):
                d = impl.decode(spec, name, e[1][:k])
                sink.case(('small-alphabet-prefix', codec, name, repr(v), k))
                if d[0] == 'ok' or d[1] != 'DecodeError':
                    sink.violation('%s: a strict prefix (%d of %d octets) of a valid encoding %s' % (codec, k, len(e[1]), 'decodes to a value' if d[0] == 'ok' else 'raises ' + d[1]),
                                   {'codec': codec, 'module': text, 'type': name, 'value': repr(v), 'encoded': e[1].hex(), 'prefix_length': k, 'result': repr(d[1:])[:200]})
                    break


def choice_unknown_long_tag(sink, codecs=('ber', 'der')):
    """C15: a message of a newer version whose CHOICE alternative is unknown to the receiver AND has an identifier of another length (tag number
    >= 31) is framed like any other: decode_with_length(msg + tail) == (decode(msg), len(msg)), decode_length(msg + tail) == len(msg)"""
    alts = ', '.join('b%d INTEGER' % i for i in range(1, 41))
    v1 = 'M DEFINITIONS AUTOMATIC TAGS ::= BEGIN\nA ::= CHOICE { a INTEGER, ... }\nL ::= SEQUENCE OF A\nS ::= SEQUENCE { c A, n INTEGER }\nEND\n'
    v2 = 'M DEFINITIONS AUTOMATIC TAGS ::= BEGIN\nA ::= CHOICE { a INTEGER, ..., %s }\nL ::= SEQUENCE OF A\nS ::= SEQUENCE { c A, n INTEGER }\nEND\n' % alts
    for codec in codecs:
        s1, s2 = impl.compile_text(v1, codec)[1], impl.compile_text(v2, codec)[1]
        for name, v in (('A', ('b40', 5)), ('A', ('b31', 70000)), ('A', ('b3', 1)), ('L', [('a', 1), ('b40', 2), ('a', 3), ('b35', 4)]), ('S', {'c': ('b39', 9), 'n': 7})):
            e = impl.encode(s2, name, v)
            if e[0] != 'ok':
                continue
            msg = e[1]
            for tail in (b'', b'\x00\x00', bytes(range(1, 40))):
                sink.case(('choice-unknown-long-tag', codec, name, repr(v), len(tail)))
                try:
                    d1 = s1.decode(name, msg)
                    d2, n = s1.decode_with_length(name, msg + tail)
                    pl = s1.decode_length(msg + tail)
                except Exception as ex:
                    sink.violation('%s: a newer version\'s message with an unknown CHOICE alternative of tag number >= 31 is not read / framed (%s)' % (codec, type(ex).__name__),
                                   {'codec': codec, 'receiver': v1, 'sender': v2, 'type': name, 'value': repr(v), 'msg': msg.hex(), 'tail': tail.hex(), 'error': str(ex)[:200]})
                    continue
                if n != len(msg) or pl != len(msg) or d1 != d2:
                    sink.violation('%s: decode_with_length / decode_length disagree with decode on a newer version\'s message (unknown CHOICE alternative, long identifier)' % codec,
                                   {'codec': codec, 'receiver': v1, 'type': name, 'msg': msg.hex(), 'tail': tail.hex(), 'decode': repr(d1), 'decode_with_length': repr((d2, n)), 'decode_length': pl})


def set_as_sequence(sink, rng, n, codecs=('per', 'uper', 'oer')):
    """C05 / C06: under AUTOMATIC TAGS the canonical (tag) order of SET components is their textual order, so a module in which every
    `SET {` is written `SEQUENCE {` gives the same octets (X.691 21.1, X.696 17) — also when components share names and referenced types"""
    for _ in range(n):
        small = rng.choice(['INTEGER (0..7)', 'BOOLEAN', 'OCTET STRING (SIZE (1))'])
        sv = {'INTEGER (0..7)': 5, 'BOOLEAN': True, 'OCTET STRING (SIZE (1))': b'\x7f'}[small]
        inner_members = ['x BOOLEAN', 'y BOOLEAN', 'a Small']
        rng.shuffle(inner_members)
        outer_members = ['a Small', 'b Inner'] + (['c INTEGER (0..255) OPTIONAL'] if rng.random() < 0.5 else [])
        rng.shuffle(outer_members)
        text = 'M DEFINITIONS AUTOMATIC TAGS ::= BEGIN\nSmall ::= %s\nOuter ::= SET { %s }\nInner ::= SET { %s }\nThird ::= SET { k Inner, a Small, x BOOLEAN OPTIONAL }\nEND\n' % (
            small, ', '.join(outer_members), ', '.join(inner_members))
        seq_text = text.replace('SET {', 'SEQUENCE {')
        inner = {'x': True, 'y': False, 'a': sv}
        vals = [('Outer', dict({'a': sv, 'b': inner}, **({'c': 200} if 'c INTEGER (0..255) OPTIONAL' in outer_members and rng.random() < 0.6 else {}))),
                ('Inner', inner), ('Third', {'k': inner, 'a': sv}), ('Third', {'k': inner, 'a': sv, 'x': False})]
        for codec in codecs:
            a, b = impl.compile_text(text, codec), impl.compile_text(seq_text, codec)
            if a[0] != 'ok' or b[0] != 'ok':
                sink.count('scripted.set-as-seq.compile')
                continue
            for name, v in vals:
                ra, rb = impl.encode(a[1], name, v), impl.encode(b[1], name, v)
                sink.case(('set-as-seq', text, codec, name, repr(v)))
                if ra[0] != 'ok' or rb[0] != 'ok' or ra[1] != rb[1]:
                    sink.violation('%s: a SET under AUTOMATIC TAGS is not encoded in the order of its (automatic) tags, i.e. like the SEQUENCE of the same components' % codec,
                                   {'codec': codec, 'module': text, 'type': name, 'value': repr(v), 'set_encoding': hexs(ra[1]), 'sequence_encoding': hexs(rb[1])})
                    continue
                d = impl.decode(a[1], name, rb[1])
                if d[0] != 'ok' or d[1] != v:
                    sink.violation('%s: the canonical octets of a SET value are not decoded to the value' % codec, {'codec': codec, 'module': text, 'type': name, 'encoded': hexs(rb[1]), 'decoded': repr(d[1:])[:300]})


def ext_implied_versions(sink, codecs):
    """C07: in an EXTENSIBILITY IMPLIED module a nested type written without `...` is extensible; the next version writes the marker and adds to it"""
    shapes = [
        ('A ::= SEQUENCE { a BOOLEAN, inner SEQUENCE { x INTEGER (0..7) }, ..., z INTEGER (0..3) OPTIONAL }',
         'A ::= SEQUENCE { a BOOLEAN, inner SEQUENCE { x INTEGER (0..7), ..., y BOOLEAN OPTIONAL }, ..., z INTEGER (0..3) OPTIONAL }',
         [{'a': True, 'inner': {'x': 5}}, {'a': False, 'inner': {'x': 1}, 'z': 2}], [({'a': True, 'inner': {'x': 5, 'y': True}, 'z': 1}, {'a': True, 'inner': {'x': 5}, 'z': 1})]),
        ('A ::= SEQUENCE { a BOOLEAN, c CHOICE { p INTEGER (0..7), q BOOLEAN }, ... }',
         'A ::= SEQUENCE { a BOOLEAN, c CHOICE { p INTEGER (0..7), q BOOLEAN, ..., r OCTET STRING }, ... }',
         [{'a': True, 'c': ('p', 3)}, {'a': False, 'c': ('q', True)}], []),
        ('A ::= SEQUENCE { l SEQUENCE OF SEQUENCE { x INTEGER (0..7) }, ..., n NULL OPTIONAL }',
         'A ::= SEQUENCE { l SEQUENCE OF SEQUENCE { x INTEGER (0..7), ..., y INTEGER (0..255) OPTIONAL }, ..., n NULL OPTIONAL }',
         [{'l': [{'x': 1}, {'x': 2}]}, {'l': []}], [({'l': [{'x': 1, 'y': 200}, {'x': 2}], 'n': None}, {'l': [{'x': 1}, {'x': 2}], 'n': None})]),
    ]
    head = 'M DEFINITIONS AUTOMATIC TAGS EXTENSIBILITY IMPLIED ::= BEGIN\n%s\nEND\n'
    for t1, t2, v1s, v2s in shapes:
        for codec in codecs:
            c1, c2 = impl.compile_text(head % t1, codec), impl.compile_text(head % t2, codec)
            if c1[0] != 'ok' or c2[0] != 'ok':
                sink.count('scripted.ext-implied.compile')
                continue
            for v in v1s:
                e = impl.encode(c1[1], 'A', v)
                sink.case(('ext-implied', codec, t1, repr(v), 'bwd'))
                d = impl.decode(c2[1], 'A', e[1]) if e[0] == 'ok' else e
                e2 = impl.encode(c2[1], 'A', v)
                d2 = impl.decode(c1[1], 'A', e2[1]) if e2[0] == 'ok' else e2
                if d[0] != 'ok' or d[1] != v or d2[0] != 'ok' or d2[1] != v:
                    sink.violation('%s: EXTENSIBILITY IMPLIED: a nested type that version 2 extends is not read the same by the two versions' % codec,
                                   {'codec': codec, 'v1': head % t1, 'v2': head % t2, 'value': repr(v), 'v1_bytes_under_v2': repr(d[1:])[:200], 'v2_bytes_under_v1': repr(d2[1:])[:200]})
            for v, want in v2s:
                e = impl.encode(c2[1], 'A', v)
                sink.case(('ext-implied', codec, t1, repr(v), 'fwd'))
                d = impl.decode(c1[1], 'A', e[1]) if e[0] == 'ok' else e
                if d[0] != 'ok' or d[1] != want:
                    sink.violation('%s: EXTENSIBILITY IMPLIED: a version-2 value with an addition inside a nested type does not decode under version 1 to its projection' % codec,
                                   {'codec': codec, 'v1': head % t1, 'v2': head % t2, 'value': repr(v), 'expected': repr(want), 'got': repr(d[1:])[:300]})
