"""Seeded, type-directed generator of ASN.1 modules and values.

One AST is rendered two ways: to ASN.1 text (consumed by the real parser/compiler, so parsing,
tagging, constraint extraction and reference resolution are on the implementation side of every
comparison) and to the S-expression form of the Lean model's `Ty`.  Values are generated
type-directed with a bias to boundaries and rendered to Python objects / S-expressions."""
import random

BOUNDARY_INTS = [0, 1, -1, 2, 127, 128, -128, -129, 255, 256, 257, 32767, 32768, -32768, -32769, 65535, 65536, 65537,
                 2 ** 31 - 1, 2 ** 31, -2 ** 31, 2 ** 32 - 1, 2 ** 32, 2 ** 63 - 1, 2 ** 63, -2 ** 63, 2 ** 64 - 1, 2 ** 64,
                 -2 ** 63 - 1, 2 ** 70]
RANGE_WIDTHS = [1, 2, 3, 7, 8, 15, 16, 255, 256, 257, 65535, 65536, 65537, 2 ** 32, 2 ** 32 + 1, 2 ** 63, 2 ** 64, 2 ** 64 + 1, 2 ** 72]
STR_KINDS = {'IA5String': 'ia5', 'VisibleString': 'visible', 'NumericString': 'numeric',
             'PrintableString': 'printable', 'UTF8String': 'utf8'}
ALPHABETS = {
    'IA5String': [chr(c) for c in range(128)],
    'VisibleString': [chr(c) for c in range(32, 127)],
    'NumericString': list(' 0123456789'),
    'PrintableString': list("ABCDEFGHIJKLMNOPQRSTUVWXYZabcdefghijklmnopqrstuvwxyz0123456789 '()+,-./:=?"),
    'UTF8String': [chr(c) for c in range(32, 127)] + list('åäö€漢𝄞 ߿ࠀ￿'),
}


class Opts:
    def __init__(self, **kw):
        self.max_depth = 3
        self.max_members = 4
        self.kinds = ['bool', 'null', 'int', 'enum', 'octs', 'bits', 'str', 'seq', 'seqof', 'choice']
        self.allow_ext = True
        self.allow_default = True
        self.allow_exotic = 0.04      # shapes known to hit unimplemented / broken paths
        self.big_lengths = 0.0        # probability of lengths >= 128 / 16384
        self.many_additions = 0.25    # probability that an extensible SEQUENCE gets up to 17 additions
        self.reuse_names = True
        self.big_in_additions = 0.12  # probability of a >4096-bit string/list inside an extension addition
        self.top_container = 0.65     # probability that the top-level type is a SEQUENCE/CHOICE/.. OF
        self.str_kinds = list(STR_KINDS)
        self.edge_lengths = 0.04      # probability of a length next to the 127/128-octet boundary of a length field
        self.__dict__.update(kw)


class Gen:
    def __init__(self, rng, opts=None):
        self.rng = rng
        self.o = opts or Opts()
        self.counter = 0

    # ------------------------------------------------------------------ types
    POOL = ['a', 'b', 'c', 'd', 'e', 'f', 'g', 'h', 'id', 'value', 'data', 'payload', 'ext', 'item', 'x', 'y']

    def name(self, prefix='m'):
        self.counter += 1
        return '%s%d' % (prefix, self.counter)

    def names(self, n, prefix='m'):
        """n distinct identifiers for one container; identifiers recur across containers (as in real
        specifications) unless reuse_names is off"""
        if not getattr(self.o, 'reuse_names', True):
            return [self.name(prefix) for _ in range(n)]
        pool = list(self.POOL)
        self.rng.shuffle(pool)
        out = pool[:n]
        while len(out) < n:
            out.append(self.name(prefix))
        return out

    def size(self):
        r = self.rng
        x = r.random()
        if x < 0.35:
            return None
        lo = r.choice([0, 0, 1, 2, 3, 5])
        k = r.random()
        if k < 0.2:
            hi = lo if lo > 0 else 1
            lo = hi
        elif k < 0.85:
            hi = lo + r.choice([1, 2, 3, 4, 7, 8, 15, 16, 60, 255, 256])
        elif k < 0.93:
            hi = r.choice([65535, 65536, 70000])
        else:
            hi = None
        ext = self.o.allow_ext and r.random() < 0.25
        if ext and hi is None and r.random() > self.o.allow_exotic:
            ext = False
        return (lo, hi, ext)

    def int_type(self):
        r = self.rng
        x = r.random()
        if x < 0.2:
            return {'k': 'int', 'lo': None, 'hi': None, 'ext': False, 'con': False}
        if x < 0.3:
            lo = r.choice([None, r.choice([-5, 0, 3, 100])])
            hi = None if lo is not None else r.choice([-5, 0, 10, 1000])
            ext = self.o.allow_ext and r.random() < self.o.allow_exotic
            return {'k': 'int', 'lo': lo, 'hi': hi, 'ext': ext, 'con': True}
        lo = r.choice([0, 0, 0, 1, -1, -128, -129, 5, 100, -2 ** 31, -2 ** 63, 2 ** 31])
        w = r.choice(RANGE_WIDTHS)
        ext = self.o.allow_ext and r.random() < 0.25
        return {'k': 'int', 'lo': lo, 'hi': lo + w - 1, 'ext': ext, 'con': True}

    def enum_type(self):
        r = self.rng
        n = r.choice([1, 2, 2, 3, 4, 5, 8, 9])
        vals = r.sample(range(-3, 40), n) if r.random() < 0.5 else list(range(n))
        if r.random() < 0.15:
            vals[r.randrange(n)] = r.choice([127, 128, 255, 256, 32768, -129, 70000])
            vals = list(dict.fromkeys(vals))
        root = [(self.name('e'), v) for v in vals]
        ext = None
        if self.o.allow_ext and r.random() < 0.3:
            used = set(vals)
            k = r.choice([0, 1, 2, 3])
            ev = []
            nxt = max(used) + 1
            for _ in range(k):
                ev.append((self.name('x'), nxt))
                nxt += r.choice([1, 1, 2, 100])
            ext = ev
        return {'k': 'enum', 'root': root, 'ext': ext}

    def type(self, depth=0):
        r = self.rng
        kinds = self.o.kinds
        if depth >= self.o.max_depth:
            kinds = [k for k in kinds if k not in ('seq', 'seqof', 'choice', 'set', 'setof')] or ['bool']
        elif depth == 0 and r.random() < self.o.top_container:
            kinds = [k for k in kinds if k in ('seq', 'seq', 'choice', 'seqof', 'set', 'setof')] or kinds
            if 'seq' in kinds:
                kinds = kinds + ['seq', 'seq']
        k = r.choice(kinds)
        if k == 'bool':
            return {'k': 'bool'}
        if k == 'null':
            return {'k': 'null'}
        if k == 'int':
            return self.int_type()
        if k == 'enum':
            return self.enum_type()
        if k == 'octs':
            return {'k': 'octs', 'size': self.size()}
        if k == 'bits':
            s = self.size()
            if s and s[2] and r.random() > self.o.allow_exotic:
                s = (s[0], s[1], False)
            return {'k': 'bits', 'size': s}
        if k == 'str':
            kind = r.choice(self.o.str_kinds)
            s = self.size()
            if s and s[2] and r.random() > self.o.allow_exotic:
                s = (s[0], s[1], False)
            return {'k': 'str', 'kind': kind, 'size': s}
        if k == 'seqof':
            return {'k': 'seqof', 'elem': self.type(depth + 1), 'size': self.size()}
        if k == 'seq':
            n = r.randint(0, self.o.max_members)
            next_ = 0
            if self.o.allow_ext and r.random() < 0.5:
                next_ = r.choice([0, 1, 1, 2, 3, 3, 7, 8, 9, 16, 17, 7, 8, 9, 16, 63, 64, 65]) if r.random() < self.o.many_additions else r.choice([0, 1, 1, 2, 3])
            nm = self.names(n + next_)
            root = [self.member(depth, name=nm[i]) for i in range(n)]
            ext = None
            if self.o.allow_ext and (next_ or r.random() < 0.1):
                ext = [self.member(depth if j < 3 else self.o.max_depth, addition=True, name=nm[n + j]) for j in range(next_)]
            return {'k': 'seq', 'root': root, 'ext': ext}
        if k == 'real':
            return {'k': 'real'}
        if k == 'oid':
            return {'k': 'oid'}
        if k == 'setof':
            return {'k': 'setof', 'elem': self.type(depth + 1), 'size': self.size()}
        if k == 'set':
            n = r.randint(0, self.o.max_members)
            nm = self.names(n)
            root = [self.member(depth, name=nm[i]) for i in range(n)]
            return {'k': 'set', 'root': root, 'ext': None}
        if k == 'choice':
            n = r.randint(1, self.o.max_members)
            ne = r.choice([0, 1, 2]) if (self.o.allow_ext and r.random() < 0.35) else -1
            nm = self.names(n + max(ne, 0), 'c')
            root = [(nm[i], self.type(depth + 1)) for i in range(n)]
            ext = None
            if ne >= 0:
                ext = [(nm[n + j], self.type(depth + 1)) for j in range(ne)]
            return {'k': 'choice', 'root': root, 'ext': ext}
        raise ValueError(k)

    def member(self, depth, addition=False, name=None):
        r = self.rng
        t = self.type(depth + 1)
        m = {'name': name or self.name('m'), 't': t, 'opt': False, 'default': None}
        x = r.random()
        if addition:
            # additions are almost always OPTIONAL in real specifications; mandatory ones are legal too
            if x < 0.7:
                m['opt'] = True
            elif x < 0.85 and self.o.allow_default and defaultable(t):
                m['default'] = self.value(t, for_default=True)
        elif x < 0.3:
            m['opt'] = True
        elif x < 0.45 and self.o.allow_default and defaultable(t):
            m['default'] = self.value(t, for_default=True)
        return m

    # ------------------------------------------------------------------ values
    def length(self, size, unit=1):
        n = self._length(size, unit)
        # keep whole values below ~150k leaf items so that one case never takes seconds
        self.budget = getattr(self, 'budget', 150000) - n
        if self.budget < 0:
            lo = size[0] if size else 0
            return lo
        return n

    def _length(self, size, unit=1):
        r = self.rng
        lo, hi, ext = size if size else (0, None, False)
        if r.random() < self.o.edge_lengths:
            cs = [126, 127, 128, 129] if unit == 1 else [unit * c + d for c in (126, 127, 128) for d in (-(unit - 1), -1, 0, 1)]
            cs = [c for c in cs if lo <= c and (hi is None or c <= hi)]
            if cs:
                return r.choice(cs)
        if getattr(self, '_in_addition', 0) and r.random() < self.o.big_in_additions:
            for c in r.sample([511, 512, 513, 600, 1000, 2048], 6):
                if lo <= c and (hi is None or c <= hi):
                    return c
        top = hi if hi is not None else lo + 300
        cands = [lo, lo, top if top - lo <= 300 else lo + r.randint(0, 40), lo + 1 if lo + 1 <= top else lo,
                 r.randint(lo, min(top, lo + 20))]
        if self.o.big_lengths and r.random() < self.o.big_lengths:
            for c in (127, 128, 129, 255, 256, 16383, 16384, 16385, 32768, 49152, 65535, 65536, 70000):
                if lo <= c <= (hi if hi is not None else 10 ** 9):
                    cands.append(c)
            return r.choice(cands[-8:] or cands)
        n = r.choice(cands)
        if ext and r.random() < 0.3:
            n = r.choice([max(0, lo - 1), top + 1, top + 2, top + 200 if self.o.big_lengths else top + 3])
        return n

    def int_value(self, t):
        r = self.rng
        lo, hi, ext = t['lo'], t['hi'], t['ext']
        if lo is not None and hi is not None:
            cands = [lo, hi, lo + 1 if lo + 1 <= hi else lo, hi - 1 if hi - 1 >= lo else hi, r.randint(lo, hi)]
            for b in BOUNDARY_INTS:
                if lo <= b <= hi:
                    cands.append(b)
            v = r.choice(cands)
            if ext and r.random() < 0.35:
                v = r.choice([lo - 1, hi + 1, lo - 200, hi + 70000, -2 ** 40, 2 ** 40] + BOUNDARY_INTS[:12])
            return v
        cands = [b for b in BOUNDARY_INTS if (lo is None or b >= lo) and (hi is None or b <= hi)]
        if lo is not None:
            cands += [lo, lo + 1, lo + 255, lo + 256]
        if hi is not None:
            cands += [hi, hi - 1, hi - 300]
        if ext:
            cands += [(lo - 1) if lo is not None else 0, (hi + 1) if hi is not None else 0]
        return r.choice(cands)

    def value(self, t, for_default=False, _top=True):
        if _top:
            self.budget = 150000
        return self._value(t, for_default)

    def _value(self, t, for_default=False):
        r = self.rng
        k = t['k']
        if k == 'bool':
            return r.random() < 0.5
        if k == 'null':
            return None
        if k == 'int':
            v = self.int_value(t)
            if for_default and t['lo'] is not None and t['hi'] is not None:
                v = min(max(v, t['lo']), t['hi'])
            return v
        if k == 'enum':
            items = list(t['root']) + (list(t['ext']) if t['ext'] and not for_default else [])
            return r.choice(items)[0]
        if k == 'octs':
            n = self.length(t['size'])
            if for_default:
                n = min(n, 4)
                if t['size']:
                    n = max(n, t['size'][0])
            data = bytearray(r.getrandbits(8) if r.random() < 0.8 else r.choice([0, 255, 128]) for _ in range(n))
            if n and r.random() < 0.1:
                z = r.randint(1, n)
                data[:z] = bytes(z)                                 # leading zero octets
            return bytes(data)
        if k == 'bits':
            n = self.length(t['size'], unit=8)
            if for_default:
                n = min(n, 12)
                if t['size']:
                    n = max(n, t['size'][0])
            nb = (n + 7) // 8
            data = bytearray(r.getrandbits(8) for _ in range(nb))
            x = r.random()
            if x < 0.12 and nb:                                   # leading / trailing / all zero or all one octets
                z = r.randint(1, nb)
                data[:z] = bytes(z)
            elif x < 0.2 and nb:
                z = r.randint(1, nb)
                data[nb - z:] = bytes(z) if r.random() < 0.7 else b'\xff' * z
            if n % 8 and nb and (for_default or r.random() < 0.85):
                data[-1] &= (0xff << (8 - n % 8)) & 0xff       # usually clean unused bits
            return (bytes(data), n)
        if k == 'str':
            n = self.length(t['size'])
            if for_default:
                n = min(n, 5)
                if t['size']:
                    n = max(n, t['size'][0])
            alpha = ALPHABETS[t['kind']]
            s = ''.join(r.choice(alpha) for _ in range(n))
            if for_default:
                # keep DEFAULT texts inside what the value notation and the generator's renderer handle
                # (no quotes / control characters) and not number-like (see finding numeric-cstring-default)
                safe = [c for c in alpha if c.isalpha() and c.isascii()] or ['0']
                s = ''.join(c if (c.isalnum() and c.isascii()) or c == ' ' else r.choice(safe) for c in s)
                if s and t['kind'] != 'NumericString' and not any(c.isalpha() for c in s):
                    s = r.choice(safe) + s[1:]
                s = s.strip() or (r.choice(safe) * n)
                if len(s) < n:
                    s = s + r.choice(safe) * (n - len(s))
            return s
        if k == 'real':
            return r.choice([0.0, 1.0, -1.0, 0.5, 1e300, -1e-300, 5e-324, 1.7976931348623157e308, float('inf'), float('-inf'),
                             r.random() * 10 ** r.randint(-30, 30), float(r.randint(-10 ** 6, 10 ** 6)), 2.0 ** r.randint(-1074, 1023)])
        if k == 'oid':
            first = r.choice([0, 1, 2])
            second = r.randint(0, 39) if first < 2 else r.choice([0, 39, 40, 47, 48, 999])
            return '.'.join(str(x) for x in [first, second] + [r.choice([0, 1, 127, 128, 16383, 16384, 2 ** 32]) for _ in range(r.randint(0, 4))])
        if k in ('seqof', 'setof'):
            n = self.length(t['size'])
            if n > 40 and not cheap(t['elem']):
                n = 40 if not t['size'] else max(t['size'][0], min(n, 40))
            return [self._value(t['elem']) for _ in range(n)]
        if k in ('seq', 'set'):
            d = {}
            for m in t['root']:
                self.member_value(m, d)
            if t['ext'] is not None:
                present = r.random() < 0.6
                self._in_addition = getattr(self, '_in_addition', 0) + 1
                for m in t['ext']:
                    if present or (not m['opt'] and m['default'] is None and r.random() < 0.8):
                        self.member_value(m, d, addition=True)
                self._in_addition -= 1
            return d
        if k == 'choice':
            alts = list(t['root'])
            if t['ext']:
                alts += t['ext'] * 2
            n, at = r.choice(alts)
            is_add = bool(t['ext']) and any(n == an for an, _ in t['ext'])
            if is_add:
                self._in_addition = getattr(self, '_in_addition', 0) + 1
            try:
                return (n, self._value(at))
            finally:
                if is_add:
                    self._in_addition -= 1
        raise ValueError(k)

    def member_value(self, m, d, addition=False):
        r = self.rng
        if m['opt']:
            if r.random() < 0.6:
                d[m['name']] = self._value(m['t'])
        elif m['default'] is not None:
            x = r.random()
            if x < 0.3:
                pass
            elif x < 0.55:
                d[m['name']] = m['default']
            else:
                d[m['name']] = self._value(m['t'])
        else:
            d[m['name']] = self._value(m['t'])


def variant(gen, t):
    """A sibling of type t: same structure and member names, with a few constraints / presence qualifiers changed.
    Two such types in one module share member names and (after reorganisation) referenced types, which is what
    exposes aliasing between compiled types."""
    import copy
    r = gen.rng
    t2 = copy.deepcopy(t)

    def walk(n):
        k = n['k']
        if k == 'int' and n['con'] and n['lo'] is not None and n['hi'] is not None and r.random() < 0.5:
            w = r.choice(RANGE_WIDTHS[:10])
            n['lo'] = n['lo'] + r.choice([0, 1, 5])
            n['hi'] = n['lo'] + w - 1
        if k in ('octs', 'bits', 'str', 'seqof', 'setof') and r.random() < 0.5:
            n['size'] = None if (n['size'] and r.random() < 0.5) else gen.size()
            if k in ('bits', 'str') and n['size'] and n['size'][2]:
                n['size'] = (n['size'][0], n['size'][1], False)
        if k in ('seq', 'set'):
            for m in n['root'] + (n['ext'] or []):
                if r.random() < 0.25 and m['default'] is None:
                    in_ext = n['ext'] is not None and m in n['ext']
                    m['opt'] = True if in_ext else (not m['opt'])
                if m['default'] is not None and r.random() < 0.5:
                    m['default'] = None
                    m['opt'] = True
                walk(m['t'])
                if m['default'] is not None:
                    try:
                        m['default'] = gen.value(m['t'], for_default=True)
                    except Exception:
                        m['default'] = None
                        m['opt'] = True
        if k in ('seqof', 'setof'):
            walk(n['elem'])
        if k == 'choice':
            for _, a in n['root'] + (n['ext'] or []):
                walk(a)
    walk(t2)
    return t2


def cheap(t):
    return t['k'] in ('bool', 'null', 'int', 'enum')


def defaultable(t):
    if t['k'] in ('bool', 'int', 'enum'):
        return True
    if t['k'] in ('octs', 'bits'):
        return True
    if t['k'] == 'str':
        return t['kind'] in ('IA5String', 'VisibleString', 'PrintableString', 'UTF8String') and (not t['size'] or t['size'][0] < 6)
    return False


# ---------------------------------------------------------------------- rendering: ASN.1 text
def size_text(s):
    if s is None:
        return ''
    lo, hi, ext = s
    if hi is not None and lo == hi:
        body = str(lo)
    else:
        body = '%d..%s' % (lo, 'MAX' if hi is None else hi)
    return ' (SIZE(%s%s))' % (body, ', ...' if ext else '')


def default_text(t, v):
    k = t['k']
    if k == 'bool':
        return 'TRUE' if v else 'FALSE'
    if k == 'int':
        return str(v)
    if k == 'enum':
        return v
    if k == 'octs':
        return "'%s'H" % v.hex().upper()
    if k == 'bits':
        data, n = v
        bits = ''.join(format(b, '08b') for b in data)[:n]
        return "'%s'B" % bits
    if k == 'str':
        return '"%s"' % v.replace('"', '""')
    raise ValueError(k)


class RefCtx:
    """Rendering context that reorganises a type without changing its meaning: sub-types are hoisted
    into named type assignments, integer bounds into value assignments, and (flagged) constraints are
    applied to a type reference instead of the builtin type."""

    def __init__(self, rng, p_type=0.3, p_value=0.3, p_con_on_ref=0.0, con_kinds=('octs', 'bits', 'str')):
        self.rng = rng
        self.con_kinds = con_kinds   # kinds for which `Ref (SIZE(..))` at a member is rendered
        self.p_type, self.p_value, self.p_con_on_ref = p_type, p_value, p_con_on_ref
        self.defs = []          # assignment texts, in order of creation
        self.n = 0
        self.flags = set()
        self.by_text = {}       # type text -> name (identical sub-types share one named type)

    def fresh(self, prefix):
        self.n += 1
        return '%s%d' % (prefix, self.n)

    def bound(self, v):
        if v is None or self.rng.random() >= self.p_value:
            return None
        name = self.fresh('v')
        self.defs.append('%s INTEGER ::= %d' % (name, v))
        self.flags.add('value-reference-bound')
        return name


def type_text(t, ind=1, ctx=None, member_pos=False):
    if ctx is not None and ind > 1 and ctx.rng.random() < ctx.p_type:
        k = t['k']
        if member_pos and (k in ctx.con_kinds or (k == 'str' and 'kmstr' in ctx.con_kinds and t['kind'] != 'UTF8String')) \
                and t['size'] and ctx.rng.random() < ctx.p_con_on_ref:
            # T ::= <unconstrained>; use  T (SIZE(..))
            base = dict(t, size=None)
            body = _type_text(base, 1, ctx)
            if body in ctx.by_text:
                name = ctx.by_text[body]
            else:
                name = ctx.fresh('R')
                ctx.by_text[body] = name
                ctx.defs.append('%s ::= %s' % (name, body))
            ctx.flags.add('size-on-reference')
            return '%s%s' % (name, size_text(t['size']))
        if k == 'int' and t['con'] and not t.get('ext_range') and ctx.rng.random() < ctx.p_con_on_ref:
            # I ::= INTEGER ; use  I (lo..hi)  -- a value range applied to a shared referenced type
            if 'INTEGER' in ctx.by_text:
                name = ctx.by_text['INTEGER']
            else:
                name = ctx.fresh('I')
                ctx.by_text['INTEGER'] = name
                ctx.defs.append('%s ::= INTEGER' % name)
            ctx.flags.add('range-on-reference')
            return _type_text(t, ind, ctx).replace('INTEGER', name, 1)
        body = type_text(t, 1, _NoHoist(ctx))
        if body in ctx.by_text:
            ctx.flags.add('shared-type-reference')
            return ctx.by_text[body]
        name = ctx.fresh('T')
        ctx.by_text[body] = name
        ctx.defs.append('%s ::= %s' % (name, body))
        ctx.flags.add('type-reference')
        return name
    return _type_text(t, ind, ctx)


class _NoHoist:
    """wrapper that forbids hoisting the node itself (but allows hoisting below it)"""

    def __init__(self, ctx):
        self.ctx = ctx


def _type_text(t, ind, ctx):
    if isinstance(ctx, _NoHoist):
        ctx = ctx.ctx
    k = t['k']
    pad = '  ' * ind
    if k == 'bool':
        return 'BOOLEAN'
    if k == 'null':
        return 'NULL'
    if k == 'int' and t.get('serial') and ctx is not None:
        # serial constraint: P ::= INTEGER (lo..hi) ;  use  P (lo2..hi2, ...)  -- the parent's range still applies
        body = 'INTEGER (%d..%d)' % (t['lo'], t['hi'])
        if body in ctx.by_text:
            name = ctx.by_text[body]
        else:
            name = ctx.fresh('P')
            ctx.by_text[body] = name
            ctx.defs.append('%s ::= %s' % (name, body))
        ctx.flags.add('serial-constraint')
        return '%s (%d..%d, ...)' % ((name,) + tuple(t['serial']))
    if k == 'int':
        if not t['con']:
            return 'INTEGER'
        lo = 'MIN' if t['lo'] is None else str(t['lo'])
        hi = 'MAX' if t['hi'] is None else str(t['hi'])
        if ctx is not None:
            lo = ctx.bound(t['lo']) or lo
            hi = ctx.bound(t['hi']) or hi
        extra = ', %d..%d' % t['ext_range'] if t.get('ext_range') else ''
        return 'INTEGER (%s..%s%s%s)' % (lo, hi, ', ...' if t['ext'] else '', extra)
    if k == 'enum':
        items = ['%s(%d)' % nv for nv in t['root']]
        if t['ext'] is not None:
            items.append('...')
            items += ['%s(%d)' % nv for nv in t['ext']]
        return 'ENUMERATED { %s }' % ', '.join(items)
    if k == 'octs':
        return 'OCTET STRING' + size_text(t['size'])
    if k == 'bits':
        return 'BIT STRING' + size_text(t['size'])
    if k == 'str':
        return t['kind'] + size_text(t['size'])
    if k == 'real':
        return 'REAL'
    if k == 'oid':
        return 'OBJECT IDENTIFIER'
    if k == 'setof':
        return 'SET%s OF %s' % (size_text(t['size']), type_text(t['elem'], ind + 1, ctx))
    if k == 'set':
        items = [member_text(m, ind + 1, ctx) for m in t['root']]
        if not items:
            return 'SET { }'
        return 'SET {\n' + ',\n'.join(pad + '  ' + i for i in items) + '\n' + pad + '}'
    if k == 'seqof':
        return 'SEQUENCE%s OF %s' % (size_text(t['size']), type_text(t['elem'], ind + 1, ctx))
    if k == 'seq':
        items = [member_text(m, ind + 1, ctx) for m in t['root']]
        if t['ext'] is not None:
            items.append('...')
            items += grouped([member_text(m, ind + 1, ctx) for m in t['ext']], t.get('groups'))
        if not items:
            return 'SEQUENCE { }'
        return 'SEQUENCE {\n' + ',\n'.join(pad + '  ' + i for i in items) + '\n' + pad + '}'
    if k == 'choice':
        def alt_text(n, at):
            return '%s %s%s' % (n, tag_text(at['alt_tag']) if at.get('alt_tag') else '', type_text(at, ind + 1, ctx))
        items = [alt_text(n, at) for n, at in t['root']]
        if t['ext'] is not None:
            items.append('...')
            items += grouped([alt_text(n, at) for n, at in t['ext']], t.get('groups'))
        return 'CHOICE {\n' + ',\n'.join(pad + '  ' + i for i in items) + '\n' + pad + '}'
    raise ValueError(k)


def tag_text(tag):
    """tag = (class, number, mode) with class in ('', 'APPLICATION', 'PRIVATE', 'UNIVERSAL'), mode in ('', 'IMPLICIT', 'EXPLICIT')"""
    cls, num, mode = tag
    return '[%s%d] %s' % (cls + ' ' if cls else '', num, mode + ' ' if mode else '')


def grouped(items, groups):
    """wrap the runs items[i:j] for (i, j) in groups (disjoint, ascending) in version brackets [[ ... ]]"""
    if not groups:
        return items
    out, pos = [], 0
    for i, j in groups:
        out += items[pos:i]
        out.append('[[ ' + ', '.join(x.strip() for x in items[i:j]) + ' ]]')
        pos = j
    return out + items[pos:]


def member_text(m, ind, ctx=None):
    s = '%s %s%s' % (m['name'], tag_text(m['tag']) if m.get('tag') else '', type_text(m['t'], ind, ctx, member_pos=True))
    if m['opt']:
        s += ' OPTIONAL'
    elif m['default'] is not None:
        s += ' DEFAULT ' + default_text(m['t'], m['default'])
    return s


def module_text(types, name='M', tags='AUTOMATIC TAGS', ctx=None, split=False, lib_first=None, ext_implied=False):
    """types: list of (TypeName, type); with a RefCtx the types are rendered reorganised
    (hoisted sub-types, value references) and the helper assignments are appended.
    split=True puts the helper assignments into a second module `<name>Lib` and IMPORTS them."""
    parts = ['%s ::= %s\n' % (n, type_text(t, 1, _NoHoist(ctx) if ctx is not None else None)) for n, t in types]
    header = '%s DEFINITIONS %s%s ::= BEGIN\n\n' % (name, tags, ' EXTENSIBILITY IMPLIED' if ext_implied else '')
    if ctx is not None and split and ctx.defs:
        extra = list(ctx.defs)
        ctx.rng.shuffle(extra)
        names = [d.split(' ')[0] for d in extra]
        # helper assignments may reference each other: they all live in the library module
        lib = '%sLib DEFINITIONS %s%s ::= BEGIN\n\n%s\nEND\n' % (name, tags, ' EXTENSIBILITY IMPLIED' if ext_implied else '',
                                                                 '\n'.join(d + '\n' for d in extra))
        main = header + 'IMPORTS %s FROM %sLib;\n\n' % (', '.join(names), name) + '\n'.join(parts) + '\nEND\n'
        first = ctx.rng.random() < 0.5 if lib_first is None else lib_first
        ctx.flags.add('split-modules')
        return (lib + '\n' + main) if first else (main + '\n' + lib)
    if ctx is not None:
        extra = list(ctx.defs)
        ctx.rng.shuffle(extra)
        k = ctx.rng.randint(0, len(extra))
        parts = [d + '\n' for d in extra[:k]] + parts + [d + '\n' for d in extra[k:]]
    body = '\n'.join(parts)
    return header + '%s\nEND\n' % body


# ---------------------------------------------------------------------- rendering: model S-expressions
def sx_size(s):
    if s is None:
        return '0 max F'
    lo, hi, ext = s
    return '%d %s %s' % (lo, 'max' if hi is None else hi, 'T' if ext else 'F')


class Unmodelled(Exception):
    pass


def is_modelled(t):
    """is the type inside the universe of the Lean models (Schema.lean)"""
    k = t['k']
    if k in ('real', 'oid', 'set', 'setof') or t.get('serial') or t.get('groups'):
        return False
    if k == 'seqof':
        return is_modelled(t['elem'])
    if k == 'seq':
        return all(is_modelled(m['t']) for m in t['root'] + (t['ext'] or []))
    if k == 'choice':
        return all(is_modelled(at) for _, at in t['root'] + (t['ext'] or []))
    return True


def ty_sx(t):
    k = t['k']
    if k in ('real', 'oid', 'set', 'setof'):
        raise Unmodelled(k)
    if k == 'bool':
        return 'bool'
    if k == 'null':
        return 'null'
    if k == 'int':
        return '(int %s %s %s)' % ('min' if t['lo'] is None else t['lo'], 'max' if t['hi'] is None else t['hi'],
                                   'T' if t['ext'] else 'F')
    if k == 'enum':
        root = '(' + ' '.join('(%s %d)' % nv for nv in t['root']) + ')'
        ext = 'none' if t['ext'] is None else '(' + ' '.join('(%s %d)' % nv for nv in t['ext']) + ')'
        return '(enum %s %s)' % (root, ext)
    if k == 'octs':
        return '(octs %s)' % sx_size(t['size'])
    if k == 'bits':
        return '(bits %s)' % sx_size(t['size'])
    if k == 'str':
        return '(str %s %s)' % (STR_KINDS[t['kind']], sx_size(t['size']))
    if k == 'seqof':
        return '(seqof %s %s)' % (ty_sx(t['elem']), sx_size(t['size']))
    if k == 'seq':
        root = '(' + ' '.join(member_sx(m) for m in t['root']) + ')'
        ext = 'none' if t['ext'] is None else '(' + ' '.join(member_sx(m) for m in t['ext']) + ')'
        return '(seq %s %s)' % (root, ext)
    if k == 'choice':
        root = '(' + ' '.join('(%s %s)' % (n, ty_sx(at)) for n, at in t['root']) + ')'
        ext = 'none' if t['ext'] is None else '(' + ' '.join('(%s %s)' % (n, ty_sx(at)) for n, at in t['ext']) + ')'
        return '(choice %s %s)' % (root, ext)
    raise ValueError(k)


def member_sx(m):
    if m['opt']:
        p = 'opt'
    elif m['default'] is not None:
        p = '(def %s)' % val_sx(m['t'], m['default'])
    else:
        p = 'man'
    return '(%s %s %s)' % (m['name'], ty_sx(m['t']), p)


def val_sx(t, v):
    """Python value (asn1tools shape) -> S-expression, directed by the type."""
    k = t['k']
    if v is None and k != 'null':
        return 'none'
    if k == 'bool':
        return 'T' if v else 'F'
    if k == 'null':
        return 'N'
    if k == 'int':
        return '(i %d)' % v
    if k == 'enum':
        return '(e %s)' % v
    if k == 'octs':
        return '(o %s)' % (bytes(v).hex() or '-')
    if k == 'bits':
        return '(b %s %d)' % (bytes(v[0]).hex() or '-', v[1])
    if k == 'str':
        return '(s' + ''.join(' %d' % ord(c) for c in v) + ')'
    if k == 'seqof':
        return '(lst' + ''.join(' ' + val_sx(t['elem'], e) for e in v) + ')'
    if k == 'seq':
        parts = []
        members = t['root'] + (t['ext'] or [])
        for m in members:
            if m['name'] in v:
                parts.append('(%s %s)' % (m['name'], val_sx(m['t'], v[m['name']])))
        return '(rec' + ''.join(' ' + p for p in parts) + ')'
    if k == 'choice':
        n, inner = v
        if n is None:
            return '(ch none none)'
        for an, at in t['root'] + (t['ext'] or []):
            if an == n:
                return '(ch %s %s)' % (n, val_sx(at, inner))
        return '(ch %s ?)' % n
    raise ValueError(k)


def canon_py(t, v):
    """Canonical comparable form of a Python value of type t (DEFAULT members filled in,
    bit strings with unused bits cleared, bytearray -> bytes)."""
    k = t['k']
    if v is None:
        return None
    if k in ('bool', 'int', 'enum', 'str', 'null', 'oid'):
        return v
    if k == 'real':
        return ('real', float(v).hex())
    if k == 'setof':
        return sorted((canon_py(t['elem'], e) for e in v), key=repr)
    if k == 'set':
        return canon_py(dict(t, k='seq'), v)
    if k == 'octs':
        return bytes(v)
    if k == 'bits':
        data, n = v
        data = bytearray(data[:(n + 7) // 8])
        if n % 8 and data:
            data[-1] &= (0xff << (8 - n % 8)) & 0xff
        return (bytes(data), n)
    if k == 'seqof':
        return [canon_py(t['elem'], e) for e in v]
    if k == 'seq':
        d = {}
        for m in t['root'] + (t['ext'] or []):
            if m['name'] in v:
                d[m['name']] = canon_py(m['t'], v[m['name']])
            elif m['default'] is not None:      # absent DEFAULT component == its default (root and additions)
                d[m['name']] = canon_py(m['t'], m['default'])
        return d
    if k == 'choice':
        n, inner = v
        for an, at in t['root'] + (t['ext'] or []):
            if an == n:
                return (n, canon_py(at, inner))
        return (n, inner)
    raise ValueError(k)


def features(t, acc=None):
    """histogram of constructors / constraint shapes used by a type"""
    acc = acc if acc is not None else {}

    def bump(k):
        acc[k] = acc.get(k, 0) + 1
    k = t['k']
    bump(k)
    if k == 'int':
        if t['ext']:
            bump('int.ext')
        if t['lo'] is None or t['hi'] is None:
            bump('int.semi' if t['con'] else 'int.unconstrained')
    if k in ('octs', 'bits', 'str', 'seqof', 'setof') and t['size']:
        bump(k + '.size' + ('.ext' if t['size'][2] else ''))
    if k in ('seqof', 'setof'):
        features(t['elem'], acc)
    if k in ('seq', 'set'):
        if t['ext'] is not None:
            bump('seq.ext')
        for m in t['root'] + (t['ext'] or []):
            if m['opt']:
                bump('member.optional')
            if m['default'] is not None:
                bump('member.default')
            features(m['t'], acc)
    if k == 'choice':
        if t['ext'] is not None:
            bump('choice.ext')
        for _, at in t['root'] + (t['ext'] or []):
            features(at, acc)
    return acc


def boundary_cases(rng):
    """Deterministic-shape cases at the thresholds the codecs branch on (run by every codec property in addition to
    the random ones): numbers of extension additions around 7/8/9, 16, 63/64/65; range widths 1..2^64; sizes and
    lengths around 127/128, 255/256 and the 16K fragmentation boundary; CHOICE / ENUMERATED with 1, 2, 3 and many items."""
    out = []

    def intt(lo, hi, ext=False):
        return {'k': 'int', 'lo': lo, 'hi': hi, 'ext': ext, 'con': True}
    for n in (1, 7, 8, 9, 16, 17, 63, 64, 65):
        ext = [{'name': 'x%d' % i, 't': ({'k': 'bool'} if i % 3 else intt(0, 255)), 'opt': True, 'default': None} for i in range(n)]
        t = {'k': 'seq', 'root': [{'name': 'a', 't': {'k': 'bool'}, 'opt': False, 'default': None}], 'ext': ext}
        vals = []
        for pick in ([0], [n - 1], [0, n - 1], list(range(n)), [rng.randrange(n) for _ in range(3)]):
            v = {'a': True}
            for i in set(pick):
                v['x%d' % i] = (i % 2 == 0) if i % 3 else (i * 7) % 256
            vals.append(v)
        vals.append({'a': False})
        out.append((t, vals))
        # the same sequence nested as an addition of another sequence, followed by more data
        outer = {'k': 'seq', 'root': [{'name': 'h', 't': intt(0, 7), 'opt': False, 'default': None}],
                 'ext': [{'name': 'n', 't': t, 'opt': True, 'default': None}, {'name': 'tail', 't': intt(0, 65535), 'opt': True, 'default': None}]}
        out.append((outer, [{'h': 5, 'n': vals[0], 'tail': 4660}, {'h': 1, 'n': vals[3]}, {'h': 0, 'tail': 1}]))
    for w in RANGE_WIDTHS:
        for lo in (0, -1, 5, -2 ** 31):
            t = intt(lo, lo + w - 1)
            inner = [lo + d for d in (127, 128, 255, 256, 32767, 32768, 65535, 2 ** 31, 2 ** 32 - 1, 2 ** 63 - 1, 2 ** 63, 2 ** 64 - 1) if d < w]
            out.append((t, [lo, lo + w - 1, lo + (w - 1) // 2] + [x for x in (0, 200, -1, -129, 2 ** 63 + 1) if lo <= x < lo + w][:2] + inner[-3:]))
            out.append((intt(lo, lo + w - 1, True), [lo, lo + w - 1, lo - 1, lo + w, lo + w + 70000]))
    for kind in ('octs', 'bits'):
        for size in (None, (0, 127, False), (0, 128, False), (1, 255, False), (0, 256, False), (3, 3, False), (0, 65535, False), (0, 65536, False), (1, 4, True), (17, 17, False)):
            t = {'k': kind, 'size': size}
            lens = [l for l in (0, 1, 3, 4, 17, 127, 128, 129, 255, 256, 16383, 16384, 16385) if size is None or (size[0] <= l <= (size[1] if size[1] is not None else l))][:7]
            vals = []
            for l in lens:
                if kind == 'octs':
                    vals.append(bytes((i * 37 + l) % 256 for i in range(l)))
                else:
                    nb = (l + 7) // 8
                    data = bytearray((i * 53 + 1) % 256 for i in range(nb))
                    if l % 8 and nb:
                        data[-1] &= (0xff << (8 - l % 8)) & 0xff
                    vals.append((bytes(data), l))
            if vals:
                out.append((t, vals))
    for n in (1, 2, 3, 4, 5, 8, 9, 16, 17):
        root = [('e%d' % i, i * 3 - 2) for i in range(n)]
        out.append(({'k': 'enum', 'root': root, 'ext': None}, [root[0][0], root[-1][0]]))
        out.append(({'k': 'enum', 'root': root, 'ext': [('z%d' % i, 100 + i) for i in range(n)]}, [root[-1][0], 'z0', 'z%d' % (n - 1)]))
        alts = [('c%d' % i, ({'k': 'bool'} if i % 2 else intt(0, 3))) for i in range(n)]
        cv = lambda name, ty: (name, True if ty['k'] == 'bool' else 2)
        out.append(({'k': 'choice', 'root': alts, 'ext': None}, [cv(*alts[0]), cv(*alts[-1])]))
        out.append(({'k': 'choice', 'root': alts, 'ext': [('d%d' % i, {'k': 'octs', 'size': None}) for i in range(2)]},
                    [cv(*alts[-1]), ('d0', b''), ('d1', b'\x01' * 130)]))
    for kind in ('IA5String', 'NumericString', 'UTF8String', 'VisibleString', 'PrintableString'):
        for size in (None, (0, 2, False), (1, 1, False), (2, 2, False), (0, 127, False), (5, 5, False)):
            t = {'k': 'str', 'kind': kind, 'size': size}
            a = ALPHABETS[kind]
            lens = [l for l in (0, 1, 2, 5, 127, 128) if size is None or size[0] <= l <= size[1]][:4]
            if lens:
                out.append((t, [''.join(a[(i * 7 + l) % len(a)] for i in range(l)) for l in lens]))
    for size in (None, (0, 3, False), (2, 2, False), (1, 2, True)):
        for elem in ({'k': 'bool'}, {'k': 'null'}, intt(0, 7)):
            t = {'k': 'seqof', 'elem': elem, 'size': size}
            mk = lambda i: (i % 2 == 0) if elem['k'] == 'bool' else (None if elem['k'] == 'null' else i % 8)
            lens = [l for l in (0, 1, 2, 3, 5, 1362, 16384) if size is None or size[2] or size[0] <= l <= size[1]][:5]
            out.append((t, [[mk(i) for i in range(l)] for l in lens]))
    return out


def gen_module_text(rng):
    """A random small module as text (used by C14)."""
    g = Gen(rng, Opts(max_depth=2))
    types = [('T%d' % i, g.type()) for i in range(rng.randint(1, 4))]
    return module_text(types)
