"""Calls the real asn1tools (editable install => /repo working tree) in-process and canonicalises results."""
import asn1tools

from . import core

_cache = {}


def compile_text(text, codec, **kw):
    key = (text, codec, tuple(sorted(kw.items())))
    if key not in _cache:
        if len(_cache) > 400:
            _cache.clear()
        try:
            _cache[key] = ('ok', asn1tools.compile_string(text, codec, **kw))
        except asn1tools.CompileError as e:
            _cache[key] = ('CompileError', str(e))
        except asn1tools.ParseError as e:
            _cache[key] = ('ParseError', str(e))
        except Exception as e:
            _cache[key] = ('Foreign:' + type(e).__name__, str(e))
    return _cache[key]


def classify(e):
    if isinstance(e, asn1tools.ConstraintsError):
        return 'ConstraintsError'
    if isinstance(e, asn1tools.EncodeError):
        return 'EncodeError'
    if isinstance(e, asn1tools.DecodeError):
        return 'DecodeError'
    if isinstance(e, NotImplementedError):
        return 'NotImplementedError'
    if isinstance(e, core.Timeout):
        return 'Timeout'
    return 'Foreign:' + type(e).__name__


def encode(spec, name, value, limit=10, **kw):
    try:
        with core.time_limit(limit):
            return ('ok', bytes(spec.encode(name, value, **kw)))
    except RecursionError as e:
        return ('err', 'Foreign:RecursionError', '')
    except BaseException as e:
        if isinstance(e, (KeyboardInterrupt, SystemExit)):
            raise
        return ('err', classify(e), str(e)[:200])


def decode(spec, name, data, limit=10, **kw):
    try:
        with core.time_limit(limit):
            return ('ok', spec.decode(name, data, **kw))
    except BaseException as e:
        if isinstance(e, (KeyboardInterrupt, SystemExit)):
            raise
        return ('err', classify(e), str(e)[:200])
