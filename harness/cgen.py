"""C09 / C10 — shared machinery: generated C code (asn1tools.source.c) against the Python UPER / OER codecs.

What is here
  * a small AST for the documented C subset, rendered to ASN.1 text (several modules, IMPORTS);
  * a seeded generator of such modules (boundary ranges / sizes / counts) and of values (boundary biased,
    every CHOICE alternative, presence patterns, DEFAULT-equal / DEFAULT-different);
  * a parser of the GENERATED HEADER (structs, unions, enums): every field the test driver touches is looked up
    in the parsed header (name, C type, array size) — naming conventions are never trusted blindly;
  * a generator of a C test driver per translation unit (type-directed `fill_*` / `dump_*` functions and a
    command loop: E encode exact size, S encode every smaller size, D decode + dump, P decode every strict prefix,
    R decode arbitrary bytes + re-encode + re-decode) — all buffers are exact-size mallocs;
  * build with gcc (-O2 -Wall -Wextra) and clang (ASan+UBSan), run both, evaluate against the Python codec.
"""
import os
import random
import re
import shutil
import struct
import subprocess
import tempfile

from . import core

# --------------------------------------------------------------------------------------------------------------
# naming conventions of asn1tools/source/c/utils.py (re-stated here; every name derived from them is confirmed
# in the parsed header before it is used)


def canonical(value):
    return re.sub(r'[^a-zA-Z0-9]', '_', value)


def snake(value):
    value = re.sub(r'(.)([A-Z][a-z]+)', r'\1_\2', value)
    value = re.sub(r'(_+)', '_', value)
    value = re.sub(r'([a-z0-9])([A-Z])', r'\1_\2', value).lower()
    return canonical(value)


INT_TYPES = {'uint8_t': (0, 2 ** 8 - 1), 'uint16_t': (0, 2 ** 16 - 1), 'uint32_t': (0, 2 ** 32 - 1), 'uint64_t': (0, 2 ** 64 - 1),
             'int8_t': (-2 ** 7, 2 ** 7 - 1), 'int16_t': (-2 ** 15, 2 ** 15 - 1), 'int32_t': (-2 ** 31, 2 ** 31 - 1),
             'int64_t': (-2 ** 63, 2 ** 63 - 1)}

# --------------------------------------------------------------------------------------------------------------
# AST


def T(k, **kw):
    d = {'k': k}
    d.update(kw)
    return d


def member(name, t, opt=False, default=None):
    return {'name': name, 't': t, 'opt': opt, 'default': default}


class Env:
    """the module set: [(module name, [(type name, type)])]"""

    def __init__(self, modules):
        self.modules = modules
        self.types = {}
        for mn, types in modules:
            for tn, t in types:
                self.types[(mn, tn)] = t

    def deref(self, t):
        seen = 0
        while t['k'] == 'ref':
            t = self.types[(t['module'], t['name'])]
            seen += 1
            if seen > 50:
                raise ValueError('reference cycle')
        return t

    def top_types(self):
        return [(mn, tn, t) for mn, types in self.modules for tn, t in types]


REAL32 = 'REAL (WITH COMPONENTS { mantissa (-16777215..16777215), base (2), exponent (-149..104) })'
REAL64 = 'REAL (WITH COMPONENTS { mantissa (-9007199254740991..9007199254740991), base (2), exponent (-1074..971) })'


def default_text(env, t, v):
    r = env.deref(t)
    k = r['k']
    if k == 'int':
        return str(v)
    if k == 'bool':
        return 'TRUE' if v else 'FALSE'
    if k == 'enum':
        return v
    if k == 'octs':
        return "'%s'H" % v.hex().upper()
    if k == 'null':
        return 'NULL'
    if k == 'bits':
        data, n = v
        return "'%s'B" % bin(int.from_bytes(data, 'big') >> (8 * len(data) - n))[2:].zfill(n) if n else "''B"
    if k == 'real':
        return repr(float(v))
    if k == 'seq':
        return '{ %s }' % ', '.join('%s %s' % (m['name'], default_text(env, m['t'], v[m['name']])) for m in r['members'] if m['name'] in v)
    raise ValueError('no default text for ' + k)


def type_text(env, t, ind=1):
    k = t['k']
    pad = '  ' * ind
    if k == 'int':
        if t.get('lo') is None and t.get('hi') is None:
            return 'INTEGER'
        return 'INTEGER (%s..%s%s)' % ('MIN' if t['lo'] is None else t['lo'], 'MAX' if t['hi'] is None else t['hi'],
                                       ', ...' if t.get('ext') else '')
    if k == 'bool':
        return 'BOOLEAN'
    if k == 'null':
        return 'NULL'
    if k == 'real':
        return {'f': REAL32, 'd': REAL64, None: 'REAL'}[t.get('fmt')]
    if k == 'octs':
        if t.get('hi') is None:
            return 'OCTET STRING' if t.get('lo') is None else 'OCTET STRING (SIZE(%d..MAX))' % t['lo']
        if t['lo'] == t['hi'] and not t.get('as_range'):
            return 'OCTET STRING (SIZE(%d%s))' % (t['lo'], ', ...' if t.get('ext') else '')
        return 'OCTET STRING (SIZE(%d..%d%s))' % (t['lo'], t['hi'], ', ...' if t.get('ext') else '')
    if k == 'bits':
        named = ''
        if t.get('named'):
            named = ' { %s }' % ', '.join('%s(%d)' % nb for nb in t['named'])
        if t.get('n') is None:
            return 'BIT STRING' + named
        if t.get('lo') is not None:
            return 'BIT STRING%s (SIZE(%d..%d))' % (named, t['lo'], t['n'])
        return 'BIT STRING%s (SIZE(%d))' % (named, t['n'])
    if k == 'enum':
        items = ['%s(%d)' % (n, v) if t.get('explicit') else n for n, v in t['items']]
        if t.get('ext') is not None and t.get('ext') is not False:
            items.append('...')
            if isinstance(t['ext'], list):
                items += ['%s(%d)' % (n, v) if t.get('explicit') else n for n, v in t['ext']]
        return 'ENUMERATED { %s }' % ', '.join(items)
    if k == 'seq' or k == 'set':
        lines = []
        for m in t['members']:
            lines.append(pad + '  ' + member_text(env, m, ind + 1))
        if t.get('ext') is not None:
            lines.append(pad + '  ...')
            if t.get('group') and t['ext']:      # all additions written as one addition group (the codecs flatten groups)
                lines.append(pad + '  [[ ' + ', '.join(member_text(env, g, ind + 1) for g in t['ext']) + ' ]]')
            else:
                for m in t['ext']:
                    lines.append(pad + '  ' + member_text(env, m, ind + 1))
        kw = 'SEQUENCE' if k == 'seq' else 'SET'
        if not lines:
            return kw + ' { }'
        return kw + ' {\n' + ',\n'.join(lines) + '\n' + pad + '}'
    if k == 'seqof' or k == 'setof':
        kw = 'SEQUENCE' if k == 'seqof' else 'SET'
        if t.get('hi') is None:
            return '%s OF %s' % (kw, type_text(env, t['elem'], ind))
        size = '%d' % t['lo'] if t['lo'] == t['hi'] else '%d..%d' % (t['lo'], t['hi'])
        return '%s (SIZE(%s%s)) OF %s' % (kw, size, ', ...' if t.get('ext') else '', type_text(env, t['elem'], ind))
    if k == 'choice':
        lines = [pad + '  %s %s%s' % (n, a.get('tag', '') + ' ' if a.get('tag') else '', type_text(env, a, ind + 1)) for n, a in t['alts']]
        if t.get('ext') is not None and t.get('ext') is not False:
            lines.append(pad + '  ...')
            if isinstance(t['ext'], list):
                lines += [pad + '  %s %s' % (n, type_text(env, a, ind + 1)) for n, a in t['ext']]
        return 'CHOICE {\n' + ',\n'.join(lines) + '\n' + pad + '}'
    if k == 'ref':
        return t['name']
    if k == 'raw':
        return t['text']
    raise ValueError(k)


def member_text(env, m, ind):
    s = '%s %s%s' % (m['name'], m['t'].get('tag', '') + ' ' if m['t'].get('tag') else '', type_text(env, m['t'], ind))
    if m['opt']:
        s += ' OPTIONAL'
    elif m['default'] is not None:
        s += ' DEFAULT ' + default_text(env, m['t'], m['default'])
    return s


def refs_of(t, acc):
    k = t['k']
    if k == 'ref':
        acc.add((t['module'], t['name']))
    elif k in ('seq', 'set'):
        for m in t['members'] + [x for x in (t.get('ext') or []) if not isinstance(x, list)]:
            refs_of(m['t'], acc)
        for g in [x for x in (t.get('ext') or []) if isinstance(x, list)]:
            for m in g:
                refs_of(m['t'], acc)
    elif k in ('seqof', 'setof'):
        refs_of(t['elem'], acc)
    elif k == 'choice':
        for n, a in t['alts'] + (t['ext'] if isinstance(t.get('ext'), list) else []):
            refs_of(a, acc)
    return acc


def modules_text(env, tags='AUTOMATIC TAGS'):
    out = []
    for mn, types in env.modules:
        imports = {}
        for tn, t in types:
            for (m2, n2) in refs_of(t, set()):
                if m2 != mn:
                    imports.setdefault(m2, set()).add(n2)
        lines = ['%s DEFINITIONS %s ::= BEGIN' % (mn, tags)]
        if imports:
            lines.append('IMPORTS ' + ' '.join('%s FROM %s' % (', '.join(sorted(ns)), m2) for m2, ns in sorted(imports.items())) + ';')
        for tn, t in types:
            lines.append('%s ::= %s' % (tn, type_text(env, t, 0)))
        lines.append('END')
        out.append('\n'.join(lines))
    return '\n'.join(out) + '\n'


# --------------------------------------------------------------------------------------------------------------
# header parser


class Node:
    def __init__(self, kind, ctype=None, array=None):
        self.kind = kind          # scalar | struct | union | enum | ref
        self.ctype = ctype
        self.array = array
        self.fields = {}

    def __repr__(self):
        return 'Node(%s,%s,%s,%s)' % (self.kind, self.ctype, self.array, list(self.fields))


class HeaderError(Exception):
    pass


class Header:
    """structs / enums declared by the generated header"""

    def __init__(self, text):
        self.structs = {}
        self.enums = {}        # enum tag -> [(constant, value)]
        self.consts = {}       # static const NAME -> (ctype, value)
        self.functions = set()
        text = re.sub(r'/\*.*?\*/', ' ', text, flags=re.S)
        text = '\n'.join(l for l in text.split('\n') if not l.lstrip().startswith('#'))
        self.toks = re.findall(r'[A-Za-z_][A-Za-z0-9_]*|-?0[xX][0-9a-fA-F]+|-?\d+|[{}\[\];,=()*]', text)
        self.pos = 0
        self.parse()

    def peek(self, k=0):
        return self.toks[self.pos + k] if self.pos + k < len(self.toks) else None

    def take(self, expect=None):
        t = self.peek()
        if t is None or (expect is not None and t != expect):
            raise HeaderError('header: expected %r, found %r at token %d' % (expect, t, self.pos))
        self.pos += 1
        return t

    def parse(self):
        while self.peek() is not None:
            t = self.peek()
            if t == 'enum' and self.peek(2) == '{':
                self.take()
                tag = self.take()
                self.enums[tag] = self.enum_body()
                self.take(';')
            elif t == 'struct' and self.peek(2) == '{':
                self.take()
                tag = self.take()
                n = Node('struct', 'struct ' + tag)
                self.members(n)
                self.take(';')
                self.structs[tag] = n
            elif t == 'static' and self.peek(1) == 'const':
                self.take()
                self.take()
                ctype = self.take()
                name = self.take()
                self.take('=')
                val = self.take()
                self.take(';')
                self.consts[name] = (ctype, int(val, 0))
            else:
                # function declaration: skip to ';', remember the name before '('
                start = self.pos
                while self.peek() is not None and self.peek() != ';':
                    if self.peek() == '(' and self.pos > start and not self.functions.__contains__(None):
                        name = self.toks[self.pos - 1]
                        if re.match(r'[A-Za-z_]', name):
                            self.functions.add(name)
                        # skip parameter list
                        depth = 0
                        while True:
                            x = self.take()
                            if x == '(':
                                depth += 1
                            elif x == ')':
                                depth -= 1
                                if depth == 0:
                                    break
                        continue
                    self.take()
                self.take(';')

    def enum_body(self):
        self.take('{')
        items = []
        nxt = 0
        while self.peek() != '}':
            name = self.take()
            if self.peek() == '=':
                self.take()
                nxt = int(self.take(), 0)
            items.append((name, nxt))
            nxt += 1
            if self.peek() == ',':
                self.take()
        self.take('}')
        return items

    def members(self, parent):
        self.take('{')
        while self.peek() != '}':
            t = self.take()
            if t in ('struct', 'union'):
                if self.peek() == '{':
                    n = Node(t, t + ' {anonymous}')
                    self.members(n)
                else:
                    tag = self.take()
                    n = Node('ref', tag)
            elif t == 'enum':
                n = Node('enum', 'enum ' + self.take())
            else:
                n = Node('scalar', t)
            name = self.take()
            if self.peek() == '[':
                self.take()
                n.array = int(self.take(), 0)
                self.take(']')
            self.take(';')
            if name in parent.fields:
                raise HeaderError('header: duplicate member %s' % name)
            parent.fields[name] = n
        self.take('}')

    def resolve(self, node):
        if node.kind == 'ref':
            if node.ctype not in self.structs:
                raise HeaderError('header: struct %s referenced but not declared' % node.ctype)
            return self.structs[node.ctype]
        return node


# --------------------------------------------------------------------------------------------------------------
# driver generation

DRIVER_PRELUDE = r'''
#define _POSIX_C_SOURCE 200809L
#include <stdio.h>
#include <stdlib.h>
#include <string.h>
#include <stdint.h>
#include <stdbool.h>
#include <inttypes.h>
#include "%(header)s"

static char *cur;
static int overlen;

static char *tk(void)
{
    char *s;
    while (*cur == ' ') cur++;
    if (*cur == '\0' || *cur == '\n') { fprintf(stderr, "driver: out of tokens\n"); exit(3); }
    s = cur;
    while (*cur != ' ' && *cur != '\0' && *cur != '\n') cur++;
    if (*cur != '\0') { *cur = '\0'; cur++; }
    return s;
}
static int more(void) { while (*cur == ' ') cur++; return *cur != '\0' && *cur != '\n'; }
static long long tk_i(void) { return strtoll(tk(), NULL, 10); }
static unsigned long long tk_u(void) { return strtoull(tk(), NULL, 10); }
static int hexval(int c)
{
    if (c >= '0' && c <= '9') return c - '0';
    if (c >= 'a' && c <= 'f') return c - 'a' + 10;
    return c - 'A' + 10;
}
/* reads a hex token ('-' = empty) into dst (at most cap octets are stored); returns the number of octets of the token */
static size_t tk_hex(uint8_t *dst, size_t cap)
{
    char *s = tk();
    size_t n, i;
    if (s[0] == '-') return 0;
    n = strlen(s) / 2;
    for (i = 0; i < n && i < cap; i++) dst[i] = (uint8_t)(hexval(s[2 * i]) * 16 + hexval(s[2 * i + 1]));
    return n;
}
/* exact-size heap copy of a hex token */
static uint8_t *tk_hex_alloc(size_t *size_p)
{
    char *s = tk();
    size_t n, i;
    uint8_t *p;
    if (s[0] == '-') { *size_p = 0; return malloc(0); }
    n = strlen(s) / 2;
    p = malloc(n);
    for (i = 0; i < n; i++) p[i] = (uint8_t)(hexval(s[2 * i]) * 16 + hexval(s[2 * i + 1]));
    *size_p = n;
    return p;
}
static void pr_i(long long v) { printf(" %lld", v); }
static void pr_u(unsigned long long v) { printf(" %llu", v); }
static void pr_s(const char *s) { printf(" %s", s); }
static void pr_hex(const uint8_t *p, size_t n)
{
    size_t i;
    if (n == 0) { printf(" -"); return; }
    printf(" ");
    for (i = 0; i < n; i++) printf("%02x", p[i]);
}
'''

DRIVER_MAIN = r'''
static void *fresh(size_t n)
{
    void *p = malloc(n);
    memset(p, 0xa5, n);
    return p;
}

static void run_line(void)
{
    char *cmd = tk();
    int idx = (int)tk_i();
    const struct type_ops *o;
    void *v, *v2;
    uint8_t *buf, *buf2;
    size_t size, n, k;
    ssize_t r, r2, r3;
    if (idx < 0 || idx >= NTYPES) { printf("bad-type\n"); return; }
    o = &types[idx];
    overlen = 0;
    switch (cmd[0]) {
    case 'E':   /* E idx size tokens... : encode into an exact-size buffer */
        size = (size_t)tk_u();
        v = fresh(o->size);
        o->fill(v);
        buf = fresh(size);
        r = o->encode(buf, size, v);
        printf("E %ld", (long)r);
        if (r >= 0 && (size_t)r <= size) pr_hex(buf, (size_t)r);
        printf("\n");
        free(buf); free(v);
        break;
    case 'S':   /* S idx len tokens... : encode into every exact-size buffer smaller than len */
        n = (size_t)tk_u();
        v = fresh(o->size);
        o->fill(v);
        printf("S");
        for (size = 0; size < n; size++) {
            buf = fresh(size);
            r = o->encode(buf, size, v);
            printf(" %ld", (long)r);
            free(buf);
        }
        printf("\n");
        free(v);
        break;
    case 'D':   /* D idx hex : decode an exact-size copy, dump */
        buf = tk_hex_alloc(&size);
        v = fresh(o->size);
        r = o->decode(v, buf, size);
        printf("D %ld", (long)r);
        if (r >= 0) { o->dump(v); if (overlen) pr_s("OVERLEN"); }
        printf("\n");
        free(buf); free(v);
        break;
    case 'P':   /* P idx hex : decode every strict prefix */
        buf = tk_hex_alloc(&size);
        printf("P");
        for (k = 0; k < size; k++) {
            buf2 = malloc(k);
            memcpy(buf2, buf, k);
            v = fresh(o->size);
            r = o->decode(v, buf2, k);
            printf(" %ld", (long)r);
            if (r >= 0) { pr_s("["); o->dump(v); pr_s("]"); }
            free(buf2); free(v);
        }
        printf("\n");
        free(buf);
        break;
    case 'R':   /* R idx hex : decode arbitrary bytes; if accepted re-encode (generous buffer) and re-decode */
        buf = tk_hex_alloc(&size);
        v = fresh(o->size);
        r = o->decode(v, buf, size);
        printf("R %ld", (long)r);
        if (r >= 0) {
            o->dump(v);
            if (overlen) { pr_s("OVERLEN"); }
            else {
                n = 8 * o->size + size + 1024;
                buf2 = fresh(n);
                r2 = o->encode(buf2, n, v);
                printf(" | %ld", (long)r2);
                if (r2 >= 0) {
                    pr_hex(buf2, (size_t)r2);
                    {
                        uint8_t *buf3 = malloc((size_t)r2);
                        memcpy(buf3, buf2, (size_t)r2);
                        v2 = fresh(o->size);
                        r3 = o->decode(v2, buf3, (size_t)r2);
                        printf(" | %ld", (long)r3);
                        if (r3 >= 0) o->dump(v2);
                        free(v2); free(buf3);
                    }
                }
                free(buf2);
            }
        }
        printf("\n");
        free(buf); free(v);
        break;
    default:
        printf("bad-command\n");
        break;
    }
    (void)more;
}

int main(void)
{
    char *line = NULL;
    size_t cap = 0;
    while (getline(&line, &cap, stdin) > 0) {
        cur = line;
        run_line();
        fflush(stdout);
    }
    free(line);
    return 0;
}
'''


class Unsupported(Exception):
    """the harness cannot drive this type (not a verdict about the generator)"""


class DriverGen:
    """Type-directed fill / dump functions for every top-level type of the module set, checked against the header."""

    def __init__(self, env, header, ns, codec):
        self.env = env
        self.h = header
        self.ns = ns
        self.codec = codec
        self.problems = []        # header does not match expectation: (path, what)
        self.narrow = []          # (path, ctype, lo, hi): INTEGER range not representable in the declared C type
        self.uid = 0

    def struct_name(self, mn, tn):
        return '%s_%s_%s_t' % (self.ns, snake(mn), snake(tn))

    def prefix(self, mn, tn):
        return '%s_%s_%s' % (self.ns, snake(mn), snake(tn))

    def field(self, node, name, path):
        node = self.h.resolve(node)
        if name not in node.fields:
            raise HeaderError('%s: member %r not declared in the generated header (has %s)' % (path, name, list(node.fields)[:12]))
        return node.fields[name]

    def expect(self, cond, path, what):
        if not cond:
            raise HeaderError('%s: %s' % (path, what))

    def var(self):
        self.uid += 1
        return 'i%d' % self.uid

    # fill / dump code for type t stored at lvalue lv whose header node is `node`
    def emit(self, t, lv, node, loc, path):
        """returns (fill_lines, dump_lines)"""
        k = t['k']
        env = self.env
        if k == 'ref':
            r = env.deref(t)
            if r['k'] in ('int', 'bool', 'real'):
                return self.emit(r, lv, node, loc, path)
            if r['k'] == 'null':
                return [], []
            sname = self.struct_name(t['module'], t['name'])
            self.expect(node.kind == 'ref' and node.ctype == sname, path, 'expected struct %s, header has %s %s' % (sname, node.kind, node.ctype))
            fn = '%s_%s' % (snake(t['module']), snake(t['name']))
            return ['fill_%s(&%s);' % (fn, lv)], ['dump_%s(&%s);' % (fn, lv)]
        if k == 'int':
            self.expect(node.kind == 'scalar' and node.ctype in INT_TYPES, path, 'expected an integer member, header has %s %s' % (node.kind, node.ctype))
            clo, chi = INT_TYPES[node.ctype]
            t['_ctype'] = node.ctype
            if t['lo'] < clo or t['hi'] > chi:
                self.narrow.append((path, node.ctype, t['lo'], t['hi']))
            if clo < 0:
                return ['%s = (%s)tk_i();' % (lv, node.ctype)], ['pr_i((long long)%s);' % lv]
            return ['%s = (%s)tk_u();' % (lv, node.ctype)], ['pr_u((unsigned long long)%s);' % lv]
        if k == 'bool':
            self.expect(node.kind == 'scalar' and node.ctype == 'bool', path, 'expected bool, header has %s' % node.ctype)
            return ['%s = (tk_u() != 0u);' % lv], ['pr_u(%s ? 1u : 0u);' % lv]
        if k == 'real':
            want = 'float' if t['fmt'] == 'f' else 'double'
            self.expect(node.kind == 'scalar' and node.ctype == want, path, 'expected %s, header has %s' % (want, node.ctype))
            u = 'uint32_t' if t['fmt'] == 'f' else 'uint64_t'
            return (['{ %s u_ = (%s)tk_u(); memcpy(&%s, &u_, sizeof(u_)); }' % (u, u, lv)],
                    ['if (%s != %s) { pr_s("nan"); } else { %s u_; memcpy(&u_, &%s, sizeof(u_)); pr_u((unsigned long long)u_); }' % (lv, lv, u, lv)])
        if k == 'enum':
            tag = loc + '_e'
            self.expect(node.kind == 'enum' and node.ctype == 'enum ' + tag, path, 'expected enum %s, header has %s %s' % (tag, node.kind, node.ctype))
            self.expect(tag in self.h.enums, path, 'enum %s not defined in the header' % tag)
            have = dict(self.h.enums[tag])
            for n_, v_ in t['items']:
                cname = '%s_%s_e' % (loc, canonical(n_))
                self.expect(have.get(cname) == v_, path, 'enumerator %s = %d expected, header has %r' % (cname, v_, have.get(cname)))
            return ['%s = (enum %s)tk_i();' % (lv, tag)], ['pr_i((long long)%s);' % lv]
        if k == 'bits':
            self.expect(node.kind == 'scalar' and node.ctype in INT_TYPES and INT_TYPES[node.ctype][0] == 0, path,
                        'expected an unsigned integer for BIT STRING, header has %s' % node.ctype)
            self.expect(INT_TYPES[node.ctype][1] >= 2 ** t['n'] - 1, path, 'BIT STRING (SIZE(%d)) does not fit %s' % (t['n'], node.ctype))
            return ['%s = (%s)tk_u();' % (lv, node.ctype)], ['pr_u((unsigned long long)%s);' % lv]
        if k == 'octs':
            self.expect(node.kind in ('struct', 'ref'), path, 'expected a struct for OCTET STRING, header has %s' % node.kind)
            buf = self.field(node, 'buf', path)
            self.expect(buf.kind == 'scalar' and buf.ctype == 'uint8_t' and buf.array == t['hi'], path,
                        'expected uint8_t buf[%d], header has %s buf[%s]' % (t['hi'], buf.ctype, buf.array))
            if t['lo'] == t['hi']:
                self.expect('length' not in self.h.resolve(node).fields, path, 'fixed size OCTET STRING has a length member')
                return (['(void)tk_hex(%s.buf, %du);' % (lv, t['hi'])], ['pr_hex(%s.buf, %du);' % (lv, t['hi'])])
            ln = self.field(node, 'length', path)
            self.expect(ln.kind == 'scalar' and ln.ctype in ('uint8_t', 'uint32_t') and INT_TYPES[ln.ctype][1] >= t['hi'], path,
                        'length member %s cannot hold %d' % (ln.ctype, t['hi']))
            return (['%s.length = (%s)tk_u();' % (lv, ln.ctype), '(void)tk_hex(%s.buf, %du);' % (lv, t['hi'])],
                    ['pr_u((unsigned long long)%s.length);' % lv,
                     'if (%s.length > %du) { overlen = 1; } else { pr_hex(%s.buf, %s.length); }' % (lv, t['hi'], lv, lv)])
        if k == 'seq':
            self.expect(node.kind in ('struct', 'ref'), path, 'expected a struct for SEQUENCE, header has %s' % node.kind)
            fill, dump = [], []
            snode = self.h.resolve(node)
            expected_fields = set()
            for m in t['members'] + (t.get('ext') or []):
                addition = m in (t.get('ext') or [])
                c = canonical(m['name'])
                mp = path + '.' + m['name']
                r = env.deref(m['t'])
                flag = None
                if addition:
                    flag = 'is_%s_addition_present' % c
                elif m['opt']:
                    flag = 'is_%s_present' % c
                if flag:
                    fnode = self.field(node, flag, mp)
                    self.expect(fnode.kind == 'scalar' and fnode.ctype == 'bool', mp, 'presence flag is %s' % fnode.ctype)
                    expected_fields.add(flag)
                if r['k'] == 'null':
                    self.expect(c not in snode.fields, mp, 'NULL member has a struct member')
                    f1, d1 = [], []
                else:
                    expected_fields.add(c)
                    f1, d1 = self.emit(m['t'], '%s.%s' % (lv, c), self.field(node, c, mp), loc + '_' + c, mp)
                if addition and self.codec == 'uper':
                    # uper.py does not translate extension additions (README: OER only): the encoder refuses a set flag with EINVAL,
                    # the decoder never writes the flag; the driver clears it and does not look at it
                    fill += ['%s.%s = false;' % (lv, flag)]
                elif flag:
                    fill += ['%s.%s = (tk_u() != 0u);' % (lv, flag), 'if (%s.%s) {' % (lv, flag)] + ['    ' + x for x in f1] + ['}']
                    dump += ['pr_u(%s.%s ? 1u : 0u);' % (lv, flag), 'if (%s.%s) {' % (lv, flag)] + ['    ' + x for x in d1] + ['}']
                elif not (addition and self.codec == 'uper'):
                    fill += f1
                    dump += d1
            extra = set(snode.fields) - expected_fields - {'dummy'}
            self.expect(not extra, path, 'header declares unexpected members %s' % sorted(extra))
            return fill, dump
        if k == 'seqof':
            self.expect(node.kind in ('struct', 'ref'), path, 'expected a struct for SEQUENCE OF, header has %s' % node.kind)
            r = env.deref(t['elem'])
            i = self.var()
            fixed = t['lo'] == t['hi']
            if r['k'] == 'null':
                self.expect('elements' not in self.h.resolve(node).fields, path, 'SEQUENCE OF NULL has elements')
                f1, d1 = [], []
            else:
                el = self.field(node, 'elements', path)
                self.expect(el.array == t['hi'], path, 'expected elements[%d], header has elements[%s]' % (t['hi'], el.array))
                elnode = Node(el.kind, el.ctype, None)
                elnode.fields = el.fields
                f1, d1 = self.emit(t['elem'], '%s.elements[%s]' % (lv, i), elnode, loc, path + '[]')
            if fixed:
                self.expect('length' not in self.h.resolve(node).fields, path, 'fixed size SEQUENCE OF has a length member')
                head_f = ['{ size_t %s; for (%s = 0; %s < %du; %s++) {' % (i, i, i, t['hi'], i)]
                head_d = head_f
            else:
                ln = self.field(node, 'length', path)
                self.expect(ln.kind == 'scalar' and ln.ctype in ('uint8_t', 'uint32_t') and INT_TYPES[ln.ctype][1] >= t['hi'], path,
                            'length member %s cannot hold %d' % (ln.ctype, t['hi']))
                head_f = ['%s.length = (%s)tk_u();' % (lv, ln.ctype),
                          '{ size_t %s; for (%s = 0; %s < %s.length && %s < %du; %s++) {' % (i, i, i, lv, i, t['hi'], i)]
                head_d = ['pr_u((unsigned long long)%s.length);' % lv,
                          'if (%s.length > %du) { overlen = 1; }' % (lv, t['hi']),
                          '{ size_t %s; for (%s = 0; %s < %s.length && %s < %du; %s++) {' % (i, i, i, lv, i, t['hi'], i)]
            return (head_f + ['    ' + x for x in f1] + ['} }'], head_d + ['    ' + x for x in d1] + ['} }'])
        if k == 'choice':
            self.expect(node.kind in ('struct', 'ref'), path, 'expected a struct for CHOICE, header has %s' % node.kind)
            tag = loc + '_choice_e'
            ch = self.field(node, 'choice', path)
            self.expect(ch.kind == 'enum' and ch.ctype == 'enum ' + tag, path, 'expected enum %s choice, header has %s' % (tag, ch.ctype))
            self.expect(tag in self.h.enums, path, 'enum %s not defined' % tag)
            consts = [c for c, _ in self.h.enums[tag]]
            un = self.field(node, 'value', path)
            self.expect(un.kind == 'union', path, 'expected union value')
            fill = ['switch (tk_i()) {']
            dump = ['switch (%s.choice) {' % lv]
            for idx, (an, at) in enumerate(t['alts']):
                c = canonical(an)
                cname = '%s_choice_%s_e' % (loc, c)
                self.expect(cname in consts, path, 'choice constant %s not in the header' % cname)
                ap = path + '.' + an
                r = env.deref(at)
                if r['k'] == 'null':
                    self.expect(c not in un.fields, ap, 'NULL alternative has a union member')
                    f1, d1 = [], []
                else:
                    f1, d1 = self.emit(at, '%s.value.%s' % (lv, c), self.field(un, c, ap), loc + '_' + c, ap)
                fill += ['case %d:' % idx, '    %s.choice = %s;' % (lv, cname)] + ['    ' + x for x in f1] + ['    break;']
                dump += ['case %s:' % cname, '    pr_u(%du);' % idx] + ['    ' + x for x in d1] + ['    break;']
            fill += ['default:', '    %s.choice = (enum %s)12345;' % (lv, tag), '    break;', '}']
            dump += ['default:', '    pr_s("BADCHOICE");', '    break;', '}']
            return fill, dump
        if k == 'null':
            return [], []
        raise Unsupported(k)

    def generate(self, header_name):
        """C text of the driver; self.types = [(module, type)] in index order"""
        env = self.env
        out = [DRIVER_PRELUDE.replace('%(header)s', header_name)]
        tops = env.top_types()
        self.types = [(mn, tn) for mn, tn, _ in tops]
        for mn, tn, t in tops:
            fn = '%s_%s' % (snake(mn), snake(tn))
            sn = self.struct_name(mn, tn)
            out.append('static void fill_%s(struct %s *p);' % (fn, sn))
            out.append('static void dump_%s(const struct %s *p);' % (fn, sn))
        for mn, tn, t in tops:
            fn = '%s_%s' % (snake(mn), snake(tn))
            sn = self.struct_name(mn, tn)
            path = '%s.%s' % (mn, tn)
            if sn not in self.h.structs:
                raise HeaderError('%s: struct %s not declared in the generated header' % (path, sn))
            for f in ('encode', 'decode'):
                if '%s_%s' % (self.prefix(mn, tn), f) not in self.h.functions:
                    raise HeaderError('%s: function %s_%s not declared' % (path, self.prefix(mn, tn), f))
            node = self.h.structs[sn]
            r = env.deref(t)
            loc = self.prefix(mn, tn)
            if r['k'] in ('int', 'bool', 'real', 'enum', 'bits'):
                fill, dump = self.emit(r, 'p->value', self.field(node, 'value', path), loc, path)
                self.expect(set(node.fields) == {'value'}, path, 'unexpected members %s' % sorted(node.fields))
            elif r['k'] == 'null':
                fill, dump = ['(void)p;'], ['(void)p;']
                self.expect(set(node.fields) == {'dummy'}, path, 'unexpected members %s' % sorted(node.fields))
            else:
                fill, dump = self.emit(r, '(*p)', node, loc, path)
            out.append('static void fill_%s(struct %s *p)\n{\n%s\n}' % (fn, sn, '\n'.join('    ' + x for x in fill)))
            out.append('static void dump_%s(const struct %s *p)\n{\n%s\n}' % (fn, sn, '\n'.join('    ' + x for x in dump)))
        out.append('typedef void (*fill_fn)(void *);\ntypedef void (*dump_fn)(const void *);')
        out.append('typedef ssize_t (*enc_fn)(uint8_t *, size_t, const void *);\ntypedef ssize_t (*dec_fn)(void *, const uint8_t *, size_t);')
        out.append('struct type_ops { size_t size; fill_fn fill; dump_fn dump; enc_fn encode; dec_fn decode; };')
        # thin typed wrappers (no function pointer casts between incompatible types)
        rows = []
        for mn, tn, t in tops:
            fn = '%s_%s' % (snake(mn), snake(tn))
            sn = self.struct_name(mn, tn)
            px = self.prefix(mn, tn)
            out.append('static void wfill_%s(void *p) { fill_%s((struct %s *)p); }' % (fn, fn, sn))
            out.append('static void wdump_%s(const void *p) { dump_%s((const struct %s *)p); }' % (fn, fn, sn))
            out.append('static ssize_t wenc_%s(uint8_t *d, size_t n, const void *p) { return %s_encode(d, n, (const struct %s *)p); }' % (fn, px, sn))
            out.append('static ssize_t wdec_%s(void *p, const uint8_t *s, size_t n) { return %s_decode((struct %s *)p, s, n); }' % (fn, px, sn))
            rows.append('    { sizeof(struct %s), wfill_%s, wdump_%s, wenc_%s, wdec_%s }' % (sn, fn, fn, fn, fn))
        out.append('#define NTYPES %d' % len(tops))
        out.append('static const struct type_ops types[NTYPES] = {\n%s\n};' % ',\n'.join(rows))
        out.append(DRIVER_MAIN)
        return '\n'.join(out) + '\n'


# --------------------------------------------------------------------------------------------------------------
# values: Python value <-> canonical token list (the fill format = the dump format)


def f32_bits(x):
    return struct.unpack('>I', struct.pack('>f', x))[0]


def f64_bits(x):
    return struct.unpack('>Q', struct.pack('>d', x))[0]


class BadValue(Exception):
    pass


def bits_to_int(codec, t, v):
    """C representation of a fixed BIT STRING value (bytes, nbits): uper = the bits as an n-bit number; oer = the
    octets on the wire as a big-endian number (bit 0 = most significant bit of the first octet)"""
    data, n = v
    if n != t['n']:
        raise BadValue('bit string length')
    full = int.from_bytes(data, 'big')
    if codec == 'uper':
        return full >> (8 * len(data) - n) if len(data) else 0
    return full


def tokens(env, codec, t, v, out=None):
    """canonical tokens of value v (DEFAULT members absent from v are shown with their default)"""
    if out is None:
        out = []
    t = env.deref(t)
    k = t['k']
    if k == 'int':
        if not isinstance(v, int) or isinstance(v, bool):
            raise BadValue('int')
        out.append(str(v))
    elif k == 'bool':
        out.append('1' if v else '0')
    elif k == 'null':
        pass
    elif k == 'real':
        out.append('nan' if v != v else str(f32_bits(v) if t['fmt'] == 'f' else f64_bits(v)))
    elif k == 'enum':
        d = dict(t['items'])
        if v not in d:
            raise BadValue('enum %r' % (v,))
        out.append(str(d[v]))
    elif k == 'bits':
        out.append(str(bits_to_int(codec, t, v)))
    elif k == 'octs':
        v = bytes(v)
        if t['lo'] != t['hi']:
            out.append(str(len(v)))
        elif len(v) != t['hi']:
            raise BadValue('fixed size')
        out.append(v.hex() or '-')
    elif k == 'seq':
        for m in t['members'] + ((t.get('ext') or []) if codec != 'uper' else []):      # uper.py does not translate additions
            addition = m in (t.get('ext') or [])
            if addition or m['opt']:
                if m['name'] in v:
                    out.append('1')
                    tokens(env, codec, m['t'], v[m['name']], out)
                else:
                    out.append('0')
            elif m['name'] in v:
                tokens(env, codec, m['t'], v[m['name']], out)
            elif m['default'] is not None:
                tokens(env, codec, m['t'], m['default'], out)
            else:
                raise BadValue('missing member ' + m['name'])
    elif k == 'seqof':
        if t['lo'] != t['hi']:
            out.append(str(len(v)))
        elif len(v) != t['hi']:
            raise BadValue('fixed size list')
        for e in v:
            tokens(env, codec, t['elem'], e, out)
    elif k == 'choice':
        names = [n for n, _ in t['alts']]
        if not isinstance(v, tuple) or v[0] not in names:
            raise BadValue('choice %r' % (v,))
        i = names.index(v[0])
        out.append(str(i))
        tokens(env, codec, t['alts'][i][1], v[1], out)
    else:
        raise BadValue(k)
    return out


def in_constraints(env, t, v):
    """is v a value of t (all declared bounds respected)"""
    t = env.deref(t)
    k = t['k']
    try:
        if k == 'int':
            return isinstance(v, int) and t['lo'] <= v <= t['hi']
        if k in ('bool', 'null'):
            return True
        if k == 'real':
            return isinstance(v, float)
        if k == 'enum':
            return v in dict(t['items'])
        if k == 'bits':
            return v[1] == t['n']
        if k == 'octs':
            return t['lo'] <= len(v) <= t['hi']
        if k == 'seq':
            for m in t['members'] + (t.get('ext') or []):
                if m['name'] in v:
                    if not in_constraints(env, m['t'], v[m['name']]):
                        return False
                elif not (m['opt'] or m['default'] is not None or m in (t.get('ext') or [])):
                    return False
            return True
        if k == 'seqof':
            return t['lo'] <= len(v) <= t['hi'] and all(in_constraints(env, t['elem'], e) for e in v)
        if k == 'choice':
            d = dict(t['alts'])
            return v[0] in d and in_constraints(env, d[v[0]], v[1])
    except Exception:
        return False
    return False


REALS32 = [0.0, -0.0, 1.0, -1.5, 3.4028234663852886e+38, 1.401298464324817e-45, 1.1754943508222875e-38, float('inf'), float('-inf'), 0.15625, 16777215.0]
REALS64 = [0.0, -0.0, 1.0, -1.5, 1.7976931348623157e+308, 5e-324, 2.2250738585072014e-308, float('inf'), float('-inf'), 0.1, 9007199254740991.0]


class ValueGen:
    """values of a type; `strategy` steers scalars to boundaries, rotation counters walk CHOICE alternatives,
    ENUMERATED items and presence patterns"""

    def __init__(self, env, rng, codec='oer'):
        self.env = env
        self.rng = rng
        self.codec = codec
        self.rot = {}

    def turn(self, t, n):
        c = self.rot.get(id(t), 0)
        self.rot[id(t)] = c + 1
        return c % n if c < 4 * n else self.rng.randrange(n)

    def value(self, t, strategy='rand', depth=0):
        rng = self.rng
        t = self.env.deref(t)
        k = t['k']
        if k == 'int':
            lo, hi = t['lo'], t['hi']
            if strategy == 'min':
                return lo
            if strategy == 'max':
                return hi
            if strategy == 'min1':
                return min(lo + 1, hi)
            if strategy == 'max1':
                return max(hi - 1, lo)
            if strategy == 'zero':
                return min(max(0, lo), hi)
            r = rng.random()
            if r < 0.3:
                return rng.choice([lo, hi, min(lo + 1, hi), max(hi - 1, lo), min(max(0, lo), hi), min(max(-1, lo), hi),
                                   min(max(127, lo), hi), min(max(128, lo), hi), min(max(255, lo), hi), min(max(256, lo), hi)])
            if r < 0.5:
                span = hi - lo
                return lo + rng.randrange(0, min(span, 2 ** rng.randrange(1, 65)) + 1)
            return rng.randint(lo, hi)
        if k == 'bool':
            return {'min': False, 'max': True}.get(strategy, rng.random() < 0.5)
        if k == 'null':
            return None
        if k == 'real':
            pool = REALS32 if t['fmt'] == 'f' else REALS64
            if rng.random() < 0.6:
                return pool[self.turn(t, len(pool))]
            x = rng.uniform(-1e6, 1e6)
            return struct.unpack('>f', struct.pack('>f', x))[0] if t['fmt'] == 'f' else x
        if k == 'enum':
            return t['items'][self.turn(t, len(t['items']))][0]
        if k == 'bits':
            n = t['n']
            x = {'min': 0, 'max': 2 ** n - 1}.get(strategy)
            if x is None:
                x = rng.choice([rng.getrandbits(n), 1 << (n - 1), 1, 2 ** n - 1, 0])
            nb = (n + 7) // 8
            return ((x << (8 * nb - n)).to_bytes(nb, 'big'), n)
        if k == 'octs':
            lo, hi = t['lo'], t['hi']
            if strategy in ('min', 'min1', 'zero'):
                n = lo if strategy != 'min1' else min(lo + 1, hi)
            elif strategy in ('max', 'max1'):
                n = hi if strategy == 'max' else max(hi - 1, lo)
            else:
                cand = [lo, hi, min(lo + 1, hi), max(hi - 1, lo)] + [x for x in (1, 2, 127, 128, 129, 255, 256, 257) if lo <= x <= hi]
                n = rng.choice(cand) if rng.random() < 0.5 else rng.randint(lo, min(hi, lo + 40))
            return bytes(rng.getrandbits(8) for _ in range(n)) if n < 600 else bytes([rng.getrandbits(8)]) * n
        if k == 'seq':
            v = {}
            root = t['members']
            pres = [m for m in root if m['opt'] or m['default'] is not None]
            pattern = self.presence(t, len(pres), strategy)
            for m in root:
                if m['opt']:
                    if pattern[pres.index(m)]:
                        v[m['name']] = self.value(m['t'], strategy, depth + 1)
                elif m['default'] is not None:
                    if pattern[pres.index(m)]:
                        x = self.non_default(m, strategy, depth)
                        v[m['name']] = x
                    elif rng.random() < 0.5:
                        v[m['name']] = m['default']        # given explicitly, equal to the default
                else:
                    v[m['name']] = self.value(m['t'], strategy, depth + 1)
            adds = (t.get('ext') or []) if self.codec != 'uper' else []
            if adds:
                # an addition without OPTIONAL is mandatory for a sender of this version (the Python encoder misaligns the
                # presence bitmap when one is missing: finding C01-mandatory-addition-missing) — only OPTIONAL ones are left out
                oadds = [m for m in adds if m['opt']]
                apat = self.presence(('ext', id(t)), len(oadds), strategy, key=('ext', id(t)))
                for m in adds:
                    if not m['opt'] or apat[oadds.index(m)]:
                        v[m['name']] = self.value(m['t'], strategy, depth + 1)
            return v
        if k == 'seqof':
            lo, hi = t['lo'], t['hi']
            if strategy in ('min', 'zero'):
                n = lo
            elif strategy == 'max':
                n = hi
            elif strategy == 'min1':
                n = min(lo + 1, hi)
            elif strategy == 'max1':
                n = max(hi - 1, lo)
            else:
                n = rng.choice([lo, hi, rng.randint(lo, min(hi, lo + 5))])
            if depth > 0 and n > 40:
                n = max(lo, min(n, 40)) if lo <= 40 else lo
            sub = 'rand' if n > 3 else strategy
            return [self.value(t['elem'], sub, depth + 1) for _ in range(n)]
        if k == 'choice':
            i = self.turn(t, len(t['alts']))
            n, a = t['alts'][i]
            return (n, self.value(a, strategy, depth + 1))
        raise Unsupported(k)

    def presence(self, t, n, strategy, key=None):
        if n == 0:
            return []
        key = key or id(t)
        c = self.rot.get(key, 0)
        self.rot[key] = c + 1
        if n <= 4:
            if c < 2 ** n:
                return [(c >> i) & 1 for i in range(n)]
            return [self.rng.randrange(2) for _ in range(n)]
        if c == 0:
            return [0] * n
        if c == 1:
            return [1] * n
        if c < n + 2:
            return [1 if i == c - 2 else 0 for i in range(n)]
        if c < 2 * n + 2:
            return [0 if i == c - n - 2 else 1 for i in range(n)]
        return [self.rng.randrange(2) for _ in range(n)]

    def non_default(self, m, strategy, depth):
        for _ in range(20):
            x = self.value(m['t'], strategy if _ == 0 else 'rand', depth + 1)
            if x != m['default']:
                return x
        return m['default']


# --------------------------------------------------------------------------------------------------------------
# module generator (the documented C subset)

INT_RANGES = [
    (0, 255), (0, 256), (-128, 127), (-129, 127), (0, 2 ** 32 - 1), (0, 2 ** 64 - 1), (-2 ** 63, 2 ** 63 - 1),
    (5, 5), (0, 0), (-1, -1), (0, 1), (0, 7), (1, 8), (0, 254), (1, 256), (1, 255), (-32768, 32767), (-32769, 32767),
    (0, 65535), (0, 65536), (-2 ** 31, 2 ** 31 - 1), (-2 ** 31 - 1, 2 ** 31 - 1), (0, 2 ** 32), (-2 ** 63, 0), (-2 ** 63, -2 ** 63 + 255),
    (2 ** 64 - 256, 2 ** 64 - 1), (2 ** 63, 2 ** 64 - 1), (-128, 0), (-5, 5), (100, 1000), (-70000, 70000), (2 ** 32, 2 ** 32 + 3),
    (-2 ** 31, 2 ** 31), (-1, 2 ** 63 - 1), (1, 2 ** 64 - 1), (-128, 126), (-127, 127),
]
INT_WIDTHS = [7, 8, 9, 15, 16, 17, 31, 32, 33, 63, 64]
WIDE_RANGES = [(-1, 255), (-1, 65535), (-1, 2 ** 32 - 1), (-128, 128), (-5, 200), (-32768, 32768), (-2 ** 31, 2 ** 31), (-100, 40000)]


def gen_int_range(rng, narrow_ok=True):
    r = rng.random()
    if r < 0.45:
        return rng.choice(INT_RANGES)
    if r < 0.8:
        w = rng.choice(INT_WIDTHS)
        span = 2 ** w - rng.choice([1, 1, 1, 2, 0 if w < 64 else 1])      # 2^w - 1: exactly w bits; 2^w - 2; 2^w: w+1 bits
        kind = rng.randrange(4)
        if kind == 0:
            lo = 0
        elif kind == 1:
            lo = -2 ** (w - 1)
        elif kind == 2:
            lo = rng.choice([1, 2, 100, 2 ** w if w < 63 else 1])
        else:
            lo = -rng.choice([1, 3, 2 ** (w - 1) - 1, 2 ** (w - 1) + 1])
        hi = lo + span
        if lo < 0:
            lo = max(lo, -2 ** 63)
            hi = min(hi, 2 ** 63 - 1)
        else:
            hi = min(hi, 2 ** 64 - 1)
        if hi < lo:
            hi = lo
        return (lo, hi)
    if r < 0.83:
        return rng.choice(WIDE_RANGES)      # the declared range does not fit the C type picked by type_length (known finding)
    a = rng.randint(-1000, 1000)
    return (a, a + rng.choice([0, 1, 2, 3, 10, 100, 1000, 100000]))


OCTS_SIZES = [(1, 1), (2, 2), (3, 3), (8, 8), (16, 16), (127, 127), (128, 128), (255, 255), (256, 256), (300, 300),
              (0, 1), (0, 2), (0, 127), (0, 128), (0, 254), (0, 255), (0, 256), (1, 255), (1, 256), (2, 257), (1, 2), (3, 10),
              (0, 65535), (1, 65536), (0, 65534), (100, 355), (100, 356), (0, 1000), (127, 128), (255, 256)]
BITS_SIZES = [1, 2, 4, 7, 8, 9, 12, 16, 17, 24, 25, 31, 32, 33, 40, 48, 63, 64]
ENUM_COUNTS = [1, 2, 3, 4, 5, 7, 8, 9, 16, 17, 255, 256, 257]
ENUM_VALUES = [0, 1, 2, 5, 127, 128, 255, 256, 32767, 32768, 65535, 8388607, 8388608, 2 ** 31 - 1, -1, -2, -128, -129, -32768, -32769,
               -8388608, -8388609, -2 ** 31]
NAMES = ['a', 'b', 'c', 'd', 'e', 'f', 'g', 'h', 'k', 'm', 'n', 'p', 'q', 'r', 's', 'u', 'w', 'x', 'y', 'z', 'id', 'data', 'a-b', 'c-d-e',
         'aB', 'item1', 'x2y']


class ModGen:
    def __init__(self, rng, codec, opts=None):
        self.rng = rng
        self.codec = codec
        self.o = dict(max_depth=3, additions=(codec == 'oer'), real=(codec == 'oer'), bits=True, wide=True, big=True)
        self.o.update(opts or {})
        self.pool = []        # (module, name, type) of already generated top-level types (targets of references)
        self.uid = 0
        self.maxd = self.o['max_depth']

    def deref(self, t):
        return self.env_deref(t)

    def names(self, n):
        pool = list(NAMES)
        self.rng.shuffle(pool)
        out = pool[:n]
        i = 0
        while len(out) < n:
            out.append('m%d' % i)
            i += 1
        return out

    def leaf(self):
        rng = self.rng
        kinds = ['int'] * 5 + ['bool', 'null', 'octs', 'octs', 'enum', 'enum']
        if self.o['bits']:
            kinds.append('bits')
        if self.o['real']:
            kinds.append('real')
        k = rng.choice(kinds)
        if k == 'int':
            lo, hi = gen_int_range(rng)
            if not self.o['wide'] and (lo, hi) in WIDE_RANGES:
                lo, hi = 0, 255
            return T('int', lo=lo, hi=hi)
        if k == 'bool':
            return T('bool')
        if k == 'null':
            return T('null')
        if k == 'octs':
            lo, hi = rng.choice(OCTS_SIZES)
            if hi > 1000 and (not self.o['big'] or rng.random() < 0.7 or (self.codec == 'uper' and hi >= 65536)):
                lo, hi = rng.choice(OCTS_SIZES[:22])
            return T('octs', lo=lo, hi=hi)
        if k == 'bits':
            n = rng.choice(BITS_SIZES)
            named = None
            if rng.random() < 0.3:
                bitnos = sorted(rng.sample(range(n), min(n, rng.choice([1, 2, 3]))))
                named = [('nb%d' % b, b) for b in bitnos]
            return T('bits', n=n, named=named)
        if k == 'real':
            return T('real', fmt=rng.choice(['f', 'd']))
        if k == 'enum':
            return self.enum()

    def enum(self):
        rng = self.rng
        n = rng.choice(ENUM_COUNTS) if rng.random() < 0.8 else rng.randint(1, 12)
        if n > 17 and rng.random() < 0.6:
            n = rng.choice([2, 3, 4, 5])
        explicit = rng.random() < 0.45
        if explicit:
            vals = set()
            cand = list(ENUM_VALUES) if self.codec == 'oer' or rng.random() < 0.5 else [v for v in ENUM_VALUES if v >= 0]
            rng.shuffle(cand)
            for v in cand[:min(n, rng.choice([1, 2, 3, 6]))]:
                vals.add(v)
            while len(vals) < n:
                vals.add(rng.randint(-300, 300) if rng.random() < 0.5 else rng.randint(0, 70000))
            vals = list(vals)
            rng.shuffle(vals)
        else:
            vals = list(range(n))
        hyphen = rng.random() < 0.02
        items = [('it-%d' % i if hyphen and i % 3 == 0 else 'e%d' % i, v) for i, v in enumerate(vals)]
        return T('enum', items=items, explicit=explicit, ext=(True if rng.random() < (0.05 if self.codec == 'uper' else 0.2) else None))

    def default_for(self, t):
        """a DEFAULT value (python) for types where the generator supports one"""
        rng = self.rng
        r = self.env_deref(t)
        k = r['k']
        if k == 'int':
            return rng.choice([r['lo'], r['hi'], min(max(0, r['lo']), r['hi']), rng.randint(r['lo'], r['hi'])])
        if k == 'bool':
            return rng.random() < 0.5
        if k == 'enum':
            return rng.choice(r['items'])[0]
        if k == 'octs' and r['lo'] != r['hi'] and t['k'] != 'ref':
            n = rng.choice([r['lo'], min(r['hi'], r['lo'] + 2), min(r['hi'], 4)])
            n = max(r['lo'], min(n, r['hi'], 8))
            if n > 8:
                return None
            return bytes(rng.getrandbits(8) for _ in range(n))
        return None

    def env_deref(self, t):
        while t['k'] == 'ref':
            t = [x for (m, n, x) in self.pool if m == t['module'] and n == t['name']][0]
        return t

    def weight(self, t):
        """rough struct size in bytes"""
        t = self.env_deref(t)
        k = t['k']
        if k == 'octs':
            return t['hi'] + 4
        if k == 'seq':
            return sum(self.weight(m['t']) for m in t['members'] + (t.get('ext') or [])) + 1
        if k == 'seqof':
            return t['hi'] * self.weight(t['elem']) + 4
        if k == 'choice':
            return max(self.weight(a) for _, a in t['alts']) + 4
        return 8

    def type(self, depth, want=None):
        rng = self.rng
        if depth >= self.maxd and want is None:
            if self.pool and rng.random() < 0.25:
                return self.ref()
            return self.leaf()
        r = rng.random()
        k = want
        if k is None:
            if r < 0.40:
                k = 'leaf'
            elif r < 0.52 and self.pool:
                k = 'ref'
            elif r < 0.76:
                k = 'seq'
            elif r < 0.88:
                k = 'seqof'
            else:
                k = 'choice'
        if k == 'leaf':
            return self.leaf()
        if k == 'ref':
            return self.ref()
        if k == 'seq':
            return self.seq(depth)
        if k == 'seqof':
            self.in_seqof = getattr(self, 'in_seqof', 0) + 1
            elem = self.type(depth + 1)
            self.in_seqof -= 1
            w = self.weight(elem)
            cap = max(1, min(300, 100000 // max(w, 1)))
            lo, hi = rng.choice([(1, 1), (2, 2), (3, 3), (0, 1), (0, 2), (0, 3), (1, 4), (0, 10), (2, 5), (0, 255), (0, 256), (1, 256), (5, 5),
                                 (255, 255), (0, 254), (1, 255), (0, 300), (0, 127), (0, 128), (256, 256), (2, 257)])
            if hi > cap:
                lo, hi = min(lo, cap), cap
            if (depth > 0 or w > 16) and hi > 20 and rng.random() < 0.85:
                lo, hi = min(lo, 3), rng.choice([3, 4, 8])
            return T('seqof', elem=elem, lo=lo, hi=hi)
        if k == 'choice':
            n = rng.choice([1, 2, 2, 3, 3, 4, 5, 8, 9])
            if depth == 0 and rng.random() < 0.10:
                n = rng.choice([63, 64, 65, 128, 129, 130])
            names = self.names(n)
            if n > 9:
                alts = [(nm, self.leaf() if rng.random() < 0.95 else self.type(depth + 2)) for nm in names]
            else:
                alts = [(nm, self.type(depth + 1)) for nm in names]
            return T('choice', alts=alts, ext=(True if rng.random() < (0.05 if self.codec == 'uper' else 0.2) else None))

    def ref(self):
        m, n, t = self.rng.choice(self.pool)
        return T('ref', module=m, name=n)

    def seq(self, depth):
        rng = self.rng
        nopt = rng.choice([0, 0, 1, 1, 2, 3]) if rng.random() < 0.85 else rng.choice([7, 8, 9, 16, 17])
        nman = rng.choice([0, 1, 1, 2, 3]) if nopt < 7 else rng.choice([0, 1, 2])
        if depth > 0 and nopt < 7:
            nopt, nman = min(nopt, 2), min(nman, 2)
        n = nopt + nman
        if n == 0 and rng.random() < 0.7:
            nman = n = 1
        names = self.names(n + 4)
        flags = [True] * nopt + [False] * nman
        rng.shuffle(flags)
        members = []
        for nm, is_opt in zip(names, flags):
            t = self.type(depth + 1) if nopt < 7 else self.leaf()
            if is_opt:
                d = self.default_for(t) if rng.random() < 0.5 else None
                if d is not None and self.env_deref(t)['k'] == 'enum' and (canonical(nm) != nm or canonical(d) != d) and rng.random() < 0.97:
                    d = None          # hyphenated names with an ENUMERATED DEFAULT give invalid C (recorded finding): keep them rare
                if d is not None:
                    members.append(member(nm, t, default=d))
                else:
                    members.append(member(nm, t, opt=True))
            else:
                members.append(member(nm, t))
        ext = None
        if rng.random() < 0.3:
            ext = []
            if self.o['additions'] and rng.random() < 0.7 and (getattr(self, 'in_seqof', 0) == 0 or rng.random() < 0.04):
                na = rng.choice([1, 1, 2, 3, 7, 8, 9]) if rng.random() < 0.85 else rng.choice([15, 16, 17])
                saved = self.o['bits']
                self.o['bits'] = saved and rng.random() < 0.1       # oer.py rejects BIT STRING inside an addition (no length computation)
                unsafe_ok = rng.random() < 0.04
                for j in range(na):
                    for _try in range(12):
                        t = self.type(depth + 1) if na < 7 else self.leaf()
                        if unsafe_ok or safe_addition(self, t, depth == 0):
                            break
                    else:
                        t = T('int', lo=0, hi=255)
                    nm = 'x%d%s' % (j, 'v' if j % 2 else '')
                    if self.env_deref(t)['k'] == 'choice':
                        self.uid += 1
                        nm = 'xc%d' % self.uid        # get_choice_<name>_length is emitted once per member name
                    ext.append(member(nm, t, opt=rng.random() < 0.65))
                self.o['bits'] = saved
        return T('seq', members=members, ext=ext)

    def module_set(self, ntypes):
        """two modules; the second imports from the first"""
        rng = self.rng
        suffix = rng.choice(['', '1', 'X'])
        m1, m2 = 'Lib' + suffix, rng.choice(['Main', 'MyMod', 'Proto-Two', 'M'])
        self.pool = []
        mods = {m1: [], m2: []}
        tnames = ['Alpha', 'Beta', 'GammaType', 'D', 'E2', 'FooBar', 'Msg', 'T1', 'T2', 'Rec-One', 'LongTypeNameX', 'Q', 'Item', 'U', 'V', 'W9']
        rng.shuffle(tnames)
        for i in range(ntypes):
            mn = m1 if i < max(1, ntypes // 3) else m2
            want = None
            self.maxd = 1
            if i == 0:
                want = 'leaf'
            elif i == ntypes - 1:
                self.maxd = 3
                want = rng.choice(['seq', 'seq', 'seqof', 'choice'])
            else:
                self.maxd = rng.choice([1, 1, 2])
                want = rng.choice(['seq', 'seq', 'seqof', 'choice', 'leaf', None])
            t = self.type(0, want)
            tn = tnames[i]
            mods[mn].append((tn, t))
            self.pool.append((mn, tn, t))
        return Env([(m1, mods[m1]), (m2, mods[m2])])


def features(env, t, acc):
    """histogram of type constructs (input distribution of the evidence)"""
    k = t['k']
    acc[k] = acc.get(k, 0) + 1
    if k in ('int', 'octs', 'seqof') and (t.get('lo') is None or t.get('hi') is None):
        acc[k + '.unbounded'] = acc.get(k + '.unbounded', 0) + 1
        if k == 'seqof':
            features(env, t['elem'], acc)
        return acc
    if k == 'int':
        span = t['hi'] - t['lo']
        acc['int.bits=%d' % span.bit_length()] = acc.get('int.bits=%d' % span.bit_length(), 0) + 1
        if t['lo'] < 0:
            acc['int.signed'] = acc.get('int.signed', 0) + 1
    elif k == 'octs':
        key = 'octs.fixed' if t['lo'] == t['hi'] else 'octs.var.max%s' % ('<128' if t['hi'] < 128 else '<256' if t['hi'] < 256 else '<65536' if t['hi'] < 65536 else '>=65536')
        acc[key] = acc.get(key, 0) + 1
    elif k == 'enum':
        n = len(t['items'])
        key = 'enum.items=%s' % (n if n <= 9 else '10-254' if n < 255 else n)
        acc[key] = acc.get(key, 0) + 1
        if t.get('explicit'):
            acc['enum.explicit'] = acc.get('enum.explicit', 0) + 1
    elif k == 'seq':
        nopt = sum(1 for m in t['members'] if m['opt'] or m['default'] is not None)
        acc['seq.optionals=%d' % nopt] = acc.get('seq.optionals=%d' % nopt, 0) + 1
        if any(m['default'] is not None for m in t['members']):
            acc['seq.with_default'] = acc.get('seq.with_default', 0) + 1
        if t.get('ext') is not None:
            acc['seq.ext.additions=%d' % len(t['ext'])] = acc.get('seq.ext.additions=%d' % len(t['ext']), 0) + 1
        for m in t['members'] + (t.get('ext') or []):
            features(env, m['t'], acc)
    elif k == 'seqof':
        key = 'seqof.fixed' if t['lo'] == t['hi'] else 'seqof.var.max%s' % ('<256' if t['hi'] < 256 else '>=256')
        acc[key] = acc.get(key, 0) + 1
        features(env, t['elem'], acc)
    elif k == 'choice':
        n = len(t['alts'])
        key = 'choice.alts=%s' % (n if n <= 9 else '>=63')
        acc[key] = acc.get(key, 0) + 1
        for _, a in t['alts']:
            features(env, a, acc)
    elif k == 'bits':
        acc['bits.n=%d' % t['n']] = acc.get('bits.n=%d' % t['n'], 0) + 1
    return acc


def depth_of(env, t, seen=0):
    if seen > 20:
        return 0
    k = t['k']
    if k == 'ref':
        return depth_of(env, env.deref(t), seen + 1)
    if k == 'seq':
        return 1 + max([depth_of(env, m['t'], seen + 1) for m in t['members'] + (t.get('ext') or [])] + [0])
    if k == 'seqof':
        return 1 + depth_of(env, t['elem'], seen + 1)
    if k == 'choice':
        return 1 + max(depth_of(env, a, seen + 1) for _, a in t['alts'])
    return 0


def walk(env, t, fn, through_refs=True, seen=0):
    """fn(node) for every type node"""
    fn(t)
    k = t['k']
    if k == 'ref':
        if through_refs and seen < 30:
            walk(env, env.deref(t), fn, through_refs, seen + 1)
    elif k in ('seq', 'set'):
        for m in t['members'] + (t.get('ext') or []):
            if isinstance(m, list):
                for g in m:
                    walk(env, g['t'], fn, through_refs, seen + 1)
            else:
                walk(env, m['t'], fn, through_refs, seen + 1)
    elif k in ('seqof', 'setof'):
        walk(env, t['elem'], fn, through_refs, seen + 1)
    elif k == 'choice':
        for _, a in t['alts']:
            walk(env, a, fn, through_refs, seen + 1)


# --------------------------------------------------------------------------------------------------------------
# build + run

GCC = ['gcc', '-std=c99', '-O2', '-Wall', '-Wextra', '-Werror=implicit-function-declaration']
CLANG = ['clang', '-std=c99', '-O1', '-gline-tables-only', '-fsanitize=address,undefined', '-fno-sanitize-recover=all', '-fno-omit-frame-pointer', '-w']
SAN_ENV = {'ASAN_OPTIONS': 'detect_leaks=1:abort_on_error=0:allocator_may_return_null=1', 'UBSAN_OPTIONS': 'print_stacktrace=1'}


def generate_c(text, codec, ns='ns'):
    """('ok', compiled, header, source) | ('rejected', message) | ('foreign', repr)"""
    import asn1tools
    from asn1tools.source import c as csrc
    try:
        compiled = asn1tools.compile_string(text, codec)
    except asn1tools.errors.Error as e:
        return ('compile-rejected', str(e))
    except Exception as e:
        return ('compile-foreign', '%s: %s' % (type(e).__name__, e))
    try:
        header, source, _, _ = csrc.generate(compiled, codec, ns, ns + '.h', ns + '.c', ns + '_fuzzer.c')
    except asn1tools.errors.Error as e:
        return ('rejected', str(e), compiled)
    except Exception as e:
        return ('foreign', '%s: %s' % (type(e).__name__, e), compiled)
    return ('ok', compiled, header, source)


def warnings_of(output, own_files):
    """gcc diagnostics attributed to the generated files: {flag: count}, errors list"""
    warn, errors = {}, []
    for line in output.split('\n'):
        m = re.match(r'([^:\s]+):(\d+):(\d+): (warning|error): (.*)', line)
        if not m:
            continue
        f = os.path.basename(m.group(1))
        if m.group(4) == 'error':
            errors.append('%s:%s: %s' % (f, m.group(2), m.group(5)))
        elif f in own_files:
            flag = re.search(r'\[(-W[^\]]+)\]', m.group(5))
            key = flag.group(1) if flag else 'other'
            warn[key] = warn.get(key, 0) + 1
    return warn, errors


def build(workdir, ns, header, source, driver):
    """write and compile; returns dict(gcc=path|None, san=path|None, warnings, errors, gcc_out)"""
    os.makedirs(workdir, exist_ok=True)
    for name, body in ((ns + '.h', header), (ns + '.c', source), ('drv.c', driver)):
        with open(os.path.join(workdir, name), 'w') as f:
            f.write(body)
    res = {'gcc': None, 'san': None, 'warnings': {}, 'errors': [], 'out': ''}
    # errors located in the generated files = the generated source is not valid C99
    p = subprocess.run(GCC + [ns + '.c', 'drv.c', '-o', 'drv_gcc'], cwd=workdir, stdout=subprocess.PIPE, stderr=subprocess.STDOUT, text=True, errors='replace')
    res['warnings'], errors = warnings_of(p.stdout, {ns + '.c', ns + '.h'})
    res['out'] = p.stdout[-3000:]
    if p.returncode != 0:
        res['errors'] = [e for e in errors if e.split(':')[0] in (ns + '.c', ns + '.h')]
        if not res['errors']:
            res['driver_error'] = p.stdout[-3000:]
        return res
    res['gcc'] = os.path.join(workdir, 'drv_gcc')
    p = subprocess.run(CLANG + ['drv.c', ns + '.c', '-o', 'drv_san'], cwd=workdir, stdout=subprocess.PIPE, stderr=subprocess.STDOUT, text=True, errors='replace')
    if p.returncode != 0:
        res['driver_error'] = 'clang: ' + p.stdout[-3000:]
        return res
    res['san'] = os.path.join(workdir, 'drv_san')
    return res


def run_binary(path, lines, sanitized, timeout=600):
    """run the command lines; a crash stops the process: it is recorded and the run resumes after the crashing line.
    returns (outputs per line (None for a crashed line), crashes [(line index, rc, stderr tail)])"""
    env = dict(os.environ)
    if sanitized:
        env.update(SAN_ENV)
    outs = [None] * len(lines)
    crashes = []
    start = 0
    while start < len(lines):
        p = subprocess.run([path], input=''.join(l + '\n' for l in lines[start:]), stdout=subprocess.PIPE, stderr=subprocess.PIPE,
                           text=True, errors='replace', env=env, timeout=timeout)
        got = p.stdout.split('\n')
        got.pop()          # '' after the last newline, or the partial line of a crashing command
        complete = got if p.returncode == 0 else got[:max(0, min(len(got), len(lines) - start))]
        if p.returncode != 0 and len(got) >= len(lines) - start:
            # all lines answered but the process failed at exit (e.g. leak report)
            for i, g in enumerate(got[:len(lines) - start]):
                outs[start + i] = g
            crashes.append((len(lines) - 1, p.returncode, p.stderr[:2000] + '\n...\n' + p.stderr[-1200:] if len(p.stderr) > 3200 else p.stderr, 'at-exit'))
            break
        for i, g in enumerate(complete):
            outs[start + i] = g
        if p.returncode == 0:
            break
        bad = start + len(complete)
        # the crashing line may have printed a partial line without newline: drop it
        if bad < len(lines):
            outs[bad] = None
        crashes.append((bad, p.returncode, p.stderr[:2000] + '\n...\n' + p.stderr[-1200:] if len(p.stderr) > 3200 else p.stderr, 'crash'))
        if len(crashes) >= 25:
            break
        start = bad + 1
    return outs, crashes


def workroot():
    return tempfile.mkdtemp(prefix='verif_cgen_')


def cleanup(path):
    shutil.rmtree(path, ignore_errors=True)


# --------------------------------------------------------------------------------------------------------------
# evaluation of one module set (runs in a forked worker)


def mark_ctypes(dg):
    """nothing to do: DriverGen.emit stores the declared C type on every INTEGER node (t['_ctype'])"""


def representable(env, t, v):
    """can the struct hold v (INTEGER members only; everything else is representable by construction)"""
    t = env.deref(t)
    k = t['k']
    if k == 'int':
        ct = t.get('_ctype')
        if ct is None:
            return True
        lo, hi = INT_TYPES[ct]
        return lo <= v <= hi
    if k == 'seq':
        for m in t['members'] + (t.get('ext') or []):
            x = v.get(m['name'], m['default'] if m['default'] is not None else None)
            if m['name'] not in v and m['default'] is None:
                continue
            if not representable(env, m['t'], x):
                return False
        return True
    if k == 'seqof':
        return all(representable(env, t['elem'], e) for e in v)
    if k == 'choice':
        return representable(env, dict(t['alts'])[v[0]], v[1])
    return True


def mutate_bytes(rng, data, n):
    """n variants of a valid encoding: bit flips, byte edits typical for length / count / presence fields,
    insertions, deletions, extension, splices, and pure random strings"""
    out = []
    ln = len(data)
    for _ in range(n):
        b = bytearray(data)
        kind = rng.choice(['flip', 'flip', 'flip2', 'set', 'set', 'lenfield', 'insert', 'delete', 'extend', 'random', 'trunc+', 'head'])
        if kind in ('flip', 'flip2') and ln:
            for _j in range(1 if kind == 'flip' else rng.randint(2, 4)):
                i = rng.randrange(ln)
                b[i] ^= 1 << rng.randrange(8)
        elif kind == 'set' and ln:
            b[rng.randrange(ln)] = rng.choice([0x00, 0xff, 0x80, 0x7f, 0x01, 0x81, 0x82, 0x84, 0x85, 0xfe, 0x40, 0xc0])
        elif kind == 'lenfield' and ln:
            i = rng.randrange(ln)
            b[i:i + 1] = rng.choice([b'\x81\xff', b'\x82\xff\xff', b'\x84\xff\xff\xff\xff', b'\x83\x01\x00\x00', b'\x80', b'\x85\x00\x00\x00\x00\x01',
                                     b'\x7f', b'\xff', b'\x02\xff\xff', b'\x01\xff', b'\x04\xff\xff\xff\xff'])
        elif kind == 'insert':
            i = rng.randrange(ln + 1)
            b[i:i] = bytes([rng.getrandbits(8)])
        elif kind == 'delete' and ln:
            del b[rng.randrange(ln)]
        elif kind == 'extend':
            b += bytes(rng.getrandbits(8) for _j in range(rng.choice([1, 2, 8])))
        elif kind == 'trunc+' and ln > 1:
            k = rng.randrange(1, ln)
            b = b[:k] + bytes(rng.getrandbits(8) for _j in range(rng.choice([0, 1, 3])))
        elif kind == 'head' and ln:
            # keep the head (preamble / presence bits / tags), randomise the rest
            k = rng.randrange(0, min(ln, 4) + 1)
            b = b[:k] + bytes(rng.getrandbits(8) for _j in range(ln - k))
        else:
            b = bytearray(rng.getrandbits(8) for _j in range(rng.choice([0, 1, 2, 3, ln, ln + 1, ln + 4])))
        out.append((kind, bytes(b[:70000])))
    return out


def py_decode(spec, name, data):
    from . import impl
    return impl.decode(spec, name, data, limit=10)


def py_encode(spec, name, value, **kw):
    from . import impl
    return impl.encode(spec, name, value, limit=10, **kw)


def split_dump(s):
    """'ret tok tok ...' -> (ret, [tok])"""
    parts = s.split()
    return int(parts[0]), parts[1:]


class Findings:
    """known-defect predicates are supplied by the property module: fn(kind, info) -> finding id | None"""

    def __init__(self, classify):
        self.classify = classify


def evaluate_module(part, job, workdir, classify):
    """job: dict(codec, modules (AST), seed, nvalues, nmut, label).  `classify(kind, info)` maps a failing case to a known
    finding id (or None => violation)."""
    codec = job['codec']
    env = Env(job['modules'])
    rng = random.Random(job['seed'])
    text = job.get('text') or modules_text(env, job.get('tags', 'AUTOMATIC TAGS'))
    base = {'codec': codec, 'module': text, 'job': repr({k: job.get(k) for k in ('codec', 'modules', 'seed', 'nvalues', 'nmut', 'label', 'text', 'tags', 'expect')})}
    failures = [0]

    def fail(kind, what, info):
        info = dict(info)
        info['kind'] = kind
        info['env'] = env
        failures[0] += 1
        fid = classify(kind, info)
        info.pop('env')
        if fid and fid[0] == 'limitation':
            part.count('documented_limitation.' + fid[1])
        elif fid:
            part.known_finding(fid[0], fid[1])
            part.count('known.%s.%s' % (fid[0], kind))
        else:
            rep = dict(base)
            rep.update({k: (v if isinstance(v, (int, str, list, dict, type(None))) else repr(v)) for k, v in info.items() if k != 'info'})
            part.violation('%s: %s' % (codec, what), rep)

    feat = {}
    for mn, tn, t in env.top_types():
        features(env, t, feat)
        d = depth_of(env, t)
        feat['depth=%d' % min(d, 6)] = feat.get('depth=%d' % min(d, 6), 0) + 1
    for k_, v_ in feat.items():
        part.count('type.' + k_, v_)
    part.count('modules')
    r = generate_c(text, codec)
    part.count('generate.' + r[0])
    if job.get('expect'):
        part.count('edge.%s.%s' % (job['label'], 'rejected' if r[0] in ('rejected', 'compile-rejected') else 'accepted' if r[0] == 'ok' else r[0]))
    if r[0] != 'ok':
        if job.get('expect') == 'reject' and r[0] in ('rejected', 'compile-rejected'):
            part.case((text, 'rejected'))
            part.count('rejection.raised_asn1tools_error')
            return
        if r[0] in ('foreign', 'compile-foreign'):
            fail('generate-foreign', 'the generator raised a foreign exception on a module of the documented subset: %s' % r[1][:200], {'message': r[1]})
        else:
            part.count('generate.rejected-message.' + re.sub(r'^[^:]*: ', '', r[1])[:60])
            part.sample({'codec': codec, 'rejected': r[1][:200], 'module': text[:600]}, limit=2)
        return
    _, compiled, header, source = r
    try:
        h = Header(header)
        dg = DriverGen(env, h, 'ns', codec)
        driver = dg.generate('ns.h')
    except HeaderError as e:
        fail('header', 'the generated header does not declare what the specification requires: %s' % e, {'message': str(e)})
        return
    except Unsupported as e:
        fail('accepted-unsupported', 'the generator accepts a construct outside the documented subset (%s) instead of raising asn1tools.errors.Error' % e, {'message': str(e)})
        return
    for path, ctype, lo, hi in dg.narrow:
        part.count('narrow_ctype')
    b = build(workdir, 'ns', header, source, driver)
    for w, c in b['warnings'].items():
        part.count('gcc.warning.' + w, c)
    if b['errors']:
        fail('not-c99', 'the generated source is not valid C99: %s' % b['errors'][0][:200], {'errors': b['errors'][:5], 'gcc': b['out'][-1500:]})
        return
    if b.get('driver_error'):
        fail('driver', 'the test driver derived from the specification does not compile against the generated header', {'gcc': b['driver_error'][-1500:]})
        return
    part.count('translation_units_built')

    # ---- command lines and their expectations
    lines, meta = [], []
    vg = ValueGen(env, rng, codec)
    strategies = ['min', 'max', 'min1', 'max1', 'zero']
    for idx, (mn, tn, t) in enumerate(env.top_types()):
        rt = env.deref(t)
        width = [0]

        def w(node):
            if node['k'] == 'choice':
                width[0] = max(width[0], len(node['alts']))
            if node['k'] == 'enum':
                width[0] = max(width[0], min(len(node['items']), 40))
        walk(env, t, w)
        nvals = job['nvalues'] + min(width[0], 140)
        seen_tok = set()
        for j in range(nvals):
            strat = strategies[j] if j < len(strategies) else 'rand'
            try:
                v = vg.value(t, strat)
            except Unsupported:
                break
            if not representable(env, t, v):
                fail('narrow', 'a value of the declared INTEGER range cannot be stored in the generated struct member',
                     {'type': tn, 'value': repr(v)[:1000], 'narrow': dg.narrow[:3], 'info': {'type': tn, 'value': v}})
                continue
            toks = tokens(env, codec, t, v)
            key = ' '.join(toks)
            if key in seen_tok:
                continue
            seen_tok.add(key)
            pe = py_encode(compiled, tn, v)
            if pe[0] != 'ok':
                part.count('python_encode_failed.' + pe[1])
                part.sample({'codec': codec, 'python_encode_failed': pe[1:], 'type': type_text(env, t)[:300], 'value': repr(v)[:300]}, limit=1)
                continue
            data = pe[1]
            n = len(data)
            hx = data.hex() or '-'
            info = {'type': tn, 'idx': idx, 'value': v, 'tokens': key[:2000], 'python': data.hex()[:4000]}
            lines.append('E %d %d %s' % (idx, n, key)); meta.append(('E', info, data))
            if n <= 1500:
                lines.append('S %d %d %s' % (idx, n, key)); meta.append(('S', info, n))
            else:
                lines.append('S %d %d %s' % (idx, 200, key)); meta.append(('S', info, 200))
                for sz in (n - 1, n - 2, n - 9, n // 2):
                    lines.append('E %d %d %s' % (idx, sz, key)); meta.append(('Eshort', info, sz))
            lines.append('D %d %s' % (idx, hx)); meta.append(('D', info, (data, toks)))
            if n <= 400:
                lines.append('P %d %s' % (idx, hx)); meta.append(('P', info, data))
            else:
                for k in sorted(set([0, 1, 2, 3, n - 1, n - 2, n // 2] + [rng.randrange(n) for _ in range(4)])):
                    lines.append('R %d %s' % (idx, data[:k].hex() or '-')); meta.append(('Pone', info, (data, k)))
            for kind, alt in mutate_bytes(rng, data, job['nmut'] if n <= 3000 else 1):
                lines.append('R %d %s' % (idx, alt.hex() or '-')); meta.append(('R', dict(info, mutation=kind), alt))
        if rt['k'] == 'choice':
            lines.append('E %d 64 99999' % idx); meta.append(('Ebadchoice', {'type': tn, 'idx': idx}, None))

    outs_g, crashes_g = run_binary(b['gcc'], lines, False)
    outs_s, crashes_s = run_binary(b['san'], lines, True)
    for (li, rc, err, how) in crashes_s:
        m = re.search(r'(runtime error: [^\n]*|ERROR: AddressSanitizer: [^\n]*|ERROR: LeakSanitizer[^\n]*)', err)
        what = m.group(1) if m else 'exit status %s' % rc
        what = re.sub(r'0x[0-9a-f]+', '0x..', what)
        what = re.sub(r'\b\d{5,}\b', 'N', what)
        kind_, info_, _x = meta[li]
        fail('sanitizer', 'sanitizer report in the generated code: %s' % what[:160],
             dict({k: v for k, v in info_.items() if k != 'value'}, value=repr(info_.get('value'))[:1000], command=lines[li][:3000], stderr=err[-2500:], sanitizer=what, op=kind_, info=info_))
    for (li, rc, err, how) in crashes_g:
        kind_, info_, _x = meta[li]
        if not any(c[0] == li for c in crashes_s):
            fail('crash', 'the gcc build crashed (exit %s) where the sanitizer build did not' % rc,
                 dict({k: v for k, v in info_.items() if k != 'value'}, command=lines[li][:3000], stderr=err[-800:], info=info_))

    for li, (line, (kind, info, exp)) in enumerate(zip(lines, meta)):
        og, os_ = outs_g[li], outs_s[li]
        if og is None or os_ is None:
            part.count('commands.no_output')
            continue
        part.case((text, line[:4000]))
        part.count('op.' + kind)
        rinfo = dict(info, command=line[:3000], gcc=og[:3000], san=os_[:3000])
        if 'value' in rinfo:
            rinfo['value'] = repr(rinfo['value'])[:1500]
        if og != os_:
            fail('builds-differ', 'gcc -O2 and clang -fsanitize builds print different results', rinfo)
            continue
        o = og
        if kind == 'E':
            data = exp
            want = 'E %d %s' % (len(data), data.hex() or '-')
            if o != want:
                fail('encode', 'C encode differs from the Python encoder' if o.startswith('E %d ' % len(data)) or not o.startswith('E -') else 'C encode fails on a valid value (%s)' % o[:12], dict(rinfo, info=info))
            else:
                part.count('encode.equal')
                part.sample({'codec': codec, 'type': type_text(env, env.types[(env.top_types()[info['idx']][0], info['type'])], 0)[:400], 'value': repr(info['value'])[:300],
                             'python_encoding': data.hex()[:200], 'c_encode': o[:200]}, limit=2)
        elif kind == 'Eshort':
            ret = int(o.split()[1])
            part.count('encode.short.ret=%s' % (ret if ret < 0 else '>=0'))
            if ret >= 0:
                fail('short-buffer', 'C encode into a buffer smaller than the encoding does not fail', dict(rinfo, info=info, size=exp))
        elif kind == 'S':
            rets = [int(x) for x in o.split()[1:]]
            for x in set(rets):
                part.count('encode.short.ret=%s' % (x if x < 0 else '>=0'), rets.count(x))
            if len(rets) != exp or any(x >= 0 for x in rets):
                bad = [i for i, x in enumerate(rets) if x >= 0][:5]
                fail('short-buffer', 'C encode into a buffer smaller than the encoding does not fail', dict(rinfo, info=info, sizes=bad))
        elif kind == 'D':
            data, toks = exp
            want = 'D %d%s' % (len(data), ''.join(' ' + x for x in toks))
            if o != want:
                fail('decode', 'C decode of the Python encoding gives another struct' if not o.startswith('D -') else 'C decode rejects the Python encoding (%s)' % o[:10],
                     dict(rinfo, info=info, expected=want[:3000]))
            else:
                part.count('decode.equal')
        elif kind == 'P':
            data = exp
            evaluate_prefixes(part, fail, compiled, env, codec, info, rinfo, data, o)
        elif kind == 'Pone':
            data, k = exp
            evaluate_arbitrary(part, fail, compiled, env, codec, info, rinfo, data[:k], o, prefix_of=data)
        elif kind == 'R':
            evaluate_arbitrary(part, fail, compiled, env, codec, info, rinfo, exp, o)
        elif kind == 'Ebadchoice':
            ret = int(o.split()[1])
            part.count('encode.badchoice.ret=%d' % ret)
            if ret >= 0:
                fail('bad-choice', 'C encode of a struct with an invalid CHOICE selector does not fail', rinfo)
    if job.get('expect') and failures[0] == 0:
        part.count('edge.%s.equivalent_to_python' % job['label'])
    return compiled, b, dg


def type_of(env, info):
    for mn, tn, t in env.top_types():
        if tn == info['type']:
            return t
    raise KeyError(info['type'])


def evaluate_prefixes(part, fail, compiled, env, codec, info, rinfo, data, o):
    """`P` line: 'P r0 [ toks ] r1 ...' one entry per strict prefix"""
    toks = o.split()[1:]
    entries = []
    i = 0
    while i < len(toks):
        ret = int(toks[i])
        i += 1
        d = None
        if i < len(toks) and toks[i] == '[':
            j = toks.index(']', i)
            d = toks[i + 1:j]
            i = j + 1
        entries.append((ret, d))
    if len(entries) != len(data):
        fail('prefix', 'driver printed %d prefix results for %d prefixes' % (len(entries), len(data)), rinfo)
        return
    t = type_of(env, info)
    for k, (ret, d) in enumerate(entries):
        part.count('prefix.ret=%s' % (ret if ret < 0 else 'accepted'))
        if ret < 0:
            continue
        # accepted by C: legitimate only if the Python decoder accepts the prefix with the same value
        pd = py_decode(compiled, info['type'], data[:k])
        same = False
        if pd[0] == 'ok':
            try:
                same = tokens(env, codec, t, pd[1]) == d
            except BadValue:
                same = False
        if not same:
            fail('prefix', 'C decode accepts a strict prefix (%d of %d octets) of a valid encoding%s' % (
                k, len(data), '' if pd[0] != 'ok' else ' with a value different from the Python decoder'),
                dict(rinfo, info=info, cut=k, c_dump=' '.join(d)[:1000], python=repr(pd)[:500]))
        else:
            part.count('prefix.accepted_like_python')


def evaluate_arbitrary(part, fail, compiled, env, codec, info, rinfo, data, o, prefix_of=None):
    """`R` line: 'R r1 toks | r2 hex | r3 toks'"""
    t = type_of(env, info)
    segs = [s.split() for s in o[2:].split('|')]
    r1 = int(segs[0][0])
    d1 = segs[0][1:]
    pd = py_decode(compiled, info['type'], data)
    rinfo = dict(rinfo, input=data.hex()[:4000], python=repr(pd)[:600])
    if pd[0] == 'err' and pd[1] not in ('DecodeError',):
        part.count('arbitrary.python_raises.' + pd[1])
    if r1 < 0:
        part.count('arbitrary.c_rejects.ret=%d' % r1)
        if pd[0] == 'ok' and in_constraints(env, t, pd[1]):
            canon = py_encode(compiled, info['type'], pd[1])
            if canon[0] == 'ok' and data.startswith(canon[1]) and len(canon[1]) > 0:
                fail('reject-valid', 'C decode rejects (%d) a valid encoding followed by %d more octets' % (r1, len(data) - len(canon[1])), dict(rinfo, info=info))
            else:
                part.count('arbitrary.c_rejects_python_accepts_noncanonical')
        return
    part.count('arbitrary.c_accepts')
    if prefix_of is not None and len(data) < len(prefix_of):
        same = False
        if pd[0] == 'ok':
            try:
                same = tokens(env, codec, t, pd[1]) == d1
            except BadValue:
                pass
        if not same:
            fail('prefix', 'C decode accepts a strict prefix (%d of %d octets) of a valid encoding' % (len(data), len(prefix_of)), dict(rinfo, info=info, cut=len(data)))
        return
    if 'OVERLEN' in d1:
        fail('overlen', 'C decode accepts a length beyond the size of the struct member array', dict(rinfo, info=info))
        return
    if len(segs) < 2:
        fail('reencode', 'driver output incomplete', rinfo)
        return
    r2 = int(segs[1][0])
    if r2 < 0:
        fail('reencode', 'an input accepted by C decode does not re-encode (%d)' % r2, dict(rinfo, info=info, c_dump=' '.join(d1)[:1500]))
    else:
        r3 = int(segs[2][0])
        d3 = segs[2][1:]
        if r3 < 0 or d3 != d1:
            fail('redecode', 'an input accepted by C decode re-encodes to bytes that %s' % ('are rejected (%d)' % r3 if r3 < 0 else 'decode to another struct'),
                 dict(rinfo, info=info, c_dump=' '.join(d1)[:1500]))
        else:
            part.count('arbitrary.reencode_redecode_same')
    # against the Python decoder
    if pd[0] == 'ok':
        if not in_constraints(env, t, pd[1]):
            part.count('arbitrary.python_value_outside_constraints')
            return
        try:
            ptoks = tokens(env, codec, t, pd[1])
        except BadValue:
            part.count('arbitrary.python_value_not_comparable')
            return
        if ptoks != d1:
            fail('decode-differs', 'C decode and the Python decoder accept the same input with different values', dict(rinfo, info=info, c_dump=' '.join(d1)[:1500], python_dump=' '.join(ptoks)[:1500]))
        else:
            part.count('arbitrary.same_value_as_python')
    else:
        fail('accept-invalid', 'C decode accepts an input the Python decoder rejects (%s)' % pd[1], dict(rinfo, info=info, c_dump=' '.join(d1)[:1500]))


# --------------------------------------------------------------------------------------------------------------
# known defects of the generators: predicates over (type, value) / (type) / (module set, diagnostic)


def touches(env, t, v, pred, depth=0):
    """does the value v pass through a type node satisfying pred (present members, the selected alternative,
    elements of a non-empty list)"""
    if depth > 40:
        return False
    if pred(t):
        return True
    k = t['k']
    if k == 'ref':
        return touches(env, env.deref(t), v, pred, depth + 1)
    try:
        if k == 'seq':
            for m in t['members'] + (t.get('ext') or []):
                if m['name'] in v:
                    if touches(env, m['t'], v[m['name']], pred, depth + 1):
                        return True
                elif m['default'] is not None and touches(env, m['t'], m['default'], pred, depth + 1):
                    return True
            return False
        if k == 'seqof':
            return any(touches(env, t['elem'], e, pred, depth + 1) for e in v)
        if k == 'choice':
            return touches(env, dict(t['alts'])[v[0]], v[1], pred, depth + 1)
    except Exception:
        return True
    return False


def contains(env, t, pred):
    found = []

    def f(node):
        if pred(node):
            found.append(node)
    walk(env, t, f)
    return bool(found)


def env_contains(env, pred):
    return any(contains(env, t, pred) for _, _, t in env.top_types())


def uper_bits(t):
    return (t['hi'] - t['lo']).bit_length()


SPECIAL_MIN = (0, -128, -32768, -2147483648, -9223372036854775808)


def p_narrow(t):
    if t['k'] != 'int' or t.get('_ctype') is None:
        return False
    lo, hi = INT_TYPES[t['_ctype']]
    return t['lo'] < lo or t['hi'] > hi


def p_uper_helper_mismatch(t):
    """uper.py format_integer_inner takes the fixed-width helper when number_of_bits in (8,16,32,64) and the lower bound is one of
    0,-2^7,-2^15,-2^31,-2^63 — without checking that the two belong together"""
    if t['k'] != 'int' or t.get('_ctype') is None:
        return False
    nb = uper_bits(t)
    if nb not in (8, 16, 32, 64) or t['lo'] not in SPECIAL_MIN:
        return False
    clo, chi = INT_TYPES[t['_ctype']]
    width = (chi - clo).bit_length()
    return not (width == nb and (t['lo'] == 0 or t['lo'] == -2 ** (nb - 1)))


def p_uper_offset_overflow(t):
    """(uint64_t)(src_p->x - lo) and dst_p->x += lo are evaluated in the (promoted) signed member type"""
    if t['k'] != 'int' or t.get('_ctype') is None:
        return False
    nb = uper_bits(t)
    if nb in (8, 16, 32, 64) and t['lo'] in SPECIAL_MIN:
        return False
    clo, chi = INT_TYPES[t['_ctype']]
    if clo == 0:
        return False
    width = (chi - clo).bit_length()
    return width in (32, 64) and t['hi'] - t['lo'] > chi


def p_ext_choice_enum(t):
    return t['k'] in ('choice', 'enum') and t.get('ext') is not None and t.get('ext') is not False


def p_ext_seq(t):
    return t['k'] == 'seq' and t.get('ext') is not None


def p_enum_hyphen_mapped(t):
    if t['k'] != 'enum':
        return False
    srt = sorted(v for _, v in t['items'])
    mapped = srt != list(range(len(srt)))
    return mapped and any(canonical(n) != n for n, _ in t['items'])


def p_default_enum_hyphen(env):
    def pred(t):
        if t['k'] != 'seq':
            return False
        for m in t['members']:
            if m['default'] is not None and env.deref(m['t'])['k'] == 'enum' and (
                    canonical(m['default']) != m['default'] or (m['t']['k'] != 'ref' and canonical(m['name']) != m['name'])):
                return True
        return False
    return pred


def p_size_64k(t):
    return t['k'] in ('octs', 'seqof') and t.get('hi') is not None and (t['hi'] >= 65536 or t['hi'] - t['lo'] >= 65536)


def p_oer_bits_567(t):
    return t['k'] == 'bits' and (t['n'] + 7) // 8 in (5, 6, 7)


def p_oer_len_u8(t):
    return (t['k'] == 'octs' and t['lo'] != t['hi'] and 128 <= t['hi'] <= 255) or (t['k'] == 'seqof' and t['lo'] != t['hi'] and t['hi'] <= 255)


def p_uper_len_wraps_u8(t):
    return t['k'] in ('octs', 'seqof') and t['lo'] != t['hi'] and t['hi'] <= 255 and t['lo'] + 2 ** uper_bits(t) - 1 > 255


def p_oer_seqof_fixed_256(t):
    return t['k'] == 'seqof' and t['lo'] == t['hi'] and t['hi'] >= 256


def p_enum(t):
    return t['k'] == 'enum'


def fixed_len(env, t):
    """OER encoding length independent of the value, as oer.py get_encoded_*_lengths can compute it"""
    r = env.deref(t)
    k = r['k']
    if k in ('int', 'bool', 'null', 'real'):
        return True
    if k == 'octs':
        return r['lo'] == r['hi']
    if k == 'seq':
        return (r.get('ext') in (None, []) and all(not m['opt'] and m['default'] is None and fixed_len(env, m['t']) for m in r['members']))
    return False


def safe_addition(env, t, top=True):
    """types for which oer.py computes the open type length of an extension addition correctly (mapped out by probing);
    top: the SEQUENCE that owns the addition is itself a top-level type (the CHOICE length helper takes `struct <location>_t *`)"""
    r = env.deref(t)
    k = r['k']
    if k in ('int', 'bool', 'null', 'real', 'octs'):
        return True
    if k == 'enum':
        return t['k'] != 'ref'
    if k == 'seq':
        return fixed_len(env, r)
    if k == 'seqof':
        return r['lo'] != r['hi'] and fixed_len(env, r['elem'])
    if k == 'choice':
        return top and t['k'] != 'ref' and all(fixed_len(env, a) for _, a in r['alts'])
    return False


def p_oer_unsafe_addition(env):
    tops = set(id(t) for _, _, t in env.top_types())

    def pred(t):
        if t['k'] != 'seq' or not t.get('ext'):
            return False
        for m in t['ext']:
            if env.deref(m['t'])['k'] == 'bits':
                continue          # rejected by the generator
            if not safe_addition(env, m['t'], id(t) in tops):
                return True
        return False
    return pred


def choice_helper_collision(env):
    """oer.py names the length helper of a CHOICE-typed addition get_choice_<member name>_length and emits it once"""
    names = {}
    hit = []

    def f(t):
        if t['k'] == 'seq' and t.get('ext'):
            for m in t['ext']:
                if env.deref(m['t'])['k'] == 'choice':
                    key = snake(m['name'])
                    if key in names and names[key] is not m:
                        hit.append(key)
                    names[key] = m
    for _, _, t in env.top_types():
        walk(env, t, f, through_refs=False)
    return bool(hit)


def p_oer_additions_in_seqof(env):
    """an inline SEQUENCE with extension additions below (inline, same C function) a SEQUENCE OF: the scan for unknown additions
    is emitted with the literal loop variable `i`, which is the index of the enclosing element loop"""
    def inline_has_additions(t, depth=0):
        k = t['k']
        if k == 'seq':
            if t.get('ext'):
                return True
            return any(inline_has_additions(m['t'], depth + 1) for m in t['members'])
        if k == 'seqof':
            return inline_has_additions(t['elem'], depth + 1)
        if k == 'choice':
            return any(inline_has_additions(a, depth + 1) for _, a in t['alts'])
        return False

    def pred(t):
        return t['k'] == 'seqof' and inline_has_additions(t['elem'])
    return pred


def p_oer_additions_multiple_of_8(t):
    return t['k'] == 'seq' and bool(t.get('ext')) and len(t['ext']) % 8 == 0


def p_seq_with_additions(t):
    return t['k'] == 'seq' and bool(t.get('ext'))


def p_seq_empty_ext(t):
    return t['k'] == 'seq' and t.get('ext') == []


FUNCTIONAL = {'encode', 'decode', 'short-buffer', 'prefix', 'reject-valid', 'accept-invalid', 'decode-differs', 'reencode', 'redecode'}
ARBITRARY = {'reject-valid', 'accept-invalid', 'decode-differs', 'reencode', 'redecode'}

FINDINGS = {
    'uper': [
        dict(id='C09-int-range-wider-than-ctype', kinds={'narrow'} | ARBITRARY, pred=p_narrow,
             what='utils.py type_length picks intN_t from the lower bound alone: INTEGER (-1..255) becomes int8_t, which cannot hold 255'),
        dict(id='C09-extensible-choice-enum-no-extension-bit', kinds=FUNCTIONAL, pred=p_ext_choice_enum,
             what='uper.py ignores the extension marker of CHOICE and ENUMERATED: the extension bit is neither written nor read'),
        dict(id='C09-int-fixed-width-helper-mismatch', kinds=FUNCTIONAL, pred=p_uper_helper_mismatch,
             what='uper.py format_integer_inner: number_of_bits in (8,16,32,64) and minimum in (0,-2^7,-2^15,-2^31,-2^63) selects encoder_append_<member type>() although width and offset do not belong together, e.g. INTEGER (-9223372036854775808..-9223372036854775553) is written in 64 bits instead of 8'),
        dict(id='C09-length-wraps-in-uint8', kinds=ARBITRARY, pred=p_uper_len_wraps_u8,
             what='uper.py adds the lower bound to the decoded length in the uint8_t length member before comparing with the maximum: SIZE(1..255) with length field 255 wraps to 0 and is accepted'),
        dict(id='C09-int-offset-arithmetic-overflow', kinds={'sanitizer'}, pred=p_uper_offset_overflow, message='signed integer overflow',
             what='(uint64_t)(src_p->x - lo) / dst_p->x += lo are evaluated in the signed member type: undefined behaviour when hi - lo does not fit, e.g. INTEGER (-1..2147483647)'),
    ],
    'oer': [
        dict(id='C10-int-range-wider-than-ctype', kinds=FUNCTIONAL | {'narrow'}, pred=p_narrow,
             what='utils.py type_length picks intN_t from the lower bound alone: INTEGER (-1..255) becomes int8_t (1 octet on the wire, cannot hold 255) where X.696 and the Python codec use 2 octets'),
        dict(id='C10-bit-string-5-to-7-octets', kinds=FUNCTIONAL, pred=p_oer_bits_567,
             what='oer.py format_bit_string_inner uses value_length() in (1,2,3,4,8): a BIT STRING of 33..56 bits is written as 8 octets instead of 5..7'),
        dict(id='C10-length-truncated-before-check', kinds=ARBITRARY, pred=p_oer_len_u8,
             what='oer.py stores the decoded length determinant / quantity in the uint8_t length member before comparing it with the maximum: 0x82 0x01 0x05 (261) is accepted as length 5'),
        dict(id='C10-seqof-fixed-size-over-255', kinds=FUNCTIONAL, pred=p_oer_seqof_fixed_256,
             what='oer.py format_sequence_of_inner: a fixed SIZE(n) with n >= 256 is encoded with a 2-octet quantity but the generated decoder insists on 1 octet (EBADLENGTH on its own output)'),
    ],
}


def make_classifier(codec):
    table = FINDINGS[codec]
    prop = 'C09' if codec == 'uper' else 'C10'

    def classify(kind, info):
        env = info['env']
        inner = info.get('info') or {}
        t = None
        if inner.get('type') is not None:
            try:
                t = type_of(env, inner)
            except KeyError:
                t = None
        has_value = 'value' in inner and kind in ('encode', 'decode', 'short-buffer', 'narrow') or (kind == 'sanitizer' and info.get('op') in ('E', 'S', 'Eshort'))
        v = inner.get('value')

        def applies(pred):
            if t is None:
                return env_contains(env, pred)
            if has_value:
                return touches(env, t, v, pred)
            return contains(env, t, pred)

        # module-level diagnostics
        if kind == 'generate-foreign':
            msg = info.get('message', '')
            if codec == 'uper' and msg.startswith('KeyError') and env_contains(env, p_enum_hyphen_mapped):
                return (prop + '-enum-hyphen-keyerror', 'uper.py format_enumerated_inner looks up canonical()-ised names in root_data_to_index: an ENUMERATED with a hyphenated item and explicit numbers raises KeyError')
            if codec == 'uper' and msg.startswith('TypeError') and env_contains(env, p_size_64k):
                return (prop + '-size-over-65535-typeerror', 'uper: OCTET STRING / SEQUENCE OF with an upper bound >= 65536 has number_of_bits None: TypeError instead of a rejection')
            return None
        ADD_WHAT = ('oer.py get_encoded_*_lengths (open type length of an extension addition) builds wrong member paths / ignores presence: '
                    'additions of type SEQUENCE with OPTIONAL or variable-length members, SEQUENCE OF with fixed size or variable-length elements, '
                    'CHOICE or ENUMERATED through a type reference, CHOICE with variable-length alternatives or inside a nested SEQUENCE give invalid C or a wrong length')
        if codec == 'oer' and kind == 'not-c99' and env_contains(env, p_oer_unsafe_addition(env)):
            return ('C10-addition-open-type-length', ADD_WHAT)
        if codec == 'oer' and kind in FUNCTIONAL and t is not None and applies(p_oer_unsafe_addition(env)):
            return ('C10-addition-open-type-length', ADD_WHAT)
        if codec == 'oer' and (kind in FUNCTIONAL or kind == 'not-c99') and choice_helper_collision(env):
            return ('C10-addition-choice-helper-name-collision', 'oer.py emits get_choice_<member name>_length once per member name: two CHOICE-typed additions with the same name in different types share one helper')
        if kind == 'not-c99':
            errs = ' '.join(info.get('errors') or [])
            if env_contains(env, p_default_enum_hyphen(env)) and ('undeclared' in errs or 'invalid suffix' in errs):
                return (prop + '-enum-default-hyphen', 'utils.py format_default_enumerated emits the raw ASN.1 names of the member and of the DEFAULT enumeration item: a hyphen in either gives invalid C')
            return None
        for f in table:
            if kind not in f['kinds']:
                continue
            if f.get('message') and f['message'] not in (info.get('sanitizer') or ''):
                continue
            if applies(f['pred']):
                return (f['id'], f['what'])
        if codec == 'oer' and kind == 'accept-invalid' and 'Expected enumeration value' in (info.get('python') or '') and t is not None and contains(env, t, p_enum):
            return ('C10-enum-unknown-value-accepted', 'oer.py format_enumerated_inner: the generated decoder stores any number in the enum member without checking that it is an item of the type')
        if codec == 'oer' and t is not None and (kind in FUNCTIONAL or kind in ('crash', 'builds-differ') or (kind == 'sanitizer' and (
                'out of bounds' in (info.get('sanitizer') or '') or 'AddressSanitizer' in (info.get('sanitizer') or '')))) \
                and contains(env, t, p_oer_additions_in_seqof(env)):
            return ('C10-additions-scan-clobbers-element-index', 'oer.py format_sequence_additions writes the scan for unknown additions as `for (i = N; ...)` with the literal name i: '
                    'inside a SEQUENCE OF that is the element index, so the rest of the element is stored at elements[N...] (out of bounds when N >= the array size) — on VALID input')
        if codec == 'oer' and info.get('skew') and kind in ('decode', 'sanitizer') and t is not None and contains(env, t, p_oer_additions_multiple_of_8):
            return ('C10-unknown-additions-after-8k-known', 'oer.py format_sequence_additions: with 8, 16, ... known additions the scan of the unknown presence bits starts with mask 0x80 on the LAST KNOWN '
                    'bitmap octet instead of reading the next octet: unknown additions of a newer version are miscounted')
        if codec == 'oer' and info.get('skew') and kind == 'decode' and t is not None and applies(p_seq_empty_ext):
            return ('C10-empty-extension-marker-additions-not-skipped', 'oer.py format_sequence_inner emits the code that skips unknown extension additions only when the type itself has additions: '
                    'SEQUENCE { a, ... } ignores the extension bit and reads what follows the additions from the wrong place')
        if codec == 'oer' and kind in ('accept-invalid', 'decode-differs') and t is not None and contains(env, t, p_seq_with_additions):
            return ('C10-addition-open-type-length-ignored-on-decode', 'oer.py: the generated decoder discards the open type length of a known extension addition '
                    '((void)decoder_read_length_determinant) and the unused-bits octet is trusted: malformed additions are accepted where the Python decoder reports an error')
        if codec == 'oer' and kind in ('accept-invalid', 'decode-differs') and t is not None and contains(env, t, p_seq_empty_ext):
            return ('C10-empty-extension-marker-additions-not-skipped', 'oer.py format_sequence_inner emits the code that skips unknown extension additions only when the type itself has additions: '
                    'SEQUENCE { a, ... } ignores the extension bit and reads what follows the additions from the wrong place')
        if codec == 'uper' and kind in ('accept-invalid', 'decode-differs') and t is not None and contains(env, t, p_ext_seq):
            return ('limitation', 'uper-extension-bit-of-sequence-ignored')
        return None

    return classify


# --------------------------------------------------------------------------------------------------------------
# OER version skew: V2 = V1 + appended extension additions; V2 bytes (Python encoder, V2 generated C) into the V1 generated C


def extend_env(rng, env1, gen):
    """deep copy of env1 with additions appended to every extensible SEQUENCE (and items / alternatives to extensible
    ENUMERATED / CHOICE); returns env2"""
    import copy
    mods2 = copy.deepcopy(env1.modules)
    env2 = Env(mods2)
    counter = [0]

    def grow(t):
        k = t['k']
        if k == 'seq' and t.get('ext') is not None:
            n = rng.choice([1, 1, 2, 3]) if len(t['ext']) < 12 else 1
            if rng.random() < 0.1:
                n = rng.choice([7, 8, 9])
            for _ in range(n):
                counter[0] += 1
                for _try in range(12):
                    nt = gen.leaf() if rng.random() < 0.7 else gen.type(gen.maxd - 1 if gen.maxd > 1 else 1)
                    if safe_addition(env2, nt, False) and env2.deref(nt)['k'] != 'bits' and not contains(env2, nt, lambda x: x['k'] == 'bits'):
                        break
                else:
                    nt = T('bool')
                nm = 'n%d' % counter[0]
                t['ext'].append(member(nm, nt, opt=rng.random() < 0.6))
                t.setdefault('_new', []).append(nm)
        elif k == 'enum' and t.get('ext') is True:
            top = max(v for _, v in t['items'])
            t['ext'] = [('new%d' % i, top + 1 + i) for i in range(rng.choice([1, 2]))]
        elif k == 'choice' and t.get('ext') is True:
            t['ext'] = [('newalt%d' % i, T('bool')) for i in range(rng.choice([1, 2]))]
    for _, _, t in env2.top_types():
        walk(env2, t, grow, through_refs=False)
    return env2


def project(env1, t1, env2, t2, v):
    """the V1 view of a V2 value"""
    t1 = env1.deref(t1)
    t2 = env2.deref(t2)
    k = t1['k']
    if k == 'seq':
        out = {}
        m2 = {m['name']: m for m in t2['members'] + (t2.get('ext') or [])}
        for m in t1['members'] + (t1.get('ext') or []):
            if m['name'] in v:
                out[m['name']] = project(env1, m['t'], env2, m2[m['name']]['t'], v[m['name']])
        return out
    if k == 'seqof':
        return [project(env1, t1['elem'], env2, t2['elem'], e) for e in v]
    if k == 'choice':
        d1 = dict(t1['alts'])
        d2 = dict(t2['alts'])
        return (v[0], project(env1, d1[v[0]], env2, d2[v[0]], v[1]))
    return v


def build_env(part, fail, env, codec, workdir, label):
    text = modules_text(env)
    r = generate_c(text, codec)
    part.count('%s.generate.%s' % (label, r[0]))
    if r[0] != 'ok':
        if r[0] in ('foreign', 'compile-foreign'):
            fail('generate-foreign', 'the generator raised a foreign exception: %s' % r[1][:200], {'message': r[1], 'module_' + label: text})
        return None
    _, compiled, header, source = r
    try:
        h = Header(header)
        dg = DriverGen(env, h, 'ns', codec)
        driver = dg.generate('ns.h')
    except HeaderError as e:
        fail('header', 'the generated header does not declare what the specification requires: %s' % e, {'message': str(e), 'module_' + label: text})
        return None
    b = build(workdir, 'ns', header, source, driver)
    if b['errors']:
        fail('not-c99', 'the generated source is not valid C99: %s' % b['errors'][0][:200], {'errors': b['errors'][:5], 'gcc': b['out'][-1500:], 'module_' + label: text})
        return None
    if b.get('driver_error'):
        fail('driver', 'the test driver does not compile against the generated header', {'gcc': b['driver_error'][-1500:], 'module_' + label: text})
        return None
    return compiled, b, dg


def evaluate_skew(part, job, workdir, classify):
    """job: dict(codec='oer', modules (V1), modules2 (V2), seed, nvalues)"""
    codec = job['codec']
    env1, env2 = Env(job['modules']), Env(job['modules2'])
    rng = random.Random(job['seed'])
    text1, text2 = modules_text(env1), modules_text(env2)
    base = {'codec': codec, 'module': text1, 'module_v2': text2, 'job': repr({k: job[k] for k in ('codec', 'modules', 'modules2', 'seed', 'nvalues', 'label')})}
    cur = {'env': env1}

    def fail(kind, what, info):
        info = dict(info)
        info['kind'] = kind
        info['env'] = cur['env']
        info['skew'] = True
        fid = classify(kind, info)
        info.pop('env')
        if fid and fid[0] == 'limitation':
            part.count('documented_limitation.' + fid[1])
        elif fid:
            part.known_finding(fid[0], fid[1])
            part.count('known.%s.skew-%s' % (fid[0], kind))
        else:
            rep = dict(base)
            rep.update({k: (v if isinstance(v, (int, str, list, dict, type(None))) else repr(v)) for k, v in info.items() if k != 'info'})
            part.violation('%s: %s' % (codec, what), rep)

    part.count('skew.module_pairs')
    cur['env'] = env1
    r1 = build_env(part, fail, env1, codec, os.path.join(workdir, 'v1'), 'v1')
    cur['env'] = env2
    r2 = build_env(part, fail, env2, codec, os.path.join(workdir, 'v2'), 'v2')
    if r1 is None or r2 is None:
        return
    spec1, b1, dg1 = r1
    spec2, b2, dg2 = r2
    vg = ValueGen(env2, rng)
    lines2, lines1, meta = [], [], []
    tops1 = env1.top_types()
    for idx, (mn, tn, t2) in enumerate(env2.top_types()):
        t1 = tops1[idx][2]
        if not contains(env2, t2, lambda x: bool(x.get('_new')) or (x['k'] in ('enum', 'choice') and isinstance(x.get('ext'), list))):
            continue
        seen = set()
        for j in range(job['nvalues']):
            strat = ['min', 'max'][j] if j < 2 else 'rand'
            v2 = vg.value(t2, strat)
            if not representable(env2, t2, v2):
                continue
            toks2 = ' '.join(tokens(env2, codec, t2, v2))
            if toks2 in seen:
                continue
            seen.add(toks2)
            pe = py_encode(spec2, tn, v2)
            if pe[0] != 'ok':
                part.count('skew.python_encode_failed')
                continue
            data = pe[1]
            v1 = project(env1, t1, env2, t2, v2)
            uses_new = new_names_used(env2, v2)
            toks1 = tokens(env1, codec, t1, v1)
            info = {'type': tn, 'idx': idx, 'value': v2, 'v1_value': v1, 'python_v2': data.hex()[:4000], 'uses_new_additions': uses_new}
            lines2.append('E %d %d %s' % (idx, len(data), toks2))
            lines1.append('D %d %s' % (idx, data.hex() or '-'))
            meta.append((info, data, toks1))
    if not lines1:
        part.count('skew.no_extended_type')
        return
    o2g, c2g = run_binary(b2['gcc'], lines2, False)
    o2s, c2s = run_binary(b2['san'], lines2, True)
    o1g, c1g = run_binary(b1['gcc'], lines1, False)
    o1s, c1s = run_binary(b1['san'], lines1, True)
    for which, crashes, lines in (('v2 encoder', c2s, lines2), ('v1 decoder', c1s, lines1)):
        cur['env'] = env2 if which.startswith('v2') else env1
        for (li, rc, err, how) in crashes:
            m = re.search(r'(runtime error: [^\n]*|ERROR: AddressSanitizer: [^\n]*|ERROR: LeakSanitizer[^\n]*)', err)
            what = re.sub(r'0x[0-9a-f]+', '0x..', m.group(1) if m else 'exit status %s' % rc)
            fail('sanitizer', 'sanitizer report in the generated code (%s, version skew): %s' % (which, what[:160]),
                 {'type': meta[li][0]['type'], 'command': lines[li][:3000], 'stderr': err[-2500:], 'sanitizer': what, 'op': lines[li][0], 'info': meta[li][0]})
    for li, (info, data, toks1) in enumerate(meta):
        part.case((text1, text2, lines1[li][:4000]))
        part.count('skew.cases')
        part.count('skew.uses_new_additions' if info['uses_new_additions'] else 'skew.only_v1_members')
        rinfo = {'type': info['type'], 'value_v2': repr(info['value'])[:1500], 'value_v1_projection': repr(info['v1_value'])[:1500], 'python_v2_encoding': info['python_v2'],
                 'v2_command': lines2[li][:3000], 'v1_command': lines1[li][:3000], 'v2_c': str(o2g[li])[:3000], 'v1_c': str(o1g[li])[:3000]}
        if None in (o2g[li], o2s[li], o1g[li], o1s[li]):
            part.count('commands.no_output')
            continue
        if o2g[li] != o2s[li] or o1g[li] != o1s[li]:
            fail('builds-differ', 'gcc -O2 and clang -fsanitize builds print different results (version skew)', dict(rinfo, info=info))
            continue
        # V2 generated C encodes like the Python V2 encoder
        cur['env'] = env2
        if o2g[li] != 'E %d %s' % (len(data), data.hex() or '-'):
            fail('encode', 'V2 generated C encode differs from the Python V2 encoder', dict(rinfo, info=info))
        # V1 generated C decodes the V2 bytes to the V1 projection
        cur['env'] = env1
        want = 'D %d%s' % (len(data), ''.join(' ' + x for x in toks1))
        v1info = dict(info, value=info['v1_value'])
        if o1g[li] != want:
            fail('decode', 'V1 generated C decode of a V2 encoding: %s' % ('rejected (%s)' % o1g[li][:10] if o1g[li].startswith('D -') else 'not the V1 projection of the value'),
                 dict(rinfo, info=v1info, expected=want[:3000]))
        else:
            part.count('skew.v1_decodes_projection')
            part.sample({'codec': codec, 'version_skew': True, 'v2_value': repr(info['value'])[:200], 'v2_encoding': data.hex()[:120], 'v1_c_decode': o1g[li][:160]}, limit=1)
        pd = py_decode(spec1, info['type'], data)
        if pd[0] != 'ok':
            part.count('skew.python_v1_rejects')
        else:
            try:
                same = tokens(env1, codec, tops1[info['idx']][2], pd[1]) == toks1
            except BadValue:
                same = False
            part.count('skew.python_v1_%s' % ('same' if same else 'differs'))


# --------------------------------------------------------------------------------------------------------------
# the property run (shared by props/c09.py and props/c10.py)

_WORKROOT = None
_CLASSIFY = None


def _work(job):
    part = core.Part()
    wd = os.path.join(_WORKROOT, 'j%d' % job['id'])
    try:
        if job.get('kind') == 'chelpers':
            os.makedirs(wd)
            helper_correspondence(part, job['codec'], job['seed'], job['n'], wd)
        elif job.get('kind') == 'chelpers-ub':
            os.makedirs(wd)
            helper_ub(part, job['codec'], wd)
        elif job.get('kind') == 'constants':
            os.makedirs(wd)
            constants_oer(part, job['seed'], wd)
        elif job.get('modules2') is not None:
            evaluate_skew(part, job, wd, _CLASSIFY)
        else:
            evaluate_module(part, job, wd, _CLASSIFY)
    except subprocess.TimeoutExpired as e:
        part.violation('%s: a generated binary did not finish within %s s' % (job['codec'], e.timeout), {'job': repr(job)[:6000]})
    finally:
        shutil.rmtree(wd, ignore_errors=True)
    return part


def new_names_used(env2, v):
    names = []

    def f(t):
        names.extend(t.get('_new') or [])
    for _, _, t in env2.top_types():
        walk(env2, t, f, through_refs=False)
    r = repr(v)
    return any(("'%s':" % n) in r for n in names)


def skew_witnesses():
    """hand-made V1/V2 pairs for the two recorded version-skew defects (and one pair that must work)"""
    B = T('bool')
    I8 = T('int', lo=0, hi=255)
    out = []

    def pair(label, inner_v1_ext, n_new):
        def mk(ext, new):
            q = T('seq', members=[member('a', B)], ext=ext)
            if new:
                q['_new'] = new
            return [('A', T('seq', members=[member('q', q), member('z', I8)], ext=None))]
        ext1 = [member('x%d' % i, B, opt=True) for i in range(inner_v1_ext)]
        ext2 = [member('x%d' % i, B, opt=True) for i in range(inner_v1_ext)] + [member('n%d' % i, I8, opt=(i > 0)) for i in range(n_new)]
        out.append((label, [('M', mk(ext1, None))], [('M', mk(ext2, ['n%d' % i for i in range(n_new)]))]))
    pair('skew-witness-empty-marker', 0, 1)
    pair('skew-witness-8-known-additions', 8, 1)
    pair('skew-witness-16-known-additions', 16, 2)
    pair('skew-3-known-additions', 3, 2)
    pair('skew-7-known-additions', 7, 9)
    return out


def edge_env(body_types, modname='M'):
    return Env([(modname, body_types)])


def common_edges(codec):
    """constructs outside (or at the edge of) the documented subset: (label, expect, types, options)
    expect = 'reject': asn1tools.errors.Error is the correct answer; if the generator accepts, the translation is evaluated
    expect = 'accept': inside the subset but special; evaluated"""
    I3 = T('int', lo=0, hi=7)
    B = T('bool')
    E = []

    def seq(*members, **kw):
        return T('seq', members=list(members), ext=kw.get('ext'), group=kw.get('group'))
    E.append(('real-plain-member', 'reject', [('A', seq(member('a', B), member('r', T('real', fmt=None)), member('b', B)))], {}))
    E.append(('real-plain-top', 'reject', [('A', T('real', fmt=None))], {}))
    if codec == 'uper':
        E.append(('real-ieee32-member', 'reject', [('A', seq(member('a', B), member('r', T('real', fmt='f')), member('b', B)))], {}))
        E.append(('real-ieee64-seqof', 'reject', [('A', T('seqof', elem=T('real', fmt='d'), lo=0, hi=2))], {}))
    for label, t in [('int-unbounded', T('int', lo=None, hi=None)), ('int-min-only', T('int', lo=0, hi=None)), ('int-max-only', T('int', lo=None, hi=5)),
                     ('int-65-bit-unsigned', T('int', lo=0, hi=2 ** 64)), ('int-65-bit-signed', T('int', lo=-2 ** 63 - 1, hi=0)),
                     ('int-mixed-65-bit', T('int', lo=-1, hi=2 ** 63)), ('int-extensible', T('int', lo=0, hi=7, ext=True)),
                     ('octs-unbounded', T('octs', lo=None, hi=None)), ('octs-min-only', T('octs', lo=1, hi=None)), ('octs-extensible', T('octs', lo=1, hi=4, ext=True)),
                     ('bits-variable', T('raw', text='BIT STRING (SIZE(1..8))')), ('bits-65', T('raw', text='BIT STRING (SIZE(65))')), ('bits-unbounded', T('raw', text='BIT STRING')),
                     ('ia5string', T('raw', text='IA5String (SIZE(1..4))')), ('utf8string', T('raw', text='UTF8String (SIZE(1..4))')),
                     ('visiblestring', T('raw', text='VisibleString (SIZE(3))')), ('numericstring', T('raw', text='NumericString (SIZE(3))')),
                     ('printablestring', T('raw', text='PrintableString (SIZE(0..3))')), ('object-identifier', T('raw', text='OBJECT IDENTIFIER')),
                     ('utctime', T('raw', text='UTCTime')), ('generalizedtime', T('raw', text='GeneralizedTime')), ('any', T('raw', text='ANY')),
                     ('set', T('raw', text='SET { a BOOLEAN, b INTEGER (0..7) }')), ('set-of', T('raw', text='SET (SIZE(0..3)) OF BOOLEAN'))]:
        E.append((label + '-member', 'reject', [('A', seq(member('a', B), member('m', t), member('b', B)))], {}))
        if t['k'] == 'raw':
            E.append((label + '-top', 'reject', [('A', t)], {}))
    E.append(('seqof-unbounded', 'reject', [('A', T('seqof', elem=B, lo=None, hi=None))], {}))
    E.append(('seqof-extensible', 'reject', [('A', T('seqof', elem=B, lo=1, hi=4, ext=True))], {}))
    E.append(('seqof-unbounded-member', 'reject', [('A', seq(member('a', B), member('m', T('seqof', elem=I3, lo=None, hi=None))))], {}))
    E.append(('recursive-sequence', 'reject', [('A', seq(member('a', B), member('n', T('ref', module='M', name='A'), opt=True)))], {}))
    E.append(('recursive-choice', 'reject', [('A', T('choice', alts=[('a', B), ('n', T('seqof', elem=T('ref', module='M', name='A'), lo=0, hi=2))], ext=None))], {}))
    if codec == 'uper':
        E.append(('uper-size-65536', 'reject', [('A', T('octs', lo=0, hi=65536))], {}))
        E.append(('uper-seqof-65536', 'reject', [('A', T('seqof', elem=B, lo=0, hi=65536))], {}))
        E.append(('uper-size-1-65536', 'reject', [('A', T('octs', lo=1, hi=65536))], {}))
        E.append(('uper-extension-additions', 'reject', [('A', seq(member('a', B), ext=[member('b', I3, opt=True)]))], {}))
        E.append(('uper-choice-additions', 'reject', [('A', T('choice', alts=[('a', B)], ext=[('b', I3)]))], {}))
        E.append(('uper-enum-additions', 'reject', [('A', T('enum', items=[('a', 0), ('b', 1)], explicit=False, ext=[('c', 2)]))], {}))
        E.append(('uper-enum-over-32-bit', 'reject', [('A', T('enum', items=[('a', 4294967296)], explicit=True, ext=None))], {}))
    else:
        E.append(('oer-addition-group', 'accept', [('A', seq(member('a', B), ext=[member('b', I3, opt=True), member('c', B, opt=True)], group=True)),
                                                     ('B2', seq(member('g', T('ref', module='M', name='A')), member('h', I3)))], {}))
        E.append(('oer-choice-additions', 'accept', [('A', T('choice', alts=[('a', B)], ext=[('b', I3)]))], {}))
        E.append(('oer-enum-additions', 'accept', [('A', T('enum', items=[('a', 0), ('b', 1)], explicit=False, ext=[('c', 2)]))], {}))
        E.append(('oer-enum-over-32-bit', 'reject', [('A', T('enum', items=[('a', 4294967296)], explicit=True, ext=None))], {}))
        E.append(('oer-addition-bit-string', 'reject', [('A', seq(member('a', B), ext=[member('b', T('bits', n=8, named=None), opt=True)]))], {}))
        E.append(('oer-addition-default', 'accept', [('A', seq(member('a', B), ext=[member('b', I3, default=3), member('c', B, opt=True)]))], {}))
        E.append(('oer-addition-hyphen', 'accept', [('A', seq(member('a', B), ext=[member('b-c', B, opt=True)]))], {}))
        E.append(('oer-choice-ref-addition', 'accept', [('C', T('choice', alts=[('s', B), ('t', I3)], ext=None)),
                                                        ('A', seq(member('a', B), ext=[member('x', T('ref', module='M', name='C'), opt=True)]))], {}))
        E.append(('oer-choice-helper-collision', 'accept', [('A', seq(member('a', B), ext=[member('x', T('choice', alts=[('a', B)], ext=None), opt=True)])),
                                                            ('B2', seq(member('a', B), ext=[member('x', T('choice', alts=[('k', T('int', lo=0, hi=65535)), ('l', T('null'))], ext=None), opt=True)]))], {}))
        E.append(('oer-addition-same-name-as-root-member', 'accept', [('A', seq(member('o', T('octs', lo=0, hi=9)), ext=[member('x', seq(member('o', T('octs', lo=0, hi=5))), opt=True)]))], {}))
        E.append(('oer-size-65536', 'accept', [('A', T('octs', lo=0, hi=65536)), ('B2', T('octs', lo=65536, hi=65536))], {}))
    # one witness per recorded finding, so that each is exercised (and reported as stale when it stops failing) on every run
    E.append(('witness-int-range-wider-than-ctype', 'accept', [('A', T('int', lo=-1, hi=255)), ('B2', seq(member('a', T('int', lo=-1, hi=65535)), member('b', T('int', lo=-2 ** 31, hi=2 ** 31))))], {}))
    if codec == 'uper':
        E.append(('witness-extension-marker-choice-enum', 'accept', [('A', T('enum', items=[('a', 0), ('b', 1)], explicit=False, ext=True)), ('C', T('choice', alts=[('a', B), ('b', I3)], ext=True)),
                                                                   ('B2', seq(member('e', T('ref', module='M', name='A')), member('c', T('ref', module='M', name='C'))))], {}))
        E.append(('witness-int-fixed-width-helper-mismatch', 'accept', [('A', T('int', lo=-2 ** 63, hi=-2 ** 63 + 255)), ('B2', T('int', lo=-32768, hi=-32513)), ('C', T('int', lo=-128, hi=65407))], {}))
        E.append(('witness-int-offset-arithmetic-overflow', 'accept', [('A', T('int', lo=-1, hi=2 ** 31 - 1)), ('B2', T('int', lo=-2 ** 63 + 1, hi=2 ** 63 - 1))], {}))
        E.append(('witness-length-wraps-in-uint8', 'accept', [('A', T('octs', lo=1, hi=255)), ('B2', T('seqof', elem=B, lo=2, hi=255))], {'nmut': 40}))
    else:
        E.append(('witness-bit-string-5-to-7-octets', 'accept', [('A', T('bits', n=33, named=None)), ('B2', seq(member('a', T('bits', n=40, named=None)), member('b', T('bits', n=56, named=None))))], {}))
        E.append(('witness-length-truncated-before-check', 'accept', [('A', T('octs', lo=0, hi=255)), ('B2', T('seqof', elem=B, lo=2, hi=5))], {'nmut': 60}))
        E.append(('witness-seqof-fixed-size-over-255', 'accept', [('A', T('seqof', elem=B, lo=256, hi=256)), ('B2', T('seqof', elem=I3, lo=300, hi=300))], {}))
        E.append(('witness-enum-unknown-value-accepted', 'accept', [('A', T('enum', items=[('a', 0), ('b', 1)], explicit=False, ext=None)), ('B2', T('enum', items=[('a', 1000), ('b', -5)], explicit=True, ext=None))], {'nmut': 20}))
        E.append(('witness-additions-scan-clobbers-element-index', 'accept',
                  [('A', T('seqof', elem=seq(member('a', B), ext=[member('x%d' % i, B, opt=True) for i in range(4)]), lo=0, hi=3))], {}))
        E.append(('witness-addition-open-type-length', 'accept', [('A', seq(member('a', B), ext=[member('x', seq(member('a', T('int', lo=0, hi=255), opt=True), member('b', B)), opt=True)]))], {}))
        E.append(('witness-addition-open-type-length-ignored-on-decode', 'accept', [('A', seq(member('a', B), ext=[member('x', T('octs', lo=3, hi=3), opt=True), member('y', B, opt=True)]))], {'nmut': 40}))
        E.append(('witness-empty-extension-marker-arbitrary-input', 'accept', [('A', seq(member('m', I3, opt=True), member('z', B), ext=[]))], {'nmut': 30}))
    E.append(('choice-explicit-tags', 'accept', [('A', T('choice', alts=[('a', T('bool', tag='[5]')), ('b', T('int', lo=0, hi=7, tag='[APPLICATION 1000]')), ('c', T('null', tag='[PRIVATE 63]'))], ext=None))],
              {'tags': ''}))
    E.append(('bit-string-default', 'accept', [('A', seq(member('a', I3, default=3), member('b', T('bits', n=8, named=None), default=(b'\xa0', 8))))], {}))
    E.append(('null-default', 'accept', [('A', seq(member('a', T('null'), default=None), member('b', B)))], {}))
    E.append(('sequence-default', 'accept', [('A', seq(member('a', seq(member('x', B)), default={'x': True}), member('b', B)))], {}))
    E.append(('components-of', 'accept', [('B2', seq(member('x', B), member('y', T('int', lo=0, hi=3)))), ('A', seq(member('x', B), member('y', T('int', lo=0, hi=3)), member('z', B)))],
              {'text': 'M DEFINITIONS AUTOMATIC TAGS ::= BEGIN\nB2 ::= SEQUENCE { x BOOLEAN, y INTEGER (0..3) }\nA ::= SEQUENCE { COMPONENTS OF B2, z BOOLEAN }\nEND\n'}))
    E.append(('value-reference-bound', 'accept', [('A', seq(member('a', T('int', lo=0, hi=7)), member('o', T('octs', lo=0, hi=7))))],
              {'text': 'M DEFINITIONS AUTOMATIC TAGS ::= BEGIN\nmaxv INTEGER ::= 7\nA ::= SEQUENCE { a INTEGER (0..maxv), o OCTET STRING (SIZE(0..maxv)) }\nEND\n'}))
    E.append(('member-names-value-length-choice', 'accept', [('A', seq(member('value', B), member('length', I3), member('choice', B), member('buf', B), member('elements', I3)))], {}))
    E.append(('member-names-c-keywords', 'accept', [('A', seq(member('int', B), member('struct', I3), member('default', B)))], {}))
    E.append(('enum-item-hyphen-mapped', 'accept', [('A', T('enum', items=[('a-b', 1), ('c', 5)], explicit=True, ext=None))], {}))
    E.append(('enum-default-hyphen', 'accept', [('A', seq(member('e', T('enum', items=[('a-b', 0), ('c', 1)], explicit=False, ext=None), default='a-b'), member('z', B)))], {}))
    E.append(('type-names-underscore-collision', 'accept', [('Ab-c', B), ('AbC', I3)], {}))
    # sibling constructs of different widths inside ONE generated function (loop indices / choice selectors / length variables are
    # function-level C locals: a wide sibling after a narrow one must still get a wide enough variable)
    E.append(('siblings-seqof-narrow-then-wide', 'accept',
              [('A', seq(member('a', T('seqof', elem=B, lo=0, hi=3)), member('b', T('seqof', elem=B, lo=0, hi=300)), member('c', T('seqof', elem=I3, lo=1, hi=2)))),
               ('B2', seq(member('p', T('octs', lo=0, hi=3)), member('q', T('octs', lo=0, hi=300)), member('r', T('seqof', elem=T('octs', lo=0, hi=2), lo=0, hi=260))))], {}))
    E.append(('siblings-choice-narrow-then-wide', 'accept',
              [('A', seq(member('a', T('choice', alts=[('x', B), ('y', T('null'))], ext=None)),
                         member('b', T('choice', alts=[('e%03d' % i, T('null') if i % 7 else I3) for i in range(300)], ext=None)),
                         member('c', T('choice', alts=[('u', I3), ('v', B), ('w', T('null'))], ext=None))))], {}))
    E.append(('zero-size-octet-string', 'accept', [('A', seq(member('a', T('octs', lo=0, hi=0)), member('b', B)))], {}))
    E.append(('empty-sequence-member', 'accept', [('A', seq(member('a', seq()), member('b', B))), ('B2', seq()), ('C', T('choice', alts=[('a', T('null')), ('b', T('null'))], ext=None))], {}))
    return E


def edge_classify(codec, inner):
    prop = 'C09' if codec == 'uper' else 'C10'

    def classify(kind, info):
        env = info['env']
        label = info.get('label') or ''
        msg = info.get('message') or ''
        errs = ' '.join(info.get('errors') or [])
        if codec == 'uper' and env_contains(env, lambda t: t['k'] == 'real') and kind in ('header',) and 'not declared' in msg:
            return ('C09-real-dropped', 'uper.py format_real / format_real_inner return nothing: a REAL member is left out of the struct and of the encoding instead of being rejected')
        if codec == 'uper' and env_contains(env, lambda t: t['k'] == 'real') and kind == 'header' and "unexpected members" in msg:
            return ('C09-real-dropped', 'uper.py format_real / format_real_inner return nothing: a top-level REAL becomes an empty struct instead of being rejected')
        if kind == 'generate-foreign' and msg.startswith('RecursionError'):
            return (prop + '-recursive-type-recursionerror', 'a recursive type (documented as unsupported) ends in RecursionError instead of asn1tools.errors.Error')
        if codec == 'uper' and kind in ('encode', 'decode', 'reject-valid', 'short-buffer', 'prefix') and env_contains(env, p_seq_with_additions) and ('E -22' in (info.get('gcc') or '') or 'D -22' in (info.get('gcc') or '') or 'R -22' in (info.get('gcc') or '') or kind in ('short-buffer', 'prefix')):
            return ('limitation', 'uper-extension-additions-refused-at-run-time-EINVAL')
        if kind == 'not-c99' and env_contains(env, lambda t: t['k'] == 'seq' and any(m['default'] is not None and env.deref(m['t'])['k'] == 'bits' for m in t['members'])):
            return (prop + '-bit-string-default-invalid-c', 'format_default emits str() of the Python value of a BIT STRING DEFAULT (a tuple): invalid C')
        if kind == 'not-c99' and env_contains(env, lambda t: t['k'] == 'seq' and any(m['default'] is not None and env.deref(m['t'])['k'] in ('seq', 'null', 'choice', 'seqof') for m in t['members'])):
            return (prop + '-structured-default-invalid-c', 'format_default emits str() of the Python value of a SEQUENCE / NULL DEFAULT: invalid C')
        if kind == 'not-c99' and env_contains(env, lambda t: t['k'] == 'seq' and any(m['name'] in C_KEYWORDS for m in t['members'] + (t.get('ext') or []))):
            return (prop + '-c-keyword-member-name', 'member names are copied into the struct: an ASN.1 identifier that is a C keyword (int, struct, default, ...) gives invalid C')
        if kind in ('not-c99', 'header') and env_contains(env, lambda t: t['k'] == 'seq' and any(canonical(m['name']) != m['name'] for m in (t.get('ext') or []))):
            return (prop + '-addition-name-hyphen', 'the presence flag of an extension addition is named is_<raw ASN.1 name>_addition_present: a hyphen gives invalid C')
        if codec == 'uper' and kind == 'sanitizer' and 'not a valid value for type' in (info.get('sanitizer') or '') and env_contains(env, p_seq_with_additions):
            return ('limitation', 'uper-addition-presence-flag-not-written-by-the-decoder')
        if kind in ('not-c99', 'header') and len(set(snake(tn) for _, tn, _ in env.top_types())) < len(env.top_types()):
            return (prop + '-type-name-collision', 'camel_to_snake_case maps distinct ASN.1 type names (Ab-c, AbC) to one C identifier')
        return inner(kind, info)
    return classify


C_KEYWORDS = {'auto', 'break', 'case', 'char', 'const', 'continue', 'default', 'do', 'double', 'else', 'enum', 'extern', 'float', 'for', 'goto', 'if', 'inline', 'int',
              'long', 'register', 'restrict', 'return', 'short', 'signed', 'sizeof', 'static', 'struct', 'switch', 'typedef', 'union', 'unsigned', 'void', 'volatile', 'while',
              'bool', 'true', 'false'}


def run_property(ctx, codec):
    """stage K of C09 (uper) / C10 (oer)"""
    global _WORKROOT, _CLASSIFY
    from . import chelpers
    rng = ctx.rng
    prop = ctx.prop
    ctx.assumptions += [
        'gcc 12 (-std=c99 -O2) and clang 14 (-O1 -fsanitize=address,undefined -fno-sanitize-recover=all) are trusted: a defect of the generated code shows as a sanitizer report, '
        'a crash, a difference between the two builds, or a difference from the Python %s codec' % codec,
        'modelled in Lean (theorems of Properties/%s.lean, tied to the emitted helper text by corr.chelpers.%s): the helper library (bit/byte cursor, error latch, '
        'length determinants, integer helpers); evaluated directly, not modelled: the per-type statements the generator emits around the helpers, the struct layout, '
        'generation-time constants' % (prop, codec),
        'the Python %s codec of the same tree is the reference: values are generated so that known defects of the Python side (REAL DEFAULT kept as a string, absent mandatory '
        'extension additions) are not exercised' % codec,
        'random generator: ENUMERATED items / members with hyphens and DEFAULT, BIT STRING inside additions, additions of structured variable-length types are drawn with low '
        'probability because they stop the whole translation unit (recorded findings); the edge list covers each of them on every run',
    ]
    ctx.extra['rule'] = (
        'K1 helper library: random helper call sequences, gcc = clang+sanitizers = Lean model (cops); '
        'K2 generated modules of the documented subset (2 modules with IMPORTS, 6 types) x boundary-biased values: encode into exact-size malloc = Python bytes, every smaller size fails, '
        'decode dumps every field = Python value, every strict prefix rejected unless Python accepts it with the same value, mutated/random inputs: accepted => re-encode/re-decode identical '
        'and Python agrees (or the value is outside the constraints)%s; K3 edge list: constructs outside the subset must raise asn1tools.errors.Error, accepted ones are evaluated like K2%s; '
        'distinct = distinct (module text, driver command)' % (
            '; version skew: V2 = V1 + additions, Python V2 bytes decoded by the V1 generated C = V1 projection' if codec == 'oer' else '',
            '; K4 generation-time constants against the Python codec' if codec == 'oer' else ''))
    if not os.path.exists(core.DRIVER):
        raise RuntimeError('Lean driver missing: %s' % core.DRIVER)
    root = tempfile.mkdtemp(prefix='verif_%s_' % prop.lower())
    _WORKROOT = root
    _CLASSIFY = edge_classify(codec, make_classifier(codec))
    try:
        # ---- K1 helper library correspondence and K4 (oer) generation-time constants: jobs like the others
        seed = rng.getrandbits(32)
        nseq = ctx.n(400, 6000)
        special = [dict(kind='chelpers', codec=codec, seed=seed, n=nseq, label='chelpers')]
        if not ctx.quick():
            special.append(dict(kind='chelpers-ub', codec=codec, label='chelpers-ub'))
        if codec == 'oer':
            special.append(dict(kind='constants', codec=codec, seed=seed, label='constants'))
        # ---- K2 / K3 jobs
        jobs = []
        nmod = ctx.n(int(os.environ.get('VERIF_CGEN_MODULES', '100')), 900)
        for i in range(nmod):
            g = ModGen(rng, codec)
            env = g.module_set(6)
            jobs.append(dict(codec=codec, modules=env.modules, seed=rng.getrandbits(32), nvalues=ctx.n(10, 24), nmut=ctx.n(3, 6), label='gen%d' % i))
        if codec == 'oer':
            for i in range(ctx.n(24, 300)):
                g = ModGen(rng, codec, {'wide': False})
                for _ in range(20):
                    env1 = g.module_set(4)
                    if env_contains(env1, lambda t: t['k'] == 'seq' and t.get('ext') is not None):
                        break
                env2 = extend_env(rng, env1, g)
                jobs.append(dict(codec=codec, modules=env1.modules, modules2=env2.modules, seed=rng.getrandbits(32), nvalues=ctx.n(14, 30), label='skew%d' % i))
        if codec == 'oer':
            for label, m1, m2 in skew_witnesses():
                jobs.append(dict(codec=codec, modules=m1, modules2=m2, seed=rng.getrandbits(32), nvalues=ctx.n(14, 30), label=label))
        for label, expect, types, opts in common_edges(codec):
            job = dict(codec=codec, modules=[('M', types)], seed=rng.getrandbits(32), nvalues=ctx.n(10, 24), nmut=ctx.n(3, 6), label=label, expect=expect)
            job.update(opts)
            jobs.append(job)
        rng.shuffle(jobs)          # long and short jobs mixed over the workers
        jobs = special + jobs      # the long serial ones first
        for i, j in enumerate(jobs):
            j['id'] = i
        parts = core.parallel_map(_work, jobs)
        core.merge(ctx, parts)
        ctx.model.calls += ctx.hist.get('chelpers.sequences', 0) + ctx.hist.get('constants.lendet.values', 0)
        ctx.extra['jobs'] = {'generated_module_sets': nmod, 'edge_modules': len(common_edges(codec)), 'version_skew_pairs': sum(1 for j in jobs if j.get('modules2') is not None)}
    finally:
        shutil.rmtree(root, ignore_errors=True)
        _WORKROOT = None
    stale_findings(ctx, codec)


def stale_findings(ctx, codec):
    """a recorded finding whose witness (edge list / probes) did not fail in this run is reported as stale (note, not a verdict)"""
    hit = set(ctx.known_hits)
    for f in ctx.known:
        if f['id'] not in hit:
            ctx.notes.append('finding %s: not hit in this run (witness stale, or outside the sampled inputs of this tier)' % f['id'])


def helper_correspondence(part, codec, seed, n, hw):
    from . import chelpers
    bad, stats, details = chelpers.compare(codec, seed, n, hw, verbose=False)
    for i in range(n):
        part.case(('chelpers', codec, seed, i))
    for k in ('sequences', 'ops', 'latched', 'faults', 'helpers'):
        part.count('chelpers.' + k, stats.get(k, 0))
    for d in details:
        if d['kind'] == 'sanitizer':
            part.violation('%s helper library: sanitizer report / failure on a precondition-respecting call sequence' % codec, d)
        elif d['kind'] == 'mismatch' and d['gcc'] != d['san']:
            part.violation('%s helper library: gcc and sanitizer builds differ on a precondition-respecting call sequence' % codec, d)
        else:
            part.disagreement('corr.chelpers.%s' % codec, d)
    if stats.get('faults'):
        part.disagreement('corr.chelpers.%s' % codec, {'what': 'the model answers FAULT on %d precondition-respecting sequences' % stats['faults']})


def helper_ub(part, codec, hw):
    from . import chelpers
    badu, rows = chelpers.ub_mode(hw, verbose=False)
    for r_ in rows:
        if r_['codec'] != codec:
            continue
        part.case(('chelpers-ub', r_['sequence']))
        part.count('chelpers.ub_witness.%s' % ('confirmed' if r_['ok'] else 'unconfirmed'))
        if not r_['ok']:
            part.disagreement('corr.chelpers.%s.fault' % codec, r_)


def constants_oer(ctx, seed, workdir):
    """generation-time size computations of asn1tools/source/c/oer.py against the Python OER codec"""
    import asn1tools
    from . import chelpers
    from asn1tools.source.c import oer as coer
    # (a) get_length_determinant_length vs the encoder and the Lean model (staticLenDetLen)
    bad, stats = chelpers.static_lendet_compare(seed, 260, verbose=False)
    ctx.count('constants.lendet.values', stats.get('values', 0))
    for mm in stats.get('model_mismatch', []):
        ctx.disagreement('corr.chelpers.oer.slen', {'value': mm})
    for x in stats.get('wrong', []):
        ctx.case(('lendet', x))
        if 1677726 <= x < 16777216:
            ctx.known_finding('C10-lendet-typo', 'oer.py get_length_determinant_length compares with 1677726 instead of 16777216: 5 instead of 4 octets for lengths in [1677726, 16777216)')
        else:
            ctx.violation('oer: get_length_determinant_length(%d) differs from the length of the encoded length determinant' % x, {'length': x})
    for x in stats.get('missed', []):
        ctx.count('constants.lendet.stale_witness')
    rcw, w = chelpers.lendefect_mode(os.path.join(workdir), verbose=False)
    ctx.case(('lendefect',))
    if w['differs']:
        ctx.known_finding('C10-lendet-typo', 'witness: SEQUENCE { ..., b SEQUENCE { c BOOLEAN, ..., d OCTET STRING (SIZE(2000000)) } }: generated C writes open type length 2000010, Python 2000009')
    g = coer._Generator('ns')
    g.module_name, g.type_name = 'M', 'A'
    # (b) type_length // 8 = octets of a fixed-size INTEGER
    ranges = list(INT_RANGES) + WIDE_RANGES + [(0, 2 ** w - 1) for w in INT_WIDTHS] + [(-2 ** (w - 1), 2 ** (w - 1) - 1) for w in INT_WIDTHS] + \
        [(0, 2 ** w) for w in INT_WIDTHS if w < 64] + [(-2 ** (w - 1) - 1, 0) for w in INT_WIDTHS if w < 64] + [(-1, 2 ** w - 1) for w in (8, 16, 32)] + [(-2 ** (w - 1), 2 ** (w - 1)) for w in (8, 16, 32)]
    for lo, hi in ranges:
        spec = asn1tools.compile_string('M DEFINITIONS AUTOMATIC TAGS ::= BEGIN A ::= INTEGER (%d..%d) END' % (lo, hi), 'oer')
        true = {len(spec.encode('A', lo)), len(spec.encode('A', hi))}
        try:
            mine = g.type_length(lo, hi) // 8
        except asn1tools.errors.Error:
            ctx.count('constants.type_length.rejected')
            continue
        ctx.case(('type_length', lo, hi))
        ctx.count('constants.type_length.checked')
        if true != {mine}:
            signed_max = 2 ** (8 * mine - 1) - 1
            if lo < 0 and hi > signed_max:
                ctx.known_finding('C10-int-range-wider-than-ctype', 'type_length(%d, %d) = %d bits, the Python codec uses %s octets' % (lo, hi, 8 * mine, sorted(true)))
            else:
                ctx.violation('oer: type_length(%d, %d) // 8 = %d but the Python codec encodes the bounds in %s octets' % (lo, hi, mine, sorted(true)), {'lo': lo, 'hi': hi})
    # (c) enumerated value length
    for v in ENUM_VALUES + [129, -130, 65536, -65537, 16777215, 16777216]:
        spec = asn1tools.compile_string('M DEFINITIONS AUTOMATIC TAGS ::= BEGIN A ::= ENUMERATED { a(%d) } END' % v, 'oer')
        n = len(spec.encode('A', 'a'))
        true = n - 1 if not 0 <= v < 128 else 1
        mine = g.get_enumerated_value_length(v)
        ctx.case(('enum_value_length', v))
        ctx.count('constants.enum_value_length.checked')
        if (0 <= v < 128 and mine != 1) or (not 0 <= v < 128 and mine != true):
            ctx.violation('oer: get_enumerated_value_length(%d) = %d, the Python codec uses %d value octets' % (v, mine, true), {'value': v})
    # (d) BIT STRING value_length vs octets on the wire
    for n in range(1, 65):
        spec = asn1tools.compile_string('M DEFINITIONS AUTOMATIC TAGS ::= BEGIN A ::= BIT STRING (SIZE(%d)) END' % n, 'oer')
        true = len(spec.encode('A', (b'\x00' * ((n + 7) // 8), n)))
        mine = g.value_length(2 ** n - 1)
        ctx.case(('bits_value_length', n))
        ctx.count('constants.bits_value_length.checked')
        if mine != true:
            if (n + 7) // 8 in (5, 6, 7):
                ctx.known_finding('C10-bit-string-5-to-7-octets', 'value_length(2^%d - 1) = %d, on the wire %d octets' % (n, mine, true))
            else:
                ctx.violation('oer: BIT STRING (SIZE(%d)) is written in %d octets by the generated code, %d by the Python codec' % (n, mine, true), {'n': n})
    # (e) preamble / addition bitmap lengths
    for nopt in (0, 1, 6, 7, 8, 9, 15, 16, 17, 24, 25):
        for ext in (0, 1):
            members = ', '.join('m%d BOOLEAN OPTIONAL' % i for i in range(nopt))
            body = 'SEQUENCE { %s%s }' % (members, (', ' if members else '') + '...' if ext else '')
            spec = asn1tools.compile_string('M DEFINITIONS AUTOMATIC TAGS ::= BEGIN A ::= %s END' % body, 'oer')
            true = len(spec.encode('A', {}))
            t_ = spec.types['A'].type
            mine = coer.get_sequence_present_mask_length(coer.get_sequence_optionals(t_), coer.get_sequence_extension_bit(t_))
            ctx.case(('present_mask', nopt, ext))
            ctx.count('constants.present_mask_length.checked')
            if mine != true:
                ctx.violation('oer: preamble of a SEQUENCE with %d optional members%s: generator %d octets, Python %d' % (nopt, ' and an extension marker' if ext else '', mine, true), {'nopt': nopt, 'ext': ext})
    for nadd in (1, 7, 8, 9, 15, 16, 17, 63, 64, 65):
        adds = ', '.join('x%d BOOLEAN OPTIONAL' % i for i in range(nadd))
        spec = asn1tools.compile_string('M DEFINITIONS AUTOMATIC TAGS ::= BEGIN A ::= SEQUENCE { a BOOLEAN, ..., %s } END' % adds, 'oer')
        data = spec.encode('A', {'a': True, 'x0': True})
        true = data[2] - 1            # length determinant of the bitmap (short form) minus the unused-bits octet
        mine = coer.get_sequence_additions_mask_length(spec.types['A'].type.additions)
        ctx.case(('additions_mask', nadd))
        ctx.count('constants.additions_mask_length.checked')
        if mine != true or data[3] != mine * 8 - nadd:
            ctx.violation('oer: extension bitmap of %d additions: generator %d octets / %d unused bits, Python %d / %d' % (nadd, mine, mine * 8 - nadd, true, data[3]), {'nadd': nadd})


def replay_property(ctx, codec, path):
    """re-run the job of a replay file (same seed => same values and inputs) and report whether the failure persists"""
    import ast
    import json
    global _WORKROOT, _CLASSIFY
    d = json.load(open(path))
    rep = d['replay']
    print(json.dumps({k: (v if len(str(v)) < 1500 else str(v)[:1500] + '...') for k, v in rep.items() if k != 'job'}, indent=1)[:6000] if isinstance(rep, dict) else str(rep)[:3000])
    if not isinstance(rep, dict) or 'job' not in rep:
        return
    job = ast.literal_eval(rep['job'])
    job['id'] = 0
    root = tempfile.mkdtemp(prefix='verif_replay_')
    _WORKROOT = root
    _CLASSIFY = edge_classify(codec, make_classifier(codec))
    try:
        part = _work(job)
    finally:
        shutil.rmtree(root, ignore_errors=True)
        _WORKROOT = None
    core.merge(ctx, [part])
    print('replayed job %r: %d violations, known findings %s' % (job.get('label'), len(part.violations), sorted(set(k for k, _ in part.known))))
