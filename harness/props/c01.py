"""C01 — binary codecs round-trip every value of every compilable type.

Stage K, for every generated (module, value, codec):
  * the property itself on the implementation: decode(encode(v)) is the same abstract value,
    the decoded value is accepted by the encoder, and (DER/PER/UPER/OER) re-encodes to identical bytes;
  * correspondence for the modelled codecs (uper, oer): implementation bytes == Lean model bytes,
    implementation decode == Lean model decode, and the model's own hypotheses/conclusion of the
    round-trip theorem are evaluated on the case (`rt`), which classifies known findings.
"""
from .. import core, impl
from ..codecs import MODELLED, RT_CODECS, value_tags, py_equal, impl_answer_enc, impl_answer_dec
from ..gen import Gen, Opts, module_text, ty_sx, val_sx, canon_py, features, is_modelled

CODECS = ['ber', 'der', 'per', 'uper', 'oer']
CANONICAL = ('der', 'per', 'uper', 'oer')

# finding id -> (tags that make a case attributable to it, codecs, text)
FINDINGS = {
    'C01-per-unfragmented-length': ({'unfragmented'}, ('per', 'uper'),
                                    'per/uper write a length >= 16384 without fragmentation where append_length_determinant is called directly'),
    'C01-per-ext-open-range': ({'ext-open-range', 'ext-open-size'}, ('per', 'uper'),
                               'per/uper raise TypeError for an extensible constraint with a MIN/MAX bound'),
    'C01-per-size-extension-unimplemented': ({'size-extension-unimplemented'}, ('per', 'uper'),
                                             'per/uper string / BIT STRING sizes outside an extensible SIZE root are not implemented (NotImplementedError or garbage)'),
    'C01-oer-fixed-utf8': ({'oer-fixed-utf8'}, ('oer',),
                           'oer treats UTF8String (SIZE(n)) as n octets without a length prefix'),
    'C01-mandatory-addition-missing': ({'mandatory-addition-missing'}, CODECS,
                                       'a value lacking a mandatory extension addition passes the checks and is encoded with additions silently dropped / misplaced'),
}


def attribute(tags, codec):
    for fid, (need, codecs, text) in FINDINGS.items():
        if codec in codecs and (tags & need):
            return fid, text
    return None


def run(ctx):
    rng = ctx.rng
    ctx.assumptions += [
        'model universe: BOOLEAN, NULL, INTEGER (all constraint shapes), ENUMERATED, OCTET/BIT STRING, IA5/Visible/Numeric/Printable/UTF8String with SIZE, '
        'SEQUENCE (OPTIONAL/DEFAULT/extension additions), SEQUENCE OF, CHOICE (extensible) under AUTOMATIC TAGS; uper and oer are modelled in Lean, '
        'ber/der/per are covered by direct evaluation of the property on the implementation only',
        'CPython str.encode/bytes.decode (ascii, utf-8) assumed mutually inverse on valid scalars',
    ]
    ctx.extra['rule'] = ('type-directed random modules (depth<=3) rendered to ASN.1 text and compiled by the real compiler; 4 boundary-biased values per type; '
                         'per (type,value,codec): round-trip, re-encode and (uper/oer) byte/value equality with the Lean model. '
                         'distinct_nontrivial = distinct (type,value) pairs whose type has a constraint, a container or an extension marker')
    ntypes = ctx.n(450, 9000)
    opts = Opts(big_lengths=0.03 if ctx.quick() else 0.08, max_depth=3 if ctx.quick() else 4)
    opts_ext = Opts(big_lengths=0.02, max_depth=3, kinds=opts.kinds + ['real', 'oid', 'set', 'setof', 'set', 'setof'])
    cases = []
    feat = {}
    for i in range(ntypes):
        g = Gen(rng, opts if i % 4 else opts_ext)
        t = g.type()
        text = module_text([('A', t)])
        features(t, feat)
        vals = [g.value(t) for _ in range(4)]
        cases.append((t, text, vals))
    ctx.hist.update({'type.' + k: v for k, v in feat.items()})
    # model requests for modelled codecs
    reqs = []
    index = {}
    for ci, (t, text, vals) in enumerate(cases):
        if not is_modelled(t):
            continue
        tsx = ty_sx(t)
        for vi, v in enumerate(vals):
            vsx = val_sx(t, v)
            for codec in MODELLED:
                index[(ci, vi, codec)] = len(reqs)
                reqs.append('rt\t%s\t%s\t%s' % (codec if codec in RT_CODECS else 'uper', tsx, vsx))
                reqs.append('enc\t%s\t%s\t%s' % (codec, tsx, vsx))
    answers = ctx.model.batch(reqs) if ctx.model.available() else None
    if answers is None:
        ctx.disagreement('model driver missing', {})
    dec_reqs = []
    dec_meta = []
    for ci, (t, text, vals) in enumerate(cases):
        nontrivial_type = t['k'] not in ('bool', 'null') and (t['k'] != 'int' or t['con'])
        for codec in CODECS:
            st, spec = impl.compile_text(text, codec)
            if st != 'ok':
                ctx.count('compile.' + st)
                if st.startswith('Foreign'):
                    ctx.violation('compiler raised a foreign exception on a valid module', {'codec': codec, 'module': text, 'error': spec})
                continue
            for vi, v in enumerate(vals):
                ctx.case((text, repr(v), codec), nontrivial=nontrivial_type)
                tags = value_tags(t, v, codec)
                r = impl.encode(spec, 'A', v)
                ctx.count('%s.enc.%s' % (codec, r[0] if r[0] == 'ok' else r[1].split(':')[0]))
                problem = None
                detail = {}
                if r[0] != 'ok':
                    problem = 'encode of a checked value failed: %s %s' % (r[1], r[2])
                else:
                    data = r[1]
                    d = impl.decode(spec, 'A', data)
                    if d[0] != 'ok':
                        problem = 'decode of own encoding failed: %s %s' % (d[1], d[2])
                    elif not py_equal(t, d[1], v):
                        problem = 'decoded value differs from the encoded one'
                        detail['decoded'] = repr(d[1])[:400]
                    else:
                        r2 = impl.encode(spec, 'A', d[1])
                        if r2[0] != 'ok':
                            problem = 'decoded value is rejected by the encoder: %s' % (r2[1],)
                        elif codec in CANONICAL and r2[1] != data:
                            problem = 're-encoding the decoded value gives different bytes'
                            detail['reencoded'] = r2[1].hex()
                    detail['encoded'] = data.hex()
                # model correspondence
                model_rt = model_enc = None
                if answers is not None and codec in MODELLED and (ci, vi, codec) in index:
                    j = index[(ci, vi, codec)]
                    model_rt, model_enc = (answers[j] if codec in RT_CODECS else None), answers[j + 1]
                    mine = impl_answer_enc(r)
                    if model_enc.endswith('unmodelled'):
                        ctx.count(codec + '.model.unmodelled')
                    elif mine != model_enc:
                        if problem is None:
                            # property holds on this input, model differs: correspondence broken
                            ctx.disagreement('corr.%s.encode' % codec, {'module': text, 'value': repr(v)[:300], 'impl': mine[:200], 'model': model_enc[:200]})
                    if r[0] == 'ok':
                        dec_reqs.append('dec\t%s\t%s\t%s' % (codec, ty_sx(t), r[1].hex() or '-'))
                        dec_meta.append((t, text, v, codec, r[1], problem is None))
                if problem:
                    hyps_ok = model_rt is not None and all(x in model_rt for x in ('wf=T', 'defaults=T', 'hasType=T', 'fragFree=T'))
                    # the Lean finding predicate F_unfragmented (Uper.fragFree) decides for uper, and by proxy for per
                    if answers is not None and codec in ('per', 'uper') and (ci, vi, 'uper') in index:
                        urt = answers[index[(ci, vi, 'uper')]]
                        if 'fragFree=F' in urt:
                            tags = tags | {'unfragmented'}
                            if codec == 'uper':
                                hyps_ok = False
                    att = attribute(tags, codec)
                    if att and not hyps_ok:
                        ctx.known_finding(att[0], att[1])
                    elif att and model_rt is None:
                        ctx.known_finding(att[0], att[1])
                    else:
                        ctx.violation('%s: %s' % (codec, problem), dict(detail, codec=codec, module=text, value=repr(v),
                                                                        tags=sorted(tags), model_rt=model_rt))
                elif len(ctx.samples) < 3 and nontrivial_type and codec in MODELLED:
                    ctx.sample({'codec': codec, 'module': text, 'value': repr(v)[:300], 'encoded': detail.get('encoded', '')[:80],
                                'model_enc': (model_enc or '')[:90], 'model_rt': model_rt})
    # decode correspondence
    if dec_reqs:
        ans = ctx.model.batch(dec_reqs)
        for (t, text, v, codec, data, prop_ok), a in zip(dec_meta, ans):
            st, spec = impl.compile_text(text, codec)
            d = impl.decode(spec, 'A', data)
            mine = impl_answer_dec(t, d)
            if a.endswith('unmodelled'):
                continue
            if mine != a and prop_ok:
                ctx.disagreement('corr.%s.decode' % codec, {'module': text, 'data': data.hex()[:200], 'impl': mine[:200], 'model': a[:200]})
    witnesses(ctx)


WITNESSES = [
    # (finding id, codec, module text, type, value, what must (still) go wrong)
    ('C01-oer-fixed-utf8', 'oer', 'M DEFINITIONS AUTOMATIC TAGS ::= BEGIN A ::= UTF8String (SIZE(2)) END', 'A', 'åä'),
    ('C01-per-ext-open-range', 'uper', 'M DEFINITIONS AUTOMATIC TAGS ::= BEGIN A ::= INTEGER (0..MAX, ...) END', 'A', 5),
    ('C01-per-size-extension-unimplemented', 'uper', 'M DEFINITIONS AUTOMATIC TAGS ::= BEGIN A ::= VisibleString (SIZE(2..3, ...)) END', 'A', 'abcd'),
    ('C01-mandatory-addition-missing', 'oer', 'M DEFINITIONS AUTOMATIC TAGS ::= BEGIN A ::= SEQUENCE { ..., m1 BOOLEAN, m5 INTEGER (0..255) } END', 'A', {'m1': True}),
    ('C01-per-unfragmented-length', 'uper', 'M DEFINITIONS AUTOMATIC TAGS ::= BEGIN A ::= INTEGER END', 'A', 1 << (8 * 16400)),
    ('C01-numeric-cstring-default', 'uper', 'M DEFINITIONS AUTOMATIC TAGS ::= BEGIN A ::= SEQUENCE { s PrintableString DEFAULT "0" } END', 'A', {}),
]


def witnesses(ctx):
    """Every listed finding keeps a concrete failing input that is replayed on the real code on every run."""
    for fid, codec, text, name, v in WITNESSES:
        st, spec = impl.compile_text(text, codec)
        if st != 'ok':
            ctx.notes.append('witness %s does not compile: %s' % (fid, st))
            continue
        r = impl.encode(spec, name, v)
        ok = False
        if r[0] == 'ok':
            d = impl.decode(spec, name, r[1])
            if d[0] == 'ok':
                expect = v if fid != 'C01-numeric-cstring-default' else {'s': '0'}
                ok = (d[1] == expect)
        if ok:
            ctx.notes.append('stale finding: %s no longer reproduces on its witness' % fid)
        else:
            ctx.known_finding(fid, 'witness %s %r does not round-trip' % (text.split('BEGIN')[1].split('END')[0].strip(), v if not isinstance(v, int) or v < 10 ** 6 else '2^131200'))


def replay(ctx, path):
    import json
    d = json.load(open(path))['replay']
    print(json.dumps(d, indent=1)[:3000])
    if isinstance(d, dict) and 'module' in d and 'value' in d and 'codec' in d:
        v = eval(d['value'])
        st, spec = impl.compile_text(d['module'], d['codec'])
        r = impl.encode(spec, 'A', v)
        print('encode:', r[0], r[1].hex() if r[0] == 'ok' else r[1:])
        if r[0] == 'ok':
            dd = impl.decode(spec, 'A', r[1])
            print('decode:', dd)
            ctx.case(('replay',))
            if dd[0] != 'ok' or dd[1] != v:
                ctx.violation('replayed case still fails', d)
