"""C01 — binary codecs round-trip every value of every compilable type.

Stage K, for every generated (module, value, codec):
  * the property itself on the implementation: decode(encode(v)) is the same abstract value,
    the decoded value is accepted by the encoder, and (DER/PER/UPER/OER) re-encodes to identical bytes;
  * correspondence for the modelled codecs (uper, oer): implementation bytes == Lean model bytes,
    implementation decode == Lean model decode, and the model's own hypotheses/conclusion of the
    round-trip theorem are evaluated on the case (`rt`), which classifies known findings.
"""
from .. import core, impl
from ..codecs import MODELLED, RT_CODECS, value_tags, py_equal, impl_answer_enc, impl_answer_dec
from ..gen import Gen, Opts, module_text, ty_sx, val_sx, canon_py, features, is_modelled, RefCtx, variant

CODECS = ['ber', 'der', 'per', 'uper', 'oer']
CANONICAL = ('der', 'per', 'uper', 'oer')

# finding id -> (tags that make a case attributable to it, codecs, text)
FINDINGS = {
    'C01-per-unfragmented-length': ({'unfragmented'}, ('per', 'uper'),
                                    'per/uper write a length >= 16384 without fragmentation where append_length_determinant is called directly'),
    'C01-per-ext-open-range': ({'ext-open-range', 'ext-open-size'}, ('per', 'uper'),
                               'per/uper raise TypeError for an extensible constraint with a MIN/MAX bound'),
    'C01-per-size-extension-unimplemented': ({'size-extension-unimplemented'}, ('per', 'uper'),
                                             'per/uper string / BIT STRING sizes outside an extensible SIZE root are not implemented (NotImplementedError or garbage)'),
    'C01-oer-fixed-utf8': ({'oer-fixed-utf8'}, ('oer',),
                           'oer treats UTF8String (SIZE(n)) as n octets without a length prefix'),
    'C01-mandatory-addition-missing': ({'mandatory-addition-missing'}, CODECS,
                                       'a value lacking a mandatory extension addition passes the checks and is encoded with additions silently dropped / misplaced'),
}


def attribute(tags, codec):
    for fid, (need, codecs, text) in FINDINGS.items():
        if codec in codecs and (tags & need):
            return fid, text
    return None


def work(job):
    """Evaluate one chunk of cases on the implementation (runs in a worker process)."""
    chunk, answers_for = job
    part = core.Part()
    dec_jobs = []
    for (ci, tname, t, variants, vals) in chunk:
      nontrivial_type = t['k'] not in ('bool', 'null') and (t['k'] != 'int' or t['con'])
      modelled = is_modelled(t)
      for variant, text, codecs in variants:
        for codec in codecs:
            st, spec = impl.compile_text(text, codec)
            if st != 'ok':
                part.count('compile.' + st)
                if st.startswith('Foreign'):
                    part.violation('compiler raised a foreign exception on a valid module', {'codec': codec, 'module': text, 'error': spec})
                continue
            part.count('variant.' + variant)
            for vi, v in enumerate(vals):
                part.case((text, repr(v), codec), nontrivial=nontrivial_type)
                tags = value_tags(t, v, codec)
                r = impl.encode(spec, tname, v)
                part.count('%s.enc.%s' % (codec, r[0] if r[0] == 'ok' else r[1].split(':')[0]))
                problem = None
                detail = {}
                if r[0] != 'ok' and r[1] == 'Timeout':
                    part.count(codec + '.machinery-timeout')
                    continue
                if r[0] != 'ok':
                    problem = 'encode of a checked value failed: %s %s' % (r[1], r[2])
                else:
                    data = r[1]
                    d = impl.decode(spec, tname, data)
                    if d[0] != 'ok' and d[1] == 'Timeout':
                        part.count(codec + '.machinery-timeout')        # time is C08's business, not a round-trip failure
                        continue
                    if d[0] != 'ok':
                        problem = 'decode of own encoding failed: %s %s' % (d[1], d[2])
                    elif not py_equal(t, d[1], v):
                        problem = 'decoded value differs from the encoded one'
                        detail['decoded'] = repr(d[1])[:400]
                    else:
                        r2 = impl.encode(spec, tname, d[1])
                        if r2[0] != 'ok' and r2[1] == 'Timeout':
                            part.count(codec + '.machinery-timeout')
                            continue
                        if r2[0] != 'ok':
                            problem = 'decoded value is rejected by the encoder: %s' % (r2[1],)
                        elif codec in CANONICAL and r2[1] != data:
                            problem = 're-encoding the decoded value gives different bytes'
                            detail['reencoded'] = r2[1].hex()
                    detail['encoded'] = data.hex()
                model_rt = model_enc = None
                ans = answers_for.get((ci, vi, codec))
                if ans is not None:
                    model_rt, model_enc = (ans[0] if codec in RT_CODECS else None), ans[1]
                    mine = impl_answer_enc(r)
                    if model_enc.endswith('unmodelled'):
                        part.count(codec + '.model.unmodelled')
                    elif mine != model_enc and problem is None and not tags:
                        part.disagreement('corr.%s.encode' % codec, {'module': text, 'value': repr(v)[:300], 'impl': mine[:200], 'model': model_enc[:200]})
                    if r[0] == 'ok' and problem is None and not tags:
                        dec_jobs.append((t, text, codec, r[1], tname))
                if problem:
                    hyps_ok = model_rt is not None and all(x in model_rt for x in ('wf=T', 'defaults=T', 'hasType=T', 'fragFree=T'))
                    urt = answers_for.get((ci, vi, 'uper'))
                    if urt is not None and codec in ('per', 'uper') and 'fragFree=F' in urt[0]:
                        tags = tags | {'unfragmented'}
                        if codec == 'uper':
                            hyps_ok = False
                    att = attribute(tags, codec)
                    if att and not hyps_ok:
                        part.known_finding(att[0], att[1])
                    else:
                        part.violation('%s: %s' % (codec, problem), dict(detail, codec=codec, module=text, type=tname, variant=variant, value=repr(v),
                                                                         tags=sorted(tags), model_rt=model_rt))
                elif nontrivial_type and codec in MODELLED and modelled:
                    part.sample({'codec': codec, 'module': text, 'value': repr(v)[:300], 'encoded': detail.get('encoded', '')[:80],
                                 'model_enc': (model_enc or '')[:90], 'model_rt': model_rt})
    # decode correspondence for this chunk
    if dec_jobs:
        model = core.Model()
        ans = model.batch(['dec\t%s\t%s\t%s' % (codec, ty_sx(t), data.hex() or '-') for t, text, codec, data, tname in dec_jobs])
        part.count('model_driver_requests', len(dec_jobs))
        for (t, text, codec, data, tname), a in zip(dec_jobs, ans):
            if a.endswith('unmodelled'):
                continue
            st, spec = impl.compile_text(text, codec)
            mine = impl_answer_dec(t, impl.decode(spec, tname, data))
            if mine != a:
                part.disagreement('corr.%s.decode' % codec, {'module': text, 'data': data.hex()[:200], 'impl': mine[:200], 'model': a[:200]})
    return part


def run(ctx):
    rng = ctx.rng
    ctx.assumptions += [
        'model universe: BOOLEAN, NULL, INTEGER (all constraint shapes), ENUMERATED, OCTET/BIT STRING, IA5/Visible/Numeric/Printable/UTF8String with SIZE, '
        'SEQUENCE (OPTIONAL/DEFAULT/extension additions), SEQUENCE OF, CHOICE (extensible) under AUTOMATIC TAGS; all five binary codecs are modelled in Lean; '
        'REAL, OBJECT IDENTIFIER, SET, SET OF are covered by direct evaluation of the property on the implementation only',
        'CPython str.encode/bytes.decode (ascii, utf-8) assumed mutually inverse on valid scalars',
    ]
    ctx.extra['rule'] = ('type-directed random modules (two top-level types, depth<=3, recurring member names, up to 17 additions) rendered to ASN.1 text three ways (plain; reorganised with shared type references, value references and member-level constraints on references; reorganised without AUTOMATIC TAGS for tag-independent codecs) and compiled by the real compiler; 3 boundary-biased values per type; '
                         'per (type,value,codec): round-trip, re-encode and byte/value equality with the Lean model (enc and dec) for types inside the model universe. '
                         'distinct_nontrivial = distinct (module,value,codec) whose type has a constraint, a container or an extension marker')
    nmods = ctx.n(230, 4500)
    opts = Opts(big_lengths=0.02 if ctx.quick() else 0.08, max_depth=3 if ctx.quick() else 4)
    opts_ext = Opts(big_lengths=0.01, max_depth=3, kinds=opts.kinds + ['real', 'oid', 'set', 'setof', 'set', 'setof'])
    cases = []
    feat = {}
    TAGFREE = ('uper', 'per')      # encodings that do not depend on tags when no CHOICE/SET is involved
    for i in range(nmods):
        g = Gen(rng, opts if i % 4 else opts_ext)
        ta = g.type()
        types = [('A', ta), ('B', variant(g, ta) if rng.random() < 0.4 else g.type())]
        plain = module_text(types)
        # member-level `Ref (SIZE(..))` only for OCTET STRING: the codecs ignore it for other kinds (finding C11/C05 size-on-reference)
        rc = RefCtx(rng, p_type=0.35, p_value=0.3, p_con_on_ref=0.3, con_kinds=('octs',))
        reorg = module_text(types, ctx=rc)
        variants = [('plain', plain, CODECS), ('reorganised', reorg, CODECS)]
        if not any(k in plain for k in ('CHOICE', 'SET')):
            rc2 = RefCtx(rng, p_type=0.5, p_value=0.2, p_con_on_ref=0.4, con_kinds=('octs',))
            variants.append(('reorganised-untagged', module_text(types, ctx=rc2, tags=''), TAGFREE))
        for tname, t in types:
            features(t, feat)
            vals = [g.value(t) for _ in range(3)]
            cases.append((len(cases), tname, t, variants, vals))
    ctx.hist.update({'type.' + k: v for k, v in feat.items()})
    reqs, index = [], {}
    for (ci, tname, t, variants, vals) in cases:
        if not is_modelled(t):
            continue
        tsx = ty_sx(t)
        for vi, v in enumerate(vals):
            vsx = val_sx(t, v)
            for codec in MODELLED:
                index[(ci, vi, codec)] = len(reqs)
                reqs.append('rt\t%s\t%s\t%s' % (codec if codec in RT_CODECS else 'uper', tsx, vsx))
                reqs.append('enc\t%s\t%s\t%s' % (codec, tsx, vsx))
    answers = ctx.model.batch(reqs)
    nchunks = 28
    jobs = []
    for k in range(nchunks):
        chunk = cases[k::nchunks]
        ids = {c[0] for c in chunk}
        jobs.append((chunk, {key: (answers[j], answers[j + 1]) for key, j in index.items() if key[0] in ids}))
    parts = core.parallel_map(work, jobs)
    core.merge(ctx, parts)
    ctx.model.calls += ctx.hist.pop('model_driver_requests', 0)
    witnesses(ctx)
    # members that share a name and a referenced type, each with its own use (SIZE / OPTIONAL / DEFAULT / tag): the compiled-type cache
    from .. import aliasfam
    aliasfam.run_c01(ctx, ctx.rng, ctx.n(40, 600), impl, ['ber', 'der', 'per', 'uper', 'oer'], py_equal)
    # the generator's types under explicit tagging (EXPLICIT / IMPLICIT TAGS, hand-written tags, legally untagged components)
    from .. import tagged
    tagged.run(ctx, 'C01', ctx.rng, ctx.n(150, 2500), impl, ['ber', 'der', 'per', 'uper', 'oer'], Gen, Opts, module_text)
    # permitted-alphabet constraints FROM (...) against an independent reading of the permitted set
    from .. import fromfam as _fromfam
    _fromfam.run(ctx, 'C01', ctx.rng, ctx.n(30, 400), codecs=['ber', 'der', 'per', 'uper', 'oer'])
    # time types (outside the Lean universe): same instant back, decoded value accepted, canonical re-encoding
    from .. import timefam as _timefam
    _timefam.run(ctx, 'C01', ctx.rng, ctx.n(25, 300), _timefam.BIN)
    from .. import ctxfam as _ctxfam
    _ctxfam.run(ctx, 'C01', ctx.rng, ctx.n(60, 800), impl, ['ber', 'der', 'per', 'uper', 'oer'])
    from .. import twomark as _twomark
    _twomark.run(ctx, 'C01', ctx.rng, ctx.n(40, 500), ['ber', 'der', 'per', 'uper', 'oer'])
    # same-named types / values in different modules (an Item that is a CHOICE in one module and not in the other): as written in place
    from .. import samename as _samename
    _samename.run(ctx, 'C01', ctx.rng, ctx.n(6, 60), codecs=['ber', 'der', 'per', 'uper', 'oer'])


WITNESSES = [
    # (finding id, codec, module text, type, value, what must (still) go wrong)
    ('C01-oer-fixed-utf8', 'oer', 'M DEFINITIONS AUTOMATIC TAGS ::= BEGIN A ::= UTF8String (SIZE(2)) END', 'A', 'åä'),
    ('C01-per-ext-open-range', 'uper', 'M DEFINITIONS AUTOMATIC TAGS ::= BEGIN A ::= INTEGER (0..MAX, ...) END', 'A', 5),
    ('C01-per-size-extension-unimplemented', 'uper', 'M DEFINITIONS AUTOMATIC TAGS ::= BEGIN A ::= VisibleString (SIZE(2..3, ...)) END', 'A', 'abcd'),
    ('C01-mandatory-addition-missing', 'oer', 'M DEFINITIONS AUTOMATIC TAGS ::= BEGIN A ::= SEQUENCE { ..., m1 BOOLEAN, m5 INTEGER (0..255) } END', 'A', {'m1': True}),
    ('C01-per-unfragmented-length', 'uper', 'M DEFINITIONS AUTOMATIC TAGS ::= BEGIN A ::= INTEGER END', 'A', 1 << (8 * 16400)),
    ('C01-numeric-cstring-default', 'uper', 'M DEFINITIONS AUTOMATIC TAGS ::= BEGIN A ::= SEQUENCE { s PrintableString DEFAULT "0" } END', 'A', {}),
]


def witnesses(ctx):
    """Every listed finding keeps a concrete failing input that is replayed on the real code on every run."""
    for fid, codec, text, name, v in WITNESSES:
        st, spec = impl.compile_text(text, codec)
        if st != 'ok':
            ctx.notes.append('witness %s does not compile: %s' % (fid, st))
            continue
        r = impl.encode(spec, name, v)
        ok = False
        if r[0] == 'ok':
            d = impl.decode(spec, name, r[1])
            if d[0] == 'ok':
                expect = v if fid != 'C01-numeric-cstring-default' else {'s': '0'}
                ok = (d[1] == expect)
        if ok:
            ctx.notes.append('stale finding: %s no longer reproduces on its witness' % fid)
        else:
            ctx.known_finding(fid, 'witness %s %r does not round-trip' % (text.split('BEGIN')[1].split('END')[0].strip(), v if not isinstance(v, int) or v < 10 ** 6 else '2^131200'))


def replay(ctx, path):
    import json
    d = json.load(open(path))['replay']
    print(json.dumps(d, indent=1)[:3000])
    if isinstance(d, dict) and 'module' in d and 'value' in d and 'codec' in d:
        v = eval(d['value'], {'inf': float('inf'), 'nan': float('nan')})
        st, spec = impl.compile_text(d['module'], d['codec'])
        r = impl.encode(spec, 'A', v)
        print('encode:', r[0], r[1].hex() if r[0] == 'ok' else r[1:])
        if r[0] == 'ok':
            dd = impl.decode(spec, 'A', r[1])
            print('decode:', dd)
            ctx.case(('replay',))
            if dd[0] != 'ok' or dd[1] != v:
                ctx.violation('replayed case still fails', d)
