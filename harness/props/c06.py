"""C06 — OER encodings are byte-exact X.696 (see harness/exact.py for the decision procedure)."""
from .. import exact, impl


def run(ctx):
    ctx.assumptions += ['S (Asn1Model/X696.lean) is my reading of X.696 clauses 8-29, validated on the worked examples in the repository (overview_of_oer.asn, x691_a1)',
                        'deviation kinds that are encoder options allowed by Basic OER (addition-default-encoded, default-unclean-bits-encoded) are reported as findings of non-canonical output, not as violations of X.696']
    ctx.extra['rule'] = ('generated modules x 4 boundary-biased values; implementation bytes vs the Lean specification encoder X696 (S) and the code model Oer (M); '
                         "S's octets fed to the real decoder; distinct = distinct (module, value)")
    exact.run_exact(ctx, 'C06', ['oer'], {'oer': 'oer'},
                    option_devs=('addition-default-encoded', 'default-unclean-bits-encoded'))
    # witnesses of the recorded deviations, replayed on the real code
    for fid, text, v, expect_std in [
        ('C06-fixed-utf8', 'M DEFINITIONS AUTOMATIC TAGS ::= BEGIN A ::= UTF8String (SIZE(2)) END', 'ab', '026162'),
    ]:
        st, spec = impl.compile_text(text, 'oer')
        r = impl.encode(spec, 'A', v)
        if r[0] == 'ok' and r[1].hex() == expect_std:
            ctx.notes.append('stale finding: %s no longer reproduces' % fid)
        else:
            ctx.known_finding(fid, 'witness %r encodes as %s, X.696 prescribes %s' % (v, r[1].hex() if r[0] == 'ok' else r[1], expect_std))
    # SET: identical octets whatever the textual order of the (explicitly tagged) components
    from .. import tagged as _tagged
    from ..gen import Gen as _Gen, Opts as _Opts, module_text as _module_text
    _tagged.run_set_order(ctx, 'C06', ctx.rng, ctx.n(60, 720), impl, ['oer'], _Gen, _Opts, _module_text)
    from .. import twomark as _twomark, samename as _samename
    _twomark.run(ctx, 'C06', ctx.rng, ctx.n(60, 700), ['oer'])
    _samename.run(ctx, 'C06', ctx.rng, ctx.n(4, 40), codecs=['oer'])
    from .. import scripted as _scripted
    _scripted.oer_default_bits(ctx)
    _scripted.set_as_sequence(ctx, ctx.rng, ctx.n(8, 80), ['oer'])


def replay(ctx, path):
    import json
    d = json.load(open(path))['replay']
    print(json.dumps(d, indent=1)[:3000])
    if isinstance(d, dict) and 'module' in d and 'value' in d:
        st, spec = impl.compile_text(d['module'], d['codec'])
        r = impl.encode(spec, 'A', eval(d['value'], {'inf': float('inf'), 'nan': float('nan')}))
        print('impl now:', r[1].hex() if r[0] == 'ok' else r[1:])
