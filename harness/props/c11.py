"""C11 — check_constraints accepts exactly the values the declared constraints admit.

Stage K: generated modules (plain and reorganised: bounds behind value references, constrained types behind
type references) x values moved to, just inside and just outside every bound.  Three answers are compared:
  * the implementation: Specification.encode(..., check_constraints=True) raises ConstraintsError or not
    (and decode(..., check_constraints=True) on the wire form of the same value);
  * the Lean model `Constraints.check` (proved equivalent to the declarative `admits`);
  * an independent interpreter of the constraints in the harness (mutate.admits)."""
from .. import core, impl
from ..gen import Gen, Opts, module_text, ty_sx, val_sx, features, RefCtx, is_modelled, variant
from ..mutate import admits, boundary_variants, first_violation_names


def run(ctx):
    import asn1tools
    rng = ctx.rng
    ctx.assumptions += ['bounds reached through value references / type references are rendered by the generator from the same AST as the model type (so reference resolution is on the implementation side only)']
    ctx.extra['rule'] = ('generated types x (2 random values + boundary variants lo-1,lo,lo+1,hi-1,hi,hi+1 of up to 3 constrained components + out-of-alphabet character); '
                         'each module rendered plainly and reorganised (value-reference bounds, hoisted type references); distinct = distinct (type, value) with at least one constrained component')
    opts = Opts(max_depth=3, allow_exotic=0.0)
    reqs, meta = [], []
    for i in range(ctx.n(300, 6000)):
        g = Gen(rng, opts)
        t = g.type()
        if rng.random() < 0.3:
            add_serial(rng, t)
        sib = variant(g, t)
        rc0 = RefCtx(rng, p_type=0.0, p_value=0.0)
        rc = RefCtx(rng, p_con_on_ref=0.3)
        # a sibling type (same names, other constraints) is compiled in the same module: constraints must not leak
        texts = [('plain', module_text([('A', t), ('B', sib)], ctx=rc0), set(rc0.flags)),
                 ('reorganised', module_text([('B', sib), ('A', t)], ctx=rc), rc.flags)]
        vals = []
        for _ in range(2):
            v = g.value(t)
            vals.append(v)
            vals += [nv for nv, _ in boundary_variants(rng, t, v)]
        modelled = is_modelled(t)
        tsx = ty_sx(t) if modelled else None
        for v in vals:
            reqs.append('check\t%s\t%s' % (tsx, val_sx(t, v)) if modelled else 'ping')
            meta.append((t, texts, v))
    answers = ctx.model.batch(reqs)
    for (t, texts, v), ans in zip(meta, answers):
        want = admits(t, v)
        if ans == 'pong':       # outside the model universe (serial constraints): harness interpreter only
            ans = ('ok' if want else 'err') + (' admits=T' if want else ' admits=F')
        model_ok = ans.startswith('ok')
        model_admits = ans.endswith('admits=T')
        constrained = any(k in repr(t) for k in ("'int'", "'octs'", "'bits'", "'str'", "'seqof'"))
        if model_ok != want or model_admits != want:
            ctx.disagreement('model.check vs harness interpreter', {'type': repr(t)[:300], 'value': val_sx(t, v)[:300], 'model': ans, 'harness_admits': want})
        for style, text, flags in texts:
            for codec in ('ber', 'uper'):
                st, spec = impl.compile_text(text, codec)
                if st != 'ok':
                    ctx.count('compile.' + st)
                    continue
                ctx.case((text, val_sx(t, v), codec), nontrivial=constrained)
                r = impl.encode(spec, 'A', v, check_constraints=True)
                raised = (r[0] == 'err' and r[1] == 'ConstraintsError')
                ctx.count('%s.%s.%s' % (style, 'admits' if want else 'violates', 'raised' if raised else 'not-raised'))
                if raised != (not want):
                    if 'size-on-reference' in flags and want is False and not raised:
                        ctx.known_finding('C11-size-on-reference', 'a SIZE constraint applied to a type reference (T (SIZE(..))) is ignored by the constraints checker')
                        continue
                    what = ('a value outside a constraint is not rejected' if not want else 'a value inside every constraint is rejected')
                    ctx.violation('%s (%s rendering, %s)' % (what, style, codec),
                                  {'module': text, 'value': repr(v), 'codec': codec, 'impl': r[:2] if r[0] == 'err' else 'encoded', 'model': ans,
                                   'violating_path': first_violation_names(t, v)})
                elif raised:
                    # C12: the message starts with the dotted path of the first violating component
                    names = first_violation_names(t, v)
                    expect = '.'.join(('A',) + tuple(names))
                    got = r[2].split(': ')[0]
                    model_path = '.'.join(['A'] + [x for x in ans.split(' ')[1].split('.') if x]) if ans.startswith('err') else None
                    if got != expect and not r[2].startswith(expect + ':'):
                        ctx.disagreement('constraints error path', {'module': text, 'value': repr(v)[:500], 'impl_message': r[2][:200], 'expected_path': expect, 'model_path': model_path})
                    elif len(ctx.samples) < 4 and len(names) >= 1:
                        ctx.sample({'module': text, 'value': repr(v)[:200], 'impl': r[2][:120], 'model': ans, 'style': style})
                # decode side: ber wire form of the value, decoded with check_constraints
                if codec == 'ber':
                    w = impl.encode(spec, 'A', v)
                    if w[0] == 'ok':
                        d = impl.decode(spec, 'A', w[1], check_constraints=True)
                        raised_d = (d[0] == 'err' and d[1] == 'ConstraintsError')
                        if d[0] == 'err' and not raised_d:
                            continue
                        # the constraint check applies to what is actually on the wire (a value lacking a mandatory
                        # extension addition is truncated by the encoder: finding C01-mandatory-addition-missing)
                        plain = impl.decode(spec, 'A', w[1])
                        if plain[0] != 'ok':
                            continue
                        try:
                            want_d = admits(t, plain[1])
                        except Exception:
                            continue
                        if want_d != want:
                            ctx.count('decode.wire-value-differs')
                            continue
                        if raised_d != (not want):
                            if 'size-on-reference' in flags and want is False:
                                ctx.known_finding('C11-size-on-reference', 'a SIZE constraint applied to a type reference (T (SIZE(..))) is ignored by the constraints checker')
                                continue
                            ctx.violation('decode(check_constraints=True) %s (%s rendering)' % (
                                'accepts a value outside a constraint' if not want else 'rejects a value inside every constraint', style),
                                {'module': text, 'value': repr(v), 'wire': w[1].hex(), 'model': ans})
    # witness of the known finding
    w = 'M DEFINITIONS AUTOMATIC TAGS ::= BEGIN T ::= OCTET STRING U ::= T (SIZE(1..2)) END'
    st, spec = impl.compile_text(w, 'ber')
    r = impl.encode(spec, 'U', b'abc', check_constraints=True)
    if r[0] == 'err' and r[1] == 'ConstraintsError':
        ctx.notes.append('stale finding: C11-size-on-reference no longer reproduces')
    else:
        ctx.known_finding('C11-size-on-reference', 'witness U ::= T (SIZE(1..2)), T ::= OCTET STRING accepts 3 octets')
    # same-named imported symbols (values used as bounds, types) in different modules vs the same types written inline
    from .. import samename
    samename.run(ctx, 'C11', ctx.rng, ctx.n(5, 60))
    samename.run_named(ctx, 'C11', ctx.rng, ctx.n(6, 60))
    # value ranges / SIZE written at the point of use of a shared referenced type, for members that share a name
    from .. import aliasfam
    aliasfam.run_c11(ctx, ctx.rng, ctx.n(50, 600), impl, ['ber', 'uper', 'oer', 'jer'])
    # permitted-alphabet constraints FROM (...) against an independent reading of the permitted set
    from .. import fromfam as _fromfam
    _fromfam.run(ctx, 'C11', ctx.rng, ctx.n(40, 600))


def add_serial(rng, t):
    """turn some two-sided non-extensible INTEGER ranges into serial constraints `P (lo2..hi2, ...)` on a parent
    `P ::= INTEGER (lo..hi)`: the parent's range is still in force (the extensible child adds nothing)"""
    k = t['k']
    if k == 'int' and t['con'] and not t['ext'] and t['lo'] is not None and t['hi'] is not None and t['hi'] - t['lo'] >= 3 and rng.random() < 0.6:
        t['serial'] = (t['lo'] + 1, t['hi'] - 1)
    if k in ('seq', 'set'):
        for m in t['root'] + (t['ext'] or []):
            if m['default'] is None:
                add_serial(rng, m['t'])
    if k in ('seqof', 'setof'):
        add_serial(rng, t['elem'])
    if k == 'choice':
        for _, a in t['root'] + (t['ext'] or []):
            add_serial(rng, a)


def replay(ctx, path):
    import json
    d = json.load(open(path))['replay']
    print(json.dumps(d, indent=1)[:2500])
    if isinstance(d, dict) and 'module' in d and 'value' in d:
        st, spec = impl.compile_text(d['module'], d.get('codec', 'ber'))
        r = impl.encode(spec, 'A', eval(d['value']), check_constraints=True)
        print('impl now:', r[:3] if r[0] == 'err' else 'encoded without error')
