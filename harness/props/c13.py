"""C13 — compiling is independent of what was compiled before from the same dictionary.

Stage K: the parsed dictionary of a generated module (reorganised rendering: references, value references, BIT/OCTET
STRING and ENUMERATED defaults, optional IMPORTS split, EXTENSIBILITY IMPLIED) is put through a random history of up to
6 steps — compile_dict for a random codec and numeric_enums, eval(pformat(d)), deepcopy — and after every compile the
resulting codec object is compared, by a behavioural fingerprint (types, encodings of generated values in name and
numeric form, decoded values, error classes), with compile_string of the original text with the same arguments."""
import copy
from pprint import pformat

from .. import core, impl
from ..gen import Gen, Opts, module_text, RefCtx
from .c17 import fingerprint

LEVEL = 'exploration'
CODECS = ['ber', 'der', 'per', 'uper', 'oer', 'jer', 'xer', 'gser']


def work(job):
    import asn1tools
    part = core.Part()
    for (seed, text, probes) in job:
        import random
        rng = random.Random(seed)
        try:
            d = asn1tools.parse_string(text)
        except Exception as e:
            part.count('parse.' + type(e).__name__)
            continue
        history = []
        for step in range(rng.randint(2, 6)):
            x = rng.random()
            if x < 0.15:
                d = eval(pformat(d))
                history.append('eval(pformat(d))')
                continue
            if x < 0.25:
                d = copy.deepcopy(d)
                history.append('deepcopy(d)')
                continue
            codec = rng.choice(CODECS)
            numeric = rng.random() < 0.4
            history.append('compile_dict(d, %r, numeric_enums=%r)' % (codec, numeric))
            part.case((text, tuple(history)))
            try:
                with core.time_limit(60):
                    got = ('ok', asn1tools.compile_dict(d, codec, numeric_enums=numeric))
            except Exception as e:
                got = ('err', impl.classify(e))
            try:
                with core.time_limit(60):
                    fresh = ('ok', asn1tools.compile_string(text, codec, numeric_enums=numeric))
            except Exception as e:
                fresh = ('err', impl.classify(e))
            part.count('compile.%s' % got[0])
            if got[0] != fresh[0] or (got[0] == 'err' and got[1] != fresh[1]):
                part.violation('compile_dict outcome after a history differs from a fresh compile', {'module': text, 'history': history, 'got': got[1] if got[0] == 'err' else 'ok', 'fresh': fresh[1] if fresh[0] == 'err' else 'ok'})
                continue
            if got[0] != 'ok':
                continue
            f1 = fingerprint(got[1], probes, codec)
            f2 = fingerprint(fresh[1], probes, codec)
            if f1 != f2:
                diff = next(((a, b) for a, b in zip(f1, f2) if a != b), (f1[:1], f2[:1]))
                part.violation('a specification compiled after a history behaves differently from a fresh compile of the same text',
                               {'module': text, 'history': history, 'first_difference': repr(diff)[:800]})
            else:
                part.sample({'module': text[:500], 'history': history, 'behaviour': 'identical to fresh compile'}, limit=2)
    return part


def run(ctx):
    rng = ctx.rng
    ctx.assumptions += ["Python's pprint/eval on plain data (dict/list/tuple/str/int/bool/None/bytes) is trusted to be the identity"]
    ctx.extra['rule'] = ('generated modules (two types, reorganised rendering, optional IMPORTS split, optional EXTENSIBILITY IMPLIED) x random histories of 2-6 steps over 8 codecs x numeric_enums with pformat/eval and deepcopy steps; '
                         'distinct = distinct (module, history prefix)')
    opts = Opts(max_depth=3, allow_exotic=0.0, big_lengths=0.0)
    jobs = []
    for i in range(ctx.n(150, 3000)):
        g = Gen(rng, opts)
        types = [('A', g.type()), ('B', g.type())]
        rc = RefCtx(rng, p_type=0.5, p_value=0.4, p_con_on_ref=0.3, con_kinds=('octs',))
        text = module_text(types, ctx=rc, split=rng.random() < 0.3, ext_implied=rng.random() < 0.2)
        probes = [(n, t, g.value(t)) for n, t in types for _ in range(2)]
        jobs.append((rng.getrandbits(32), text, probes))
    n = 28
    parts = core.parallel_map(work, [jobs[k::n] for k in range(n)])
    core.merge(ctx, parts)
    # regression vector of a repaired defect: numeric_enums=True followed by False on the same dictionary
    import asn1tools
    text = 'M DEFINITIONS AUTOMATIC TAGS ::= BEGIN A ::= SEQUENCE { e ENUMERATED { a(0), b(5) } DEFAULT b } END'
    d = asn1tools.parse_string(text)
    asn1tools.compile_dict(d, 'uper', numeric_enums=True)
    s = asn1tools.compile_dict(d, 'uper', numeric_enums=False)
    try:
        ok = s.decode('A', s.encode('A', {})) == {'e': 'b'}
    except Exception:
        ok = False
    ctx.case(('regression', 'numeric-enum-default'))
    if not ok:
        ctx.violation('compile_dict(d, numeric_enums=True) followed by numeric_enums=False leaks integer ENUMERATED defaults', {'module': text, 'history': ['compile_dict(d, uper, numeric_enums=True)', 'compile_dict(d, uper, numeric_enums=False)']})


def replay(ctx, path):
    import json
    d = json.load(open(path))['replay']
    print(json.dumps(d, indent=1)[:4000])
