"""C13 — compiling is independent of what was compiled before from the same dictionary.

Theorems (lean/Asn1Proofs/Properties/C13.lean): `run_idempotent` (a rewrite of a rewritten dictionary is the
identity), `run_history` (after ANY sequence of numeric_enums flags the dictionary equals a single fresh rewrite
with the last flag, under the decidable hypothesis HistoryOK), `clean_after_compile`; the model `Preprocess.run`
of `Compiler.pre_process` is tied to the code by exact dictionary equality (driver ops prep / prepseq) on generated
specifications, hand-made dictionaries and the repository fixtures, after 1, 3, 6 and 9 real rewrites.

Stage K: the parsed dictionary of a generated module (reorganised rendering: references, value references, BIT/OCTET
STRING and ENUMERATED defaults, optional IMPORTS split, EXTENSIBILITY IMPLIED) is put through a random history of up to
6 steps — compile_dict for a random codec and numeric_enums, eval(pformat(d)), deepcopy — and after every compile the
resulting codec object is compared, by a behavioural fingerprint (types, encodings of generated values in name and
numeric form, decoded values, error classes), with compile_string of the original text with the same arguments."""
import copy
from pprint import pformat

from .. import core, impl
from ..gen import variant, Gen, Opts, module_text, RefCtx
from .c17 import fingerprint

CODECS = ['ber', 'der', 'per', 'uper', 'oer', 'jer', 'xer', 'gser']


def work(job):
    import asn1tools
    part = core.Part()
    for (seed, text, probes) in job:
        import random
        rng = random.Random(seed)
        try:
            d = asn1tools.parse_string(text)
        except Exception as e:
            part.count('parse.' + type(e).__name__)
            continue
        history = []
        deferred = []
        for step in range(rng.randint(2, 6)):
            x = rng.random()
            if x < 0.15 or (step == 0 and x < 0.5):
                d = eval(pformat(d))
                history.append('eval(pformat(d))')
                continue
            if x < 0.25:
                d = copy.deepcopy(d)
                history.append('deepcopy(d)')
                continue
            codec = rng.choice(CODECS)
            numeric = rng.random() < 0.4
            history.append('compile_dict(d, %r, numeric_enums=%r)' % (codec, numeric))
            part.case((text, tuple(history)))
            try:
                with core.time_limit(60):
                    got = ('ok', asn1tools.compile_dict(d, codec, numeric_enums=numeric))
            except Exception as e:
                got = ('err', impl.classify(e))
            part.count('compile.%s' % got[0])
            # the fresh reference compiles are made AFTER the whole history: a compile of another dictionary in between would hide state
            # that is keyed by "the dictionary compiled last"
            deferred.append((got, codec, numeric, list(history)))
        for got, codec, numeric, history in deferred:
            try:
                with core.time_limit(60):
                    fresh = ('ok', asn1tools.compile_string(text, codec, numeric_enums=numeric))
            except Exception as e:
                fresh = ('err', impl.classify(e))
            if got[0] != fresh[0] or (got[0] == 'err' and got[1] != fresh[1]):
                part.violation('compile_dict outcome after a history differs from a fresh compile', {'module': text, 'history': history, 'got': got[1] if got[0] == 'err' else 'ok', 'fresh': fresh[1] if fresh[0] == 'err' else 'ok'})
                continue
            if got[0] != 'ok':
                continue
            f1 = fingerprint(got[1], probes, codec)
            f2 = fingerprint(fresh[1], probes, codec)
            if f1 != f2:
                diff = next(((a, b) for a, b in zip(f1, f2) if a != b), (f1[:1], f2[:1]))
                part.violation('a specification compiled after a history behaves differently from a fresh compile of the same text',
                               {'module': text, 'history': history, 'first_difference': repr(diff)[:800]})
            else:
                part.sample({'module': text[:500], 'history': history, 'behaviour': 'identical to fresh compile'}, limit=2)
    return part


WITNESSES = [
    ('C13-enum-value-reference', 'M DEFINITIONS AUTOMATIC TAGS ::= BEGIN A ::= SEQUENCE { e ENUMERATED { a(b), b(1) } DEFAULT a } b INTEGER ::= 7 END', 'A', (True,),
     'ENUMERATED { a(b), b(1) } DEFAULT a with b INTEGER ::= 7'),
    ('C13-components-of-type-capture', '''M0 DEFINITIONS AUTOMATIC TAGS ::= BEGIN E ::= ENUMERATED { a(0), b(5) } S ::= SEQUENCE { m E DEFAULT b } END
M1 DEFINITIONS AUTOMATIC TAGS ::= BEGIN IMPORTS S FROM M0; E ::= ENUMERATED { c(5), d(7), e(8) } T ::= SEQUENCE { COMPONENTS OF S, x BOOLEAN OPTIONAL } END''', 'T', (True, False),
     'COMPONENTS OF S copies m E DEFAULT b into a module with its own E'),
]
BUILTIN_PREFIXES = ('SEQUENCE', 'SET', 'CHOICE', 'INTEGER', 'BOOLEAN', 'NULL', 'ENUMERATED', 'BIT STRING', 'OCTET STRING', 'REAL')


def finding_predicates(d):
    """Which of the recorded C13 defects a parsed dictionary can trigger (mirrors the negation of the theorem
    hypotheses EnumRefsStable / HistoryOK on parser output)."""
    out = set()

    def lookup(name, mn, seen=()):
        m = d.get(mn)
        if m is None or (name, mn) in seen:
            return None
        if name in m['types']:
            return m['types'][name], mn
        for frm, syms in m['imports'].items():
            if name in syms:
                return lookup(name, frm, seen + ((name, mn),))
        return None

    def walk(t, mn, top):
        if not isinstance(t, dict):
            return
        for it in t.get('values', []) or []:
            if it is not None and isinstance(it[1], str):
                out.add('C13-enum-value-reference')
        for m in t.get('members', []) or []:
            if m is None:
                continue
            if isinstance(m, list):
                for x in m:
                    walk(x, mn, False)
                continue
            if set(m) == {'components-of'}:
                r = lookup(m['components-of'], mn)
                if r is not None and r[1] != mn:
                    out.add('cross-module-components-of')
                    src, smn = r
                    for sm in src.get('members', []) or []:
                        if isinstance(sm, dict) and 'type' in sm:
                            a = lookup(sm['type'], smn)
                            b = lookup(sm['type'], mn)
                            if a is not None and (b is None or b[1] != a[1]):
                                out.add('C13-components-of-type-capture')
                continue
            walk(m, mn, False)
        if 'element' in t:
            walk(t['element'], mn, False)

    for mn, m in d.items():
        for t in m['types'].values():
            walk(t, mn, True)
    return out


def fp2(spec, probes, codec, numeric):
    out = [sorted(spec.types)]
    for name, a, b in probes:
        v = b if numeric else a
        r = impl.encode(spec, name, v)
        if r[0] == 'ok':
            d = impl.decode(spec, name, r[1]) if codec != 'gser' else ('n/a', None)
            out.append((name, 'ok', r[1], repr(d[1]) if d[0] == 'ok' else d[:2]))
        else:
            out.append((name, r[1]))
    return out


def work_prep(job):
    """(a) dictionary-level tie of the Lean model with Compiler.pre_process, (b) behaviour after a history vs a
    fresh compile, on specifications of the dictionary-rewrite generator (COMPONENTS OF, IMPORTS chains, all tag
    and DEFAULT spellings), hand-made dictionaries and fixtures."""
    import random
    from collections import Counter
    import asn1tools
    from .. import prep, cvalues
    part = core.Part()
    model = core.Model()
    stats = Counter()
    lines, index = [], []
    for (seed, label, text, kind) in job:
        rng = random.Random(seed)
        if kind == 'mutated':
            parse = (lambda text=text, seed=seed: prep.mutate_dict(asn1tools.parse_string(text), random.Random(seed + 1)))
        elif kind == 'file':
            parse = (lambda text=text: asn1tools.parse_files([text]))
        else:
            parse = (lambda text=text: asn1tools.parse_string(text))
        p = prep.plan_case(label, parse, rng, stats)
        if p is not None and p[1] is not None:
            for line, expected, what in p[1]:
                lines.append(line)
                index.append((label, text, kind, expected, what))
        if kind != 'text':
            continue
        # (b) behaviour
        try:
            d = asn1tools.parse_string(text)
            with core.time_limit(60):
                base = asn1tools.compile_string(text, 'ber')
        except Exception as e:
            part.count('prep.behaviour.skip.' + type(e).__name__)
            continue
        preds = finding_predicates(d)
        probes = cvalues.probes(base, rng, per_type=2)[:24]
        history = []
        sorted_step = False
        for step in range(rng.randint(2, 5)):
            x = rng.random()
            if x < 0.15:
                d = eval(pformat(d))
                sorted_step = True
                history.append('eval(pformat(d))')
                continue
            if x < 0.22:
                d = copy.deepcopy(d)
                history.append('deepcopy(d)')
                continue
            codec = rng.choice(CODECS)
            numeric = rng.random() < 0.45
            history.append('compile_dict(d, %r, numeric_enums=%r)' % (codec, numeric))
            part.case((text, tuple(history)))
            try:
                with core.time_limit(60):
                    got = ('ok', asn1tools.compile_dict(d, codec, numeric_enums=numeric))
            except Exception as e:
                got = ('err', impl.classify(e))
            try:
                with core.time_limit(60):
                    fresh = ('ok', asn1tools.compile_string(text, codec, numeric_enums=numeric))
            except Exception as e:
                fresh = ('err', impl.classify(e))
            part.count('prep.behaviour.compile.%s' % got[0])
            bad = None
            if got[0] != fresh[0] or (got[0] == 'err' and got[1] != fresh[1]):
                bad = ('compile_dict outcome after a history differs from a fresh compile', {'got': got[1] if got[0] == 'err' else 'ok', 'fresh': fresh[1] if fresh[0] == 'err' else 'ok'})
            elif got[0] == 'ok':
                f1, f2 = fp2(got[1], probes, codec, numeric), fp2(fresh[1], probes, codec, numeric)
                if f1 != f2:
                    diff = next(((a, b) for a, b in zip(f1, f2) if a != b), (f1[:1], f2[:1]))
                    bad = ('a specification compiled after a history behaves differently from a fresh compile of the same text', {'first_difference': repr(diff)[:800]})
            if bad is None:
                continue
            if 'C13-enum-value-reference' in preds:
                part.known_finding('C13-enum-value-reference', 'an ENUMERATED whose item number is a value reference: the DEFAULT conversion under numeric_enums is not idempotent')
            elif 'C13-components-of-type-capture' in preds:
                part.known_finding('C13-components-of-type-capture', 'members copied by COMPONENTS OF from another module have their type names resolved in the including module, so later rewrites convert their DEFAULTs differently')
            elif sorted_step and 'cross-module-components-of' in preds:
                part.known_finding('C13-pformat-reorders-modules', 'pformat sorts the modules; with a cross-module COMPONENTS OF the result depends on module order (C19-components-of-module-order)')
            else:
                rep = {'module': text, 'history': history}
                rep.update(bad[1])
                part.violation(bad[0], rep)
            break
    answers = model.batch(lines, timeout=3600) if lines else []
    for (label, text, kind, expected, what), got, line in zip(index, answers, lines):
        part.case(('prep', text, what))
        if got == expected:
            part.count('prep.dictionary.equal')
            part.sample({'specification': text[:400], 'history': what, 'dictionary_after_history': 'equal to Preprocess.run of the Lean model (%d characters)' % len(expected)}, limit=1)
        else:
            k = next((i for i, (a, b) in enumerate(zip(expected, got)) if a != b), min(len(expected), len(got)))
            part.disagreement('corr.prep', {'specification': text[:3000], 'kind': kind, 'history': what,
                                            'python': expected[max(0, k - 200):k + 200], 'model': got[max(0, k - 200):k + 200]})
    for k, v in stats.items():
        if not k.startswith('_'):
            part.count('prep.' + k, v)
    part.count('model_driver_requests', len(lines))
    return part


def run(ctx):
    rng = ctx.rng
    ctx.assumptions += ["Python's pprint/eval on plain data (dict/list/tuple/str/int/bool/None/bytes) is trusted to be the identity"]
    ctx.extra['rule'] = ('generated modules (two types, reorganised rendering, optional IMPORTS split, optional EXTENSIBILITY IMPLIED) x random histories of 2-6 steps over 8 codecs x numeric_enums with pformat/eval and deepcopy steps; '
                         'plus specifications of the dictionary-rewrite generator (COMPONENTS OF, IMPORTS chains, every tag and DEFAULT spelling), hand-made dictionaries and the fixtures tests/files/*.asn: '
                         'dictionary after 1/3/6/9 real rewrites == Lean Preprocess.run (ops prep, prepseq), and behaviour after a history == fresh compile on values generated from the compiled tree; '
                         'distinct = distinct (module, history prefix)')
    opts = Opts(max_depth=3, allow_exotic=0.0, big_lengths=0.0)
    jobs = []
    for i in range(ctx.n(150, 3000)):
        g = Gen(rng, opts)
        types = [('A', g.type()), ('B', g.type())]
        rc = RefCtx(rng, p_type=0.5, p_value=0.4, p_con_on_ref=0.3, con_kinds=('octs',))
        text = module_text(types, ctx=rc, split=rng.random() < 0.3, ext_implied=rng.random() < 0.2)
        if i % 3 == 2:
            # sibling types (same member names and shared referenced types, other constraints / qualifiers), written in the
            # opposite of the alphabetical order that pformat gives the dictionary, without AUTOMATIC TAGS where possible
            t = g.type()
            sib = variant(g, t)
            types = [('B', sib), ('A', t)] if rng.random() < 0.7 else [('A', t), ('B', sib)]
            rc = RefCtx(rng, p_type=0.6, p_value=0.3, p_con_on_ref=0.5, con_kinds=('octs',))
            plain = module_text(types)
            untagged = not any(k in plain for k in ('CHOICE', 'SET'))
            text = module_text(types, ctx=rc, tags='' if untagged and rng.random() < 0.8 else 'AUTOMATIC TAGS')
            ctx.count('arrangement.siblings' + ('-untagged' if untagged else ''))
        probes = [(n, t, g.value(t)) for n, t in types for _ in range(2)]
        jobs.append((rng.getrandbits(32), text, probes))
    # the scripted family of harness/aliasfam.py: member-cache aliasing depends on the ORDER in which assignments are compiled,
    # and pformat sorts the dictionary — histories on these texts start with the serialisation more often
    from .. import aliasfam
    for i in range(ctx.n(80, 1200)):
        fam = aliasfam.build(rng)
        jobs.append((rng.getrandbits(32), fam['text'], fam['probes'][:10]))
        ctx.count('arrangement.alias-family')
    n = 28
    parts = core.parallel_map(work, [jobs[k::n] for k in range(n)])
    core.merge(ctx, parts)
    # dictionary-level tie and behaviour on the rewrite generator
    import random
    from .. import prep
    pjobs = []
    for label, text in prep.HAND:
        pjobs.append((rng.getrandbits(32), label, text, 'text'))
    for i in range(ctx.n(300, 4000)):
        sub = random.Random(rng.getrandbits(32))
        text = prep.PGen(sub).spec() if i % 2 == 0 else prep.harness_module(sub)
        pjobs.append((rng.getrandbits(32), 'generated', text, 'mutated' if i % 5 == 4 else 'text'))
    import glob
    import os
    for f in sorted(glob.glob(os.path.join(core.REPO, 'tests', 'files', '*.asn'))):
        pjobs.append((rng.getrandbits(32), os.path.basename(f), f, 'file'))
    parts = core.parallel_map(work_prep, [pjobs[k::n] for k in range(n)])
    core.merge(ctx, parts)
    ctx.model.calls += ctx.hist.pop('model_driver_requests', 0)
    # ANY DEFINED BY choice tables are a compile option that is written INTO the dictionary: histories that change only the table
    import asn1tools
    adb_text = 'Foo DEFINITIONS ::= BEGIN Fie ::= SEQUENCE { bar INTEGER, fum ANY DEFINED BY bar } Fum ::= SEQUENCE { id INTEGER, val ANY DEFINED BY id, z BOOLEAN OPTIONAL } END'
    tables = [None,
              {('Foo', 'Fie', 'fum'): {0: 'NULL', 1: 'INTEGER'}},
              {('Foo', 'Fie', 'fum'): {1: 'INTEGER', 2: 'IA5String'}, ('Foo', 'Fum', 'val'): {7: 'BOOLEAN'}},
              {('Foo', 'Fie', 'fum'): {0: 'INTEGER', 3: 'BOOLEAN'}},
              {('Foo', 'Fum', 'val'): {7: 'INTEGER', 8: 'NULL'}},
              {('Foo', 'Fie', 'fum'): {0: 'NULL'}}]
    datas = [('Fie', bytes.fromhex(h)) for h in ('30050201000500', '3006020101020105', '3006020100020105', '30060201020c0141', '30060201021601 41'.replace(' ', ''), '30060201030101ff', '3006020101 0101ff'.replace(' ', ''))] + \
            [('Fum', bytes.fromhex(h)) for h in ('30060201070101ff', '3006020107020101', '30050201080500')]
    vals = [('Fie', {'bar': 0, 'fum': None}), ('Fie', {'bar': 1, 'fum': 5}), ('Fie', {'bar': 2, 'fum': 'A'}), ('Fie', {'bar': 3, 'fum': True}), ('Fie', {'bar': 0, 'fum': 5}),
            ('Fum', {'id': 7, 'val': True}), ('Fum', {'id': 7, 'val': 1}), ('Fum', {'id': 8, 'val': None})]

    def adb_fingerprint(spec):
        out = []
        for tn, dt in datas:
            out.append(repr(impl.decode(spec, tn, dt)[:2]))
        for tn, v in vals:
            out.append(repr(impl.encode(spec, tn, v)[:2]))
        return out
    for h in range(ctx.n(12, 120)):
        d = asn1tools.parse_string(adb_text)
        hist = []
        for step in range(rng.randint(2, 5)):
            if rng.random() < 0.2:
                d = eval(pformat(d))
                hist.append('eval(pformat(d))')
                continue
            codec = rng.choice(['ber', 'der', 'ber', 'oer'])
            tb = rng.choice(tables)
            hist.append('compile_dict(d, %r, any_defined_by_choices=%r)' % (codec, tb))
            ctx.case(('adb-history', tuple(hist)))
            ctx.count('arrangement.any-defined-by-history')
            outs = []
            for src in (d, None):
                try:
                    sp = asn1tools.compile_dict(src, codec, any_defined_by_choices=tb) if src is not None else asn1tools.compile_string(adb_text, codec, any_defined_by_choices=tb)
                    outs.append(adb_fingerprint(sp) if codec != 'oer' else ['compiled'])
                except Exception as e:
                    outs.append(['compile error', impl.classify(e)])
            if outs[0] != outs[1]:
                diff = next(((a, b) for a, b in zip(outs[0], outs[1]) if a != b), (outs[0][:1], outs[1][:1]))
                ctx.violation('a dictionary compiled after a history of other ANY DEFINED BY choice tables behaves differently from a fresh parse compiled with the same table',
                              {'module': adb_text, 'history': hist, 'first_difference_history_vs_fresh': repr(diff)[:600]})
                break
    # regression vector of a repaired defect: numeric_enums=True followed by False on the same dictionary
    import asn1tools
    text = 'M DEFINITIONS AUTOMATIC TAGS ::= BEGIN A ::= SEQUENCE { e ENUMERATED { a(0), b(5) } DEFAULT b } END'
    d = asn1tools.parse_string(text)
    asn1tools.compile_dict(d, 'uper', numeric_enums=True)
    s = asn1tools.compile_dict(d, 'uper', numeric_enums=False)
    try:
        ok = s.decode('A', s.encode('A', {})) == {'e': 'b'}
    except Exception:
        ok = False
    # witnesses of the recorded findings (theorems idempotence_fails_enum_value_reference, history_fails_components_of)
    for fid, text, tname, hist, what in WITNESSES:
        d = asn1tools.parse_string(text)
        last = None
        for numeric in hist:
            last = asn1tools.compile_dict(d, 'ber', numeric_enums=numeric)
        fresh = asn1tools.compile_string(text, 'ber', numeric_enums=hist[-1])
        try:
            a, b = last.decode(tname, b'\x30\x00'), fresh.decode(tname, b'\x30\x00')
        except Exception as e:
            a, b = 'error', type(e).__name__
        ctx.case(('witness', fid))
        if a == b:
            ctx.notes.append('stale finding: %s no longer reproduces' % fid)
        else:
            ctx.known_finding(fid, 'witness: %s: after compile_dict with numeric_enums=%s an empty SEQUENCE decodes to %r, fresh compile gives %r' % (what, list(hist), a, b))
    ctx.case(('regression', 'numeric-enum-default'))
    if not ok:
        ctx.violation('compile_dict(d, numeric_enums=True) followed by numeric_enums=False leaks integer ENUMERATED defaults', {'module': text, 'history': ['compile_dict(d, uper, numeric_enums=True)', 'compile_dict(d, uper, numeric_enums=False)']})


def replay(ctx, path):
    import json
    d = json.load(open(path))['replay']
    print(json.dumps(d, indent=1)[:4000])
