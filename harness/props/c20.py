"""C20 — GSER output is well-formed value notation that determines the value.

The library has a GSER encoder only (codecs/gser.py).  Proof side: Asn1Model/Gser.lean has the WRITER model
(`Gser.toG` + `Gser.renderV`: what gser.py writes, with both layouts) and an independent RFC 3641 READER
(`Gser.parseValue` / `parseAssignment` + the type-directed `Gser.toVal`); Asn1Proofs/Properties/C20.lean proves
for ALL types / values / indent widths that the reader parses the writer's text completely and returns the
canonical abstract value, that typed values always encode, that equal texts imply equal abstract values, and that
the layout is irrelevant.

Stage K, for generated (module, value) pairs and indent in {None, 0, 2, 4}:
  (i)   the implementation's octets equal the model's (`gser`)                       -> else corr.gser.encode
  (ii)  the Lean reader applied to the REAL octets returns the value (`gserread`)     -> else VIOLATION
  (iii) an independent RFC 3641 reader written in Python below (type-directed recursive descent, a second
        opinion that also covers what is outside the Lean universe: REAL, OBJECT IDENTIFIER, SET, SET OF,
        named-bit BIT STRING, time types) parses the real text completely and maps back to the value -> else VIOLATION
  (iv)  injectivity sampled directly: different abstract values of one type never give the same text
        (random pairs and near-miss pairs)                                           -> else VIOLATION
  (v)   `gserrt`: hypotheses and conclusion of `gser_roundtrip` evaluated by the model on the case
Regression vectors for the two repaired defects (empty BIT STRING, quote doubling) raise a VIOLATION if they return.
Recorded findings are decided by predicates on (type, value) and each has a witness replayed on every run."""
import datetime
import math
from fractions import Fraction

from .. import core, impl
from ..codecs import value_tags
from ..gen import Gen, Opts, module_text, ty_sx, val_sx, is_modelled, boundary_cases, ALPHABETS
from .. import gen as G

LEVEL = 'proof'
INDENTS = [None, 0, 2, 4]


# ------------------------------------------------------------------------------------------------
# independent RFC 3641 reader (type-directed recursive descent; written from the ABNF of RFC 3641
# section 3, not from gser.py)
# ------------------------------------------------------------------------------------------------
class ReadError(Exception):
    pass


LOWER = 'abcdefghijklmnopqrstuvwxyz'
UPPER = 'ABCDEFGHIJKLMNOPQRSTUVWXYZ'
DIGITS = '0123456789'
ALNUM = LOWER + UPPER + DIGITS


class Reader:
    """`sp = *SP`, `msp = 1*SP`.  `newlines`: HT / LF / CR count as SP (the library's indented layout);
    `colon_ws`: white space around the ":" of a ChoiceValue is accepted (X.680 reading; the ABNF has none)."""

    def __init__(self, s, newlines=True, colon_ws=True):
        self.s = s
        self.i = 0
        self.space = ' \t\n\r' if newlines else ' '
        self.colon_ws = colon_ws

    def fail(self, what):
        raise ReadError('%s at offset %d (%r)' % (what, self.i, self.s[self.i:self.i + 20]))

    def peek(self):
        return self.s[self.i] if self.i < len(self.s) else ''

    def sp(self):
        while self.peek() != '' and self.peek() in self.space:
            self.i += 1

    def msp(self):
        if self.peek() == '' or self.peek() not in self.space:
            self.fail('white space expected')
        self.sp()

    def lit(self, text):
        if not self.s.startswith(text, self.i):
            self.fail('%r expected' % text)
        self.i += len(text)

    def word(self, first):
        """first letter from `first`, then *(alphanumeric) *(hyphen 1*alphanumeric)"""
        j = self.i
        if self.peek() == '' or self.peek() not in first:
            self.fail('name expected')
        self.i += 1
        while self.peek() != '' and (self.peek() in ALNUM or
                                     (self.peek() == '-' and self.i + 1 < len(self.s) and self.s[self.i + 1] in ALNUM)):
            self.i += 1
        if self.peek() == '-':
            self.fail('hyphen not followed by a letter or digit')
        return self.s[j:self.i]

    def identifier(self):
        return self.word(LOWER)

    def keyword(self):
        j = self.i
        while self.peek() != '' and (self.peek() in UPPER or self.peek() == '-'):
            self.i += 1
        if self.peek() != '' and self.peek() in ALNUM:
            self.fail('keyword runs into a name')
        return self.s[j:self.i]

    def positive_number(self):
        j = self.i
        if self.peek() == '' or self.peek() not in '123456789':
            self.fail('non-zero digit expected')
        while self.peek() != '' and self.peek() in DIGITS:
            self.i += 1
        return self.s[j:self.i]

    def number(self):
        """"0" / positive-number"""
        if self.peek() == '0':
            self.i += 1
            if self.peek() != '' and self.peek() in DIGITS:
                self.fail('leading zero')
            return 0
        return int(self.positive_number())

    def integer(self):
        if self.peek() == '-':
            self.i += 1
            return -int(self.positive_number())
        return self.number()

    def quoted(self):
        """squote *char squote, then the letter"""
        self.lit("'")
        j = self.s.find("'", self.i)
        if j < 0:
            self.fail('unterminated hstring / bstring')
        body = self.s[self.i:j]
        self.i = j + 1
        k = self.peek()
        if k not in ('H', 'B'):
            self.fail('H or B expected')
        self.i += 1
        if k == 'H':
            if any(c not in '0123456789ABCDEF' for c in body):
                self.fail('not an hstring')
        else:
            if any(c not in '01' for c in body):
                self.fail('not a bstring')
        return k, body

    def string(self):
        """dquote *SafeUTF8Character dquote; `""` is one dquote"""
        self.lit('"')
        out = []
        while True:
            if self.i >= len(self.s):
                self.fail('unterminated string')
            c = self.s[self.i]
            if c == '"':
                if self.s.startswith('""', self.i):
                    out.append('"')
                    self.i += 2
                    continue
                self.i += 1
                return ''.join(out)
            out.append(c)
            self.i += 1

    def real(self):
        """"0" / PLUS-INFINITY / MINUS-INFINITY / realnumber / "-" realnumber
        realnumber = mantissa exponent
        mantissa   = (positive-number [ "." *decimal-digit ]) / ( "0." *("0") positive-number )
        exponent   = "E" ( "0" / ([ "-" ] positive-number))"""
        if self.peek() in ('P', 'M'):
            w = self.keyword()
            if w == 'PLUS-INFINITY':
                return 'inf'
            if w == 'MINUS-INFINITY':
                return '-inf'
            self.fail('unknown REAL keyword')
        neg = False
        if self.peek() == '-':
            neg = True
            self.i += 1
        if self.peek() == '0':
            if not self.s.startswith('0.', self.i):
                if neg:
                    self.fail('"-0" is not a RealValue')
                self.i += 1
                if self.peek() != '' and (self.peek() in ALNUM or self.peek() in '.+-'):
                    self.fail('"0" runs into other text')
                return Fraction(0)
            self.i += 2
            j = self.i
            while self.peek() == '0':
                self.i += 1
            self.positive_number()
            frac = self.s[j:self.i]
            mant = Fraction(int(frac), 10 ** len(frac))
        else:
            ip = self.positive_number()
            frac = ''
            if self.peek() == '.':
                self.i += 1
                j = self.i
                while self.peek() != '' and self.peek() in DIGITS:
                    self.i += 1
                frac = self.s[j:self.i]
            mant = Fraction(int(ip + frac), 10 ** len(frac))
        self.lit('E')
        if self.peek() == '0':
            self.i += 1
            if self.peek() != '' and self.peek() in DIGITS:
                self.fail('leading zero in exponent')
            e = 0
        else:
            eneg = False
            if self.peek() == '-':
                eneg = True
                self.i += 1
            e = int(self.positive_number())
            e = -e if eneg else e
        x = mant * Fraction(10) ** e
        return -x if neg else x

    def oid(self):
        """numeric-oid = oid-component 1*( "." oid-component )"""
        parts = [self.number()]
        if self.peek() != '.':
            self.fail('"." expected')
        while self.peek() == '.':
            self.i += 1
            parts.append(self.number())
        return '.'.join(str(p) for p in parts)

    def components(self, item):
        """"{" [ sp item *( "," sp item ) ] sp "}" """
        self.lit('{')
        self.sp()
        out = []
        if self.peek() == '}':
            self.i += 1
            return out
        while True:
            out.append(item())
            j = self.i
            self.sp()
            if self.peek() == ',':
                self.i += 1
                self.sp()
                continue
            if self.peek() == '}':
                self.i += 1
                return out
            self.i = j
            self.fail('"," or "}" expected')

    def value(self, t):
        k = t['k']
        if k == 'bool':
            w = self.keyword()
            if w == 'TRUE':
                return True
            if w == 'FALSE':
                return False
            self.fail('TRUE or FALSE expected')
        if k == 'null':
            if self.keyword() != 'NULL':
                self.fail('NULL expected')
            return None
        if k == 'int':
            return self.integer()
        if k == 'enum':
            n = self.identifier()
            if n not in [x for x, _ in t['root'] + (t['ext'] or [])]:
                self.fail('unknown enumeration item %r' % n)
            return n
        if k in ('octs', 'any'):
            kind, body = self.quoted()
            if kind != 'H' or len(body) % 2:
                self.fail('OCTET STRING must be an hstring with an even number of digits')
            return bytes.fromhex(body)
        if k == 'bits':
            if self.peek() == '{':
                if not t.get('named'):
                    self.fail('bit-list for a BIT STRING without named bits')
                names = self.components(self.identifier)
                nums = dict(t['named'])
                for n in names:
                    if n not in nums:
                        self.fail('unknown named bit %r' % n)
                nb = (max(nums[n] for n in names) + 1) if names else 0
                bits = ''.join('1' if any(nums[n] == i for n in names) else '0' for i in range(nb))
            else:
                kind, body = self.quoted()
                bits = body if kind == 'B' else ''.join(format(int(c, 16), '04b') for c in body)
            data = bytes(int((bits[i:i + 8]).ljust(8, '0'), 2) for i in range(0, len(bits), 8))
            return (data, len(bits))
        if k == 'str':
            return self.string()
        if k == 'time':
            return time_from_text(t['kind'], self.string(), self)
        if k == 'real':
            return self.real()
        if k == 'oid':
            return self.oid()
        if k in ('seqof', 'setof'):
            return self.components(lambda: self.value(t['elem']))
        if k in ('seq', 'set'):
            members = t['root'] + (t['ext'] or [])
            by_name = {m['name']: m for m in members}
            order = [m['name'] for m in members]
            out = {}
            last = [-1]

            def named_value():
                n = self.identifier()
                if n not in by_name:
                    self.fail('unknown component %r' % n)
                if n in out:
                    self.fail('component %r twice' % n)
                if k == 'seq':
                    if order.index(n) <= last[0]:
                        self.fail('component %r out of order' % n)
                    last[0] = order.index(n)
                self.msp()
                out[n] = self.value(by_name[n]['t'])
                return n
            self.components(named_value)
            for m in members:
                if m['name'] not in out and not m['opt'] and m['default'] is None:
                    self.fail('mandatory component %r missing' % m['name'])
            return out
        if k == 'choice':
            n = self.identifier()
            if self.colon_ws:
                self.sp()
            self.lit(':')
            if self.colon_ws:
                self.sp()
            for an, at in t['root'] + (t['ext'] or []):
                if an == n:
                    return (n, self.value(at))
            self.fail('unknown alternative %r' % n)
        raise ReadError('reader has no rule for kind %r' % k)


def time_from_text(kind, s, rd=None):
    def bad():
        raise ReadError('not a %s: %r' % (kind, s))
    try:
        if kind == 'UTCTime':
            body, tz = (s[:-1], datetime.timezone.utc) if s.endswith('Z') else (s[:-5], None)
            if tz is None:
                sign = {'+': 1, '-': -1}[s[-5]]
                tz = datetime.timezone(sign * datetime.timedelta(hours=int(s[-4:-2]), minutes=int(s[-2:])))
            if len(body) not in (10, 12) or not body.isdigit():
                bad()
            yy = int(body[:2])
            year = 2000 + yy if yy < 50 else 1900 + yy
            sec = int(body[10:12]) if len(body) == 12 else 0
            return datetime.datetime(year, int(body[2:4]), int(body[4:6]), int(body[6:8]), int(body[8:10]), sec, tzinfo=tz)
        if kind == 'GeneralizedTime':
            tz = None
            body = s
            if s.endswith('Z'):
                body, tz = s[:-1], datetime.timezone.utc
            elif len(s) > 5 and s[-5] in '+-':
                sign = {'+': 1, '-': -1}[s[-5]]
                tz = datetime.timezone(sign * datetime.timedelta(hours=int(s[-4:-2]), minutes=int(s[-2:])))
                body = s[:-5]
            main, _, frac = body.partition('.')
            if len(main) != 14 or not main.isdigit() or (frac and not frac.isdigit()):
                bad()
            us = int(round(Fraction(int(frac or '0'), 10 ** len(frac or '0')) * 10 ** 6)) if frac else 0
            return datetime.datetime(int(main[:4]), int(main[4:6]), int(main[6:8]), int(main[8:10]), int(main[10:12]), int(main[12:14]), us, tzinfo=tz)
        if kind == 'DATE':
            return datetime.date.fromisoformat(s)
        if kind == 'TIME-OF-DAY':
            return datetime.time.fromisoformat(s)
        if kind == 'DATE-TIME':
            if 'T' not in s:
                bad()
            return datetime.datetime.fromisoformat(s)
    except (ValueError, KeyError, IndexError):
        bad()
    raise ReadError('unknown time kind ' + kind)


def read_text(text, t, name, newlines=True, colon_ws=True):
    """the whole text `valuereference Typereference ::= Value`; returns the value; ReadError when the
    text is not completely parsed"""
    rd = Reader(text, newlines, colon_ws)
    rd.sp()
    rd.identifier()
    rd.msp()
    tn = rd.word(UPPER)
    if tn != name:
        rd.fail('type name %r expected' % name)
    rd.msp()
    rd.lit('::=')
    rd.msp()
    v = rd.value(t)
    rd.sp()
    if rd.i != len(text):
        rd.fail('text after the value')
    return v


def canon(t, v):
    """comparable abstract value: DEFAULT components filled in (root and additions), unused bits cleared,
    SET OF as a multiset, REAL as the nearest double with one zero (0.0 and -0.0 cannot be told apart in
    the notation), everything else as given"""
    k = t['k']
    if k in ('bool', 'null', 'int', 'enum', 'str', 'oid', 'time'):
        return v
    if k == 'real':
        # the library's REAL values are doubles: a text denotes the double nearest to its decimal number
        # (repr(float) is the shortest decimal that reads back to the same double)
        if isinstance(v, str):
            return v
        if isinstance(v, Fraction):
            try:
                v = float(v)
            except OverflowError:
                return 'inf' if v > 0 else '-inf'
        if isinstance(v, float) and math.isinf(v):
            return 'inf' if v > 0 else '-inf'
        return float(v) + 0.0     # -0.0 + 0.0 == 0.0: one zero
    if k in ('octs', 'any'):
        return bytes(v)
    if k == 'bits':
        data, n = v
        data = bytearray(data[:(n + 7) // 8])
        if n % 8 and data:
            data[-1] &= (0xff << (8 - n % 8)) & 0xff
        return (bytes(data), n)
    if k == 'seqof':
        return [canon(t['elem'], e) for e in v]
    if k == 'setof':
        return sorted((canon(t['elem'], e) for e in v), key=repr)
    if k in ('seq', 'set'):
        d = {}
        for m in t['root'] + (t['ext'] or []):
            if m['name'] in v:
                d[m['name']] = canon(m['t'], v[m['name']])
            elif m['default'] is not None:
                d[m['name']] = canon(m['t'], m['default'])
        return d
    if k == 'choice':
        for an, at in t['root'] + (t['ext'] or []):
            if an == v[0]:
                return (an, canon(at, v[1]))
        return tuple(v)
    raise ValueError(k)


def canon_eq(t, a, b):
    return canon(t, a) == canon(t, b)


# ------------------------------------------------------------------------------------------------
# finding predicates over (type, value)
# ------------------------------------------------------------------------------------------------
def walk(t, v, f):
    """call f(type, value) on every typed node of the value"""
    f(t, v)
    k = t['k']
    if k in ('seqof', 'setof'):
        for e in v:
            walk(t['elem'], e, f)
    elif k in ('seq', 'set'):
        for m in t['root'] + (t['ext'] or []):
            if m['name'] in v:
                walk(m['t'], v[m['name']], f)
    elif k == 'choice':
        for an, at in t['root'] + (t['ext'] or []):
            if an == v[0]:
                walk(at, v[1], f)


def real_exponent_form(x):
    """F_real_exponent: Python writes the number with an exponent (`repr` has an `e`): the library appends `E0`
    to that text (`1e+22E0`), which is not a realnumber"""
    return isinstance(x, float) and not math.isinf(x) and not math.isnan(x) and 'e' in repr(x)


def tags(t, v):
    out = set()

    def f(tt, vv):
        if tt['k'] == 'real':
            if real_exponent_form(vv):
                out.add('real-exponent-form')
            if isinstance(vv, float) and math.isnan(vv):
                out.add('real-nan')
        if tt['k'] == 'choice':
            out.add('choice')
    walk(t, v, f)
    return out


# ------------------------------------------------------------------------------------------------
# near-miss mutants (injectivity is sampled on pairs that differ in ONE small place)
# ------------------------------------------------------------------------------------------------
def mutate(rng, t, v):
    """a value of the same type shape that differs from v in one leaf (or one list length / one optional member);
    None when nothing can be changed.  Constraints are not respected (the GSER encoder does not check them)."""
    k = t['k']
    if k == 'bool':
        return not v
    if k == 'null':
        return None
    if k == 'int':
        return rng.choice([v + 1, v - 1, -v if v else 1, v * 10, int(str(abs(v))[:-1] or '0')])
    if k == 'enum':
        others = [n for n, _ in t['root'] + (t['ext'] or []) if n != v]
        return rng.choice(others) if others else None
    if k == 'octs':
        v = bytes(v)
        c = rng.randrange(4)
        if c == 0 or not v:
            return v + b'\x00'
        if c == 1:
            return v[:-1]
        i = rng.randrange(len(v))
        if c == 2:
            return v[:i] + bytes([v[i] ^ rng.choice([1, 16, 128])]) + v[i + 1:]
        return v[:i] + bytes([(v[i] >> 4) | ((v[i] & 15) << 4)]) + v[i + 1:] if (v[i] >> 4) != (v[i] & 15) else v + b'\x00'
    if k == 'bits':
        data, n = bytes(v[0]), v[1]
        c = rng.randrange(3)
        if c == 0 or n == 0:       # one more (zero) bit
            return (data + (b'\x00' if n % 8 == 0 else b''), n + 1)
        if c == 1:                 # one bit less
            m = n - 1
            return (data[:(m + 7) // 8], m)
        i = rng.randrange(n)       # flip a bit
        b = bytearray(data)
        b[i // 8] ^= 0x80 >> (i % 8)
        return (bytes(b), n)
    if k == 'str':
        c = rng.randrange(6)
        i = rng.randint(0, len(v))
        if c == 0:
            return v[:i] + '"' + v[i:]
        if c == 1 and '"' in v:
            j = v.index('"')
            return v[:j] + v[j + 1:]
        if c == 2:
            return v + ' '
        if c == 3 and v:
            return v[:-1]
        if c == 4:
            return v[:i] + rng.choice(['", "', ' }', '{ ', '\n', ',', ' : ', "'", '""']) + v[i:]
        return v[:i] + 'x' + v[i:]
    if k == 'real':
        if isinstance(v, float) and (math.isinf(v) or math.isnan(v)):
            return 1.0
        return rng.choice([-v if v else 1.0, v * 10 if v else 0.5, v + 1.0])
    if k == 'oid':
        arcs = v.split('.')
        return rng.choice([v + '.0', v + '.1', '.'.join(arcs[:-1] + [str(int(arcs[-1]) * 10 + 1)]) if len(arcs) > 2 else v + '.7',
                           '.'.join(arcs[:-1] + [arcs[-1], arcs[-1]])])
    if k in ('seqof', 'setof'):
        c = rng.randrange(3)
        if c == 0 or not v:
            if v:
                return list(v) + [v[-1]]
            return None
        if c == 1:
            return list(v[:-1])
        i = rng.randrange(len(v))
        m = mutate(rng, t['elem'], v[i])
        if m is None and t['elem']['k'] != 'null':
            return None
        if t['elem']['k'] == 'null':
            return list(v) + [None]
        return list(v[:i]) + [m] + list(v[i + 1:])
    if k in ('seq', 'set'):
        present = [m for m in t['root'] + (t['ext'] or []) if m['name'] in v]
        if not present:
            return None
        m = rng.choice(present)
        d = dict(v)
        if (m['opt'] or m['default'] is not None) and rng.random() < 0.3:
            del d[m['name']]
            return d
        w = mutate(rng, m['t'], v[m['name']])
        if w is None and m['t']['k'] != 'null':
            return None
        if m['t']['k'] == 'null':
            return None
        d[m['name']] = w
        return d
    if k == 'choice':
        for an, at in t['root'] + (t['ext'] or []):
            if an == v[0]:
                w = mutate(rng, at, v[1])
                if w is None:
                    return None
                return (an, w)
    return None


# ------------------------------------------------------------------------------------------------
# the generated part
# ------------------------------------------------------------------------------------------------
def enc_all(spec, name, v):
    out = []
    for indent in INDENTS:
        kw = {} if indent is None else {'indent': indent}
        out.append((indent, impl.encode(spec, name, v, **kw)))
    return out


def check_text(part, t, text, name, v, indent, doc, tg):
    """(iii): the Python reader on the real octets; returns True when the text reads back to the value"""
    try:
        s = doc.decode('utf-8')
    except UnicodeDecodeError:
        part.violation('gser: the output is not UTF-8', {'module': text, 'value': repr(v), 'indent': indent, 'octets': doc.hex()[:400]})
        return False
    try:
        got = read_text(s, t, name)
    except ReadError as e:
        part.violation('gser: the text is not (completely) parsed by the independent RFC 3641 reader', {'module': text, 'type_name': name, 'type_ast': repr(t), 'value': repr(v)[:20000], 'indent': indent, 'text': s[:1500], 'reader': str(e)})
        return False
    if not canon_eq(t, got, v):
        part.violation('gser: the text reads back to a different abstract value', {'module': text, 'type_name': name, 'type_ast': repr(t), 'value': repr(v)[:20000], 'indent': indent, 'text': s[:1500], 'read_back': repr(got)[:600]})
        return False
    if 'choice' in tg:
        try:
            read_text(s, t, name, colon_ws=False)
            part.count('strict-abnf.choice-without-colon-space')
        except ReadError:
            part.known_finding('C20-choice-colon-white-space', 'a CHOICE value is written `id : value`; the ABNF of RFC 3641 has no white space around the colon (X.680 value notation allows it)')
    return True


def work(job):
    chunk, seed = job
    import random
    rng = random.Random(seed)
    part = core.Part()
    model = core.Model()
    reqs, meta = [], []
    for (t, text, name, vals) in chunk:
        st, spec = impl.compile_text(text, 'gser')
        if st != 'ok':
            part.count('compile.' + st)
            continue
        modelled = is_modelled(t)
        tsx = ty_sx(t) if modelled else None
        G.features(t, part.hist)
        texts = {}
        for v in vals:
            tg = tags(t, v)
            for indent, r in enc_all(spec, name, v):
                part.case((text, repr(v), indent))
                if r[0] != 'ok':
                    if 'real-nan' in tg and r[1] == 'EncodeError':
                        part.count('real.nan-refused (the notation has no NaN)')
                        continue
                    if r[1] == 'EncodeError' and 'mandatory-addition-missing' in value_tags(t, v, 'gser'):
                        # not a value of the type (a mandatory extension addition is absent): refusing it is correct;
                        # the model must refuse it too
                        part.count('refused.mandatory-addition-missing (not a typed value)')
                        if modelled:
                            ind = '-' if indent is None else str(indent)
                            reqs.append('gser\t%s\t%s\t%s\t%s' % (ind, name, tsx, val_sx(t, v)))
                            meta.append((t, text, name, v, indent, None))
                        continue
                    part.violation('gser: a checked value is refused by the encoder (%s)' % r[1], {'module': text, 'type_name': name, 'type_ast': repr(t), 'value': repr(v)[:20000], 'indent': indent, 'error': r[2]})
                    continue
                doc = r[1]
                part.count('size.%s' % ('<64' if len(doc) < 64 else '<1k' if len(doc) < 1024 else '<16k' if len(doc) < 16384 else '>=16k'))
                ok = check_text(part, t, text, name, v, indent, doc, tg)
                if ok:
                    part.count('indent=%s.python-reader-ok' % indent)
                    # (iv) injectivity among the values of this type
                    key = (indent, doc)
                    if key in texts and not canon_eq(t, texts[key], v):
                        part.violation('gser: two different values have the same text', {'module': text, 'value': repr(v)[:20000], 'other': repr(texts[key])[:500], 'indent': indent, 'text': doc.decode('utf-8', 'replace')[:800]})
                    texts.setdefault(key, v)
                if ok and indent in (None, 2):
                    # (iv) near-miss mutants: a different abstract value must have a different text
                    for _ in range(2):
                        try:
                            w = mutate(rng, t, v)
                        except (TypeError, ValueError, IndexError, OverflowError):
                            w = None
                        if w is None:
                            continue
                        rw = impl.encode(spec, name, w, **({} if indent is None else {'indent': indent}))
                        if rw[0] != 'ok':
                            part.count('mutant.refused')
                            continue
                        part.case(('mutant', text, repr(v), repr(w), indent))
                        try:
                            same = canon_eq(t, v, w)
                        except (TypeError, ValueError, OverflowError):
                            continue
                        if same:
                            part.count('mutant.same-abstract-value (%s)' % ('same text' if rw[1] == doc else 'texts differ'))
                        elif rw[1] == doc:
                            part.violation('gser: two different values have the same text', {'module': text, 'value': repr(v)[:20000], 'other': repr(w)[:20000], 'indent': indent, 'text': doc.decode('utf-8', 'replace')[:800]})
                        else:
                            part.count('mutant.different-value-different-text')
                            wt = tags(t, w)
                            if 'real-nan' not in wt:
                                check_text(part, t, text, name, w, indent, rw[1], wt)
                if modelled:
                    ind = '-' if indent is None else str(indent)
                    reqs.append('gser\t%s\t%s\t%s\t%s' % (ind, name, tsx, val_sx(t, v)))
                    reqs.append('gserread\t%s\t%s' % (tsx, doc.hex()))
                    reqs.append('gserrt\t%s\t%s\t%s\t%s' % (ind, name, tsx, val_sx(t, v)))
                    meta.append((t, text, name, v, indent, doc))
    ans = model.batch(reqs)
    part.count('model_driver_requests', len(reqs))
    pos = 0
    for (t, text, name, v, indent, doc) in meta:
        if doc is None:
            menc = ans[pos]
            pos += 1
            if menc != 'err EncodeError':
                part.disagreement('corr.gser.encode', {'module': text, 'value': repr(v)[:300], 'indent': indent, 'impl': 'EncodeError', 'model': menc[:300]})
            continue
        menc, mread, mrt = ans[pos], ans[pos + 1], ans[pos + 2]
        pos += 3
        want = 'ok %s %s %s strict=' % (val_sx(t, G.canon_py(t, v)), name.lower(), name)
        if not mread.startswith(want):
            part.violation('gser: the Lean RFC 3641 reader does not read the implementation\'s text back to the value',
                           {'module': text, 'type_name': name, 'type_ast': repr(t), 'value': repr(v)[:20000], 'indent': indent, 'text': doc.decode('utf-8', 'replace')[:1500], 'lean_reader': mread[:400], 'expected': want[:400]})
            continue
        part.count('indent=%s.lean-reader-ok' % indent)
        if menc != 'ok ' + doc.hex():
            part.disagreement('corr.gser.encode', {'module': text, 'value': repr(v)[:300], 'indent': indent, 'impl': doc.decode('utf-8', 'replace')[:400],
                                                   'model': bytes.fromhex(menc[3:]).decode('utf-8', 'replace')[:400] if menc.startswith('ok ') and menc != 'ok -' else menc})
            continue
        if 'wf=T typed=T ids=T name=T' in mrt:
            if not mrt.endswith('enc=ok read=ok value=T'):
                part.disagreement('theorem.gser_roundtrip', {'module': text, 'value': repr(v)[:300], 'indent': indent, 'model': mrt})
                continue
            part.count('theorem-instance.hypotheses-hold')
        else:
            part.count('theorem-instance.hypotheses-false')
        part.sample({'module': text[:300], 'value': repr(v)[:150], 'indent': indent, 'text': doc.decode('utf-8', 'replace')[:200],
                     'lean_reader': 'parses completely and maps back to the value', 'model_text': 'identical'}, limit=2)
    return part


# ------------------------------------------------------------------------------------------------
# hand-made part: what the generator does not produce
# ------------------------------------------------------------------------------------------------
def M(name, t, opt=False, default=None):
    return {'name': name, 't': t, 'opt': opt, 'default': default}


INT = {'k': 'int', 'lo': None, 'hi': None, 'ext': False, 'con': False}
BOOL = {'k': 'bool'}
NULL = {'k': 'null'}
REAL = {'k': 'real'}
OID = {'k': 'oid'}
U8 = {'k': 'str', 'kind': 'UTF8String', 'size': None}
IA5 = {'k': 'str', 'kind': 'IA5String', 'size': None}
OCTS = {'k': 'octs', 'size': None}
BITS = {'k': 'bits', 'size': None}

EXTRA_MODULE = '''X DEFINITIONS AUTOMATIC TAGS ::= BEGIN
R ::= REAL
RS ::= SEQUENCE OF REAL
O ::= OBJECT IDENTIFIER
NB ::= BIT STRING { first(0), second(1), sixth(5) }
UT ::= UTCTime
GT ::= GeneralizedTime
DA ::= DATE
TD ::= TIME-OF-DAY
DT ::= DATE-TIME
ST ::= SET { a INTEGER, b BOOLEAN OPTIONAL, c UTF8String DEFAULT "x" }
SO ::= SET OF INTEGER
CC ::= CHOICE { a CHOICE { b NULL, c INTEGER, d CHOICE { e BOOLEAN } }, l SEQUENCE OF SEQUENCE OF INTEGER, s UTF8String }
LL ::= SEQUENCE OF SEQUENCE OF UTF8String
SQ ::= SEQUENCE { s UTF8String, o OCTET STRING, b BIT STRING, i IA5String OPTIONAL }
EN ::= ENUMERATED { true, false, null, plus-infinity }
BO ::= SEQUENCE OF BOOLEAN
CH ::= CHOICE { x INTEGER, y INTEGER, z SEQUENCE OF INTEGER, w SEQUENCE OF INTEGER }
MIX ::= SEQUENCE { r REAL OPTIONAL, o OBJECT IDENTIFIER OPTIONAL, t UTCTime OPTIONAL, e EN OPTIONAL, n NULL OPTIONAL }
END
'''
EN = {'k': 'enum', 'root': [('true', 0), ('false', 1), ('null', 2), ('plus-infinity', 3)], 'ext': None}
EXTRA_TYPES = {
    'R': REAL,
    'RS': {'k': 'seqof', 'elem': REAL, 'size': None},
    'O': OID,
    'NB': {'k': 'bits', 'size': None, 'named': [('first', 0), ('second', 1), ('sixth', 5)]},
    'UT': {'k': 'time', 'kind': 'UTCTime'},
    'GT': {'k': 'time', 'kind': 'GeneralizedTime'},
    'DA': {'k': 'time', 'kind': 'DATE'},
    'TD': {'k': 'time', 'kind': 'TIME-OF-DAY'},
    'DT': {'k': 'time', 'kind': 'DATE-TIME'},
    'ST': {'k': 'set', 'root': [M('a', INT), M('b', BOOL, opt=True), M('c', U8, default='x')], 'ext': None},
    'SO': {'k': 'setof', 'elem': INT, 'size': None},
    'CC': {'k': 'choice', 'root': [('a', {'k': 'choice', 'root': [('b', NULL), ('c', INT), ('d', {'k': 'choice', 'root': [('e', BOOL)], 'ext': None})], 'ext': None}),
                                   ('l', {'k': 'seqof', 'elem': {'k': 'seqof', 'elem': INT, 'size': None}, 'size': None}), ('s', U8)], 'ext': None},
    'LL': {'k': 'seqof', 'elem': {'k': 'seqof', 'elem': U8, 'size': None}, 'size': None},
    'SQ': {'k': 'seq', 'root': [M('s', U8), M('o', OCTS), M('b', BITS), M('i', IA5, opt=True)], 'ext': None},
    'EN': EN,
    'BO': {'k': 'seqof', 'elem': BOOL, 'size': None},
    'CH': {'k': 'choice', 'root': [('x', INT), ('y', INT), ('z', {'k': 'seqof', 'elem': INT, 'size': None}), ('w', {'k': 'seqof', 'elem': INT, 'size': None})], 'ext': None},
    'MIX': {'k': 'seq', 'root': [M('r', REAL, opt=True), M('o', OID, opt=True), M('t', {'k': 'time', 'kind': 'UTCTime'}, opt=True), M('e', EN, opt=True), M('n', NULL, opt=True)], 'ext': None},
}
REALS = [0.0, -0.0, 1.0, -1.0, 0.5, -0.5, 0.1, 0.25, 0.105, 1.5, 123456.789, 1000000000000000.0, 0.0001, 0.00012345, 3.141592653589793,
         9007199254740992.0, 1e16, 1e22, 1e23, 1e300, -1e-300, 1e-5, 5e-324, 2.2250738585072014e-308, 1.7976931348623157e308,
         2.0 ** 70, -(2.0 ** -70), float('inf'), float('-inf'), float('nan')]
UTC = datetime.timezone.utc


def extra_values(rng, n_random):
    tz2 = datetime.timezone(datetime.timedelta(hours=2))
    tzm = datetime.timezone(-datetime.timedelta(hours=3, minutes=30))
    v = {
        'R': list(REALS) + [rng.uniform(-1, 1) * 10 ** rng.randint(-30, 30) for _ in range(n_random)] + [float(rng.randint(-10 ** 6, 10 ** 6)) for _ in range(n_random // 4)],
        'RS': [[], [0.0], [1.5, -2.25, float('inf')], [0.1, 1e22]],
        'O': ['0.0', '1.2', '2.999.1', '1.2.840.113549.1.1.11', '2.5.4.3', '0.39.0.18446744073709551616'],
        'NB': [(b'', 0), (b'\x80', 1), (b'\xc0', 2), (b'\x84', 6), (b'\x00', 6), (b'\x84\x00', 9), (b'\xff\xff', 16)],
        'UT': [datetime.datetime(2020, 1, 2, 3, 4, 5, tzinfo=UTC), datetime.datetime(1999, 12, 31, 23, 59, 59, tzinfo=UTC), datetime.datetime(2049, 6, 7, 8, 9, 0, tzinfo=tz2), datetime.datetime(1950, 1, 1, 0, 0, 0, tzinfo=tzm)],
        'GT': [datetime.datetime(2020, 1, 2, 3, 4, 5), datetime.datetime(2020, 1, 2, 3, 4, 5, 123000), datetime.datetime(1601, 2, 3, 4, 5, 6, tzinfo=UTC), datetime.datetime(9999, 12, 31, 23, 59, 59, 999000, tzinfo=tz2)],
        'DA': [datetime.date(2020, 1, 2), datetime.date(1, 1, 1), datetime.date(9999, 12, 31)],
        'TD': [datetime.time(0, 0, 0), datetime.time(23, 59, 59), datetime.time(1, 2, 3)],
        'DT': [datetime.datetime(2020, 1, 2, 3, 4, 5), datetime.datetime(1, 1, 1, 0, 0, 0)],
        'ST': [{'a': 1}, {'a': -1, 'b': True}, {'b': False, 'a': 0, 'c': 'y"z'}, {'a': 5, 'c': 'x'}],
        'SO': [[], [3, 1, 2], [1, 1], [0]],
        'CC': [('a', ('b', None)), ('a', ('c', -7)), ('a', ('d', ('e', True))), ('l', []), ('l', [[]]), ('l', [[], []]), ('l', [[1, 2], [], [3]]), ('s', 'a : b'), ('s', '')],
        'LL': [[], [[]], [[], []], [['']], [['', '']], [['a"', '"'], ['""'], [',', '}', '{ }']]],
        'SQ': [{'s': '', 'o': b'', 'b': (b'', 0)}, {'s': '"', 'o': b'\x00', 'b': (b'\x00', 1), 'i': ''}, {'s': '""', 'o': b'\xab\xcd', 'b': (b'\x80', 1), 'i': '\x00\n\t"\x7f'},
               {'s': 'a"b""c\n', 'o': b'\xff' * 20, 'b': (b'\xaa\xa0', 12)}, {'s': 'å€\U0001d11e﻿\x00', 'o': b'\x0a', 'b': (b'\xff', 8)}],
        'EN': ['true', 'false', 'null', 'plus-infinity'],
        'BO': [[], [True], [False, True]],
        'CH': [('x', 1), ('y', 1), ('z', []), ('w', [0])],
        'MIX': [{}, {'r': 1.5, 'o': '1.2.3', 't': datetime.datetime(2020, 1, 2, 3, 4, 5, tzinfo=UTC), 'e': 'null', 'n': None}, {'e': 'true'}, {'r': float('-inf'), 'n': None}, {'r': 0.0}],
    }
    return v


NEAR_MISS = [
    # (type name, value 1, value 2): different abstract values that must have different texts
    ('SQ', {'s': 'a"b', 'o': b'', 'b': (b'', 0)}, {'s': 'a""b', 'o': b'', 'b': (b'', 0)}),
    ('SQ', {'s': 'ab', 'o': b'', 'b': (b'', 0)}, {'s': 'a"b', 'o': b'', 'b': (b'', 0)}),
    ('SQ', {'s': '', 'o': b'', 'b': (b'', 0)}, {'s': '"', 'o': b'', 'b': (b'', 0)}),
    ('SQ', {'s': '", o \'00\'H, x "', 'o': b'', 'b': (b'', 0)}, {'s': '', 'o': b'\x00', 'b': (b'', 0)}),
    ('SQ', {'s': '', 'o': b'', 'b': (b'\x80', 1)}, {'s': '', 'o': b'', 'b': (b'\x80', 2)}),
    ('SQ', {'s': '', 'o': b'', 'b': (b'\x80', 1)}, {'s': '', 'o': b'', 'b': (b'\x80', 8)}),
    ('SQ', {'s': '', 'o': b'', 'b': (b'\x00', 8)}, {'s': '', 'o': b'', 'b': (b'\x00\x00', 9)}),
    ('SQ', {'s': '', 'o': b'', 'b': (b'', 0)}, {'s': '', 'o': b'', 'b': (b'\x00', 1)}),
    ('SQ', {'s': '', 'o': b'', 'b': (b'', 0)}, {'s': '', 'o': b'\x00', 'b': (b'', 0)}),
    ('SQ', {'s': '', 'o': b'\x01\x00', 'b': (b'', 0)}, {'s': '', 'o': b'\x10', 'b': (b'', 0)}),
    ('SQ', {'s': '', 'o': b'', 'b': (b'', 0)}, {'s': '', 'o': b'', 'b': (b'', 0), 'i': ''}),
    ('SQ', {'s': 'x', 'o': b'', 'b': (b'', 0)}, {'s': '', 'o': b'', 'b': (b'', 0), 'i': 'x'}),
    ('CC', ('a', ('c', 1)), ('a', ('d', ('e', True)))),
    ('CC', ('a', ('b', None)), ('s', 'b : NULL')),
    ('CC', ('l', []), ('l', [[]])),
    ('CC', ('l', [[]]), ('l', [[], []])),
    ('CC', ('l', [[1, 2]]), ('l', [[1], [2]])),
    ('CC', ('l', [[12]]), ('l', [[1, 2]])),
    ('CC', ('s', ''), ('s', ' ')),
    ('LL', [], [[]]),
    ('LL', [[]], [['']]),
    ('LL', [['a', 'b']], [['a", "b']]),
    ('LL', [['a'], ['b']], [['a', 'b']]),
    ('LL', [['a\n', 'b']], [['a', '\nb']]),
    ('BO', [], [True]),
    ('CH', ('x', 1), ('y', 1)),
    ('CH', ('z', []), ('w', [])),
    ('CH', ('z', [1]), ('z', [])),
    ('BO', [True], [True, True]),
    ('ST', {'a': 1}, {'a': 1, 'b': False}),
    ('ST', {'a': 1}, {'a': 1, 'c': 'y'}),
    ('SO', [1, 2], [12]),
    ('SO', [], [0]),
    ('NB', (b'', 0), (b'\x00', 1)),
    ('NB', (b'\x80', 1), (b'\x80', 2)),
    ('O', '1.2.3', '1.23'),
    ('O', '1.2', '1.2.0'),
    ('R', 1.0, 10.0),
    ('R', 0.5, 5.0),
    ('R', 1.5, -1.5),
    ('R', float('inf'), float('-inf')),
    ('R', 0.1, 0.10000000000000002),
    ('RS', [], [0.0]),
    ('MIX', {}, {'n': None}),
    ('MIX', {'e': 'null'}, {'n': None}),
    ('EN', 'true', 'false'),
]


def extras(ctx):
    rng = ctx.rng
    st, spec = impl.compile_text(EXTRA_MODULE, 'gser')
    if st != 'ok':
        ctx.violation('gser: the hand-made module does not compile (%s)' % st, {'module': EXTRA_MODULE, 'error': spec})
        return
    part = core.Part()
    vals = extra_values(rng, ctx.n(150, 3000))
    for name, t in EXTRA_TYPES.items():
        for v in vals[name]:
            tg = tags(t, v)
            for indent, r in enc_all(spec, name, v):
                part.case(('extra', name, repr(v), indent))
                part.count('extra.%s' % t['k'])
                if r[0] != 'ok':
                    if 'real-nan' in tg and r[1] == 'EncodeError':
                        part.count('real.nan-refused (the notation has no NaN)')
                        continue
                    part.violation('gser: a checked value is refused by the encoder (%s)' % r[1], {'module': EXTRA_MODULE, 'type': name, 'value': repr(v)[:20000], 'indent': indent, 'error': r[2]})
                    continue
                if check_text(part, t, EXTRA_MODULE, name, v, indent, r[1], tg):
                    part.count('extra.%s.ok' % t['k'])
                    if t['k'] == 'real' and isinstance(v, float) and v == 0.0 and math.copysign(1, v) < 0:
                        part.count('real.minus-zero-written-as-0 (the notation has one zero)')
    # (iv) near-miss pairs
    for name, a, b in NEAR_MISS:
        t = EXTRA_TYPES[name]
        assert not canon_eq(t, a, b), (name, a, b)
        for (indent, ra), (_, rb) in zip(enc_all(spec, name, a), enc_all(spec, name, b)):
            part.case(('near-miss', name, repr(a), repr(b), indent))
            if ra[0] != 'ok' or rb[0] != 'ok':
                part.violation('gser: a near-miss value is refused by the encoder', {'module': EXTRA_MODULE, 'type': name, 'values': [repr(a), repr(b)], 'results': [repr(ra)[:200], repr(rb)[:200]]})
                continue
            if ra[1] == rb[1]:
                part.violation('gser: two different values have the same text', {'module': EXTRA_MODULE, 'type': name, 'value': repr(a), 'other': repr(b), 'indent': indent, 'text': ra[1].decode('utf-8', 'replace')})
            else:
                part.count('near-miss.texts-differ')
    core.merge(ctx, [part])


def regressions(ctx):
    """repaired defects: each must stay repaired"""
    text = 'M DEFINITIONS AUTOMATIC TAGS ::= BEGIN A ::= BIT STRING B ::= SEQUENCE { s UTF8String, b BIT STRING } C ::= IA5String END'
    st, spec = impl.compile_text(text, 'gser')
    vectors = [
        ('A', (b'', 0), None, b"a A ::= ''B", 'fixed 0f058e0: an empty BIT STRING raised ValueError'),
        ('A', (b'', 0), 4, b"a A ::= ''B", 'fixed 0f058e0: an empty BIT STRING raised ValueError'),
        ('B', {'s': 'say "hi"', 'b': (b'', 0)}, None, b'b B ::= { s "say ""hi""", b \'\'B }', 'fixed 2eb19de: double quotes inside a string were not doubled'),
        ('C', '"', None, b'c C ::= """"', 'fixed 2eb19de: double quotes inside a string were not doubled'),
        ('C', 'a"b', 2, b'c C ::= "a""b"', 'fixed 2eb19de: double quotes inside a string were not doubled'),
    ]
    for name, v, indent, want, why in vectors:
        ctx.case(('regression', name, repr(v), indent))
        r = impl.encode(spec, name, v, **({} if indent is None else {'indent': indent}))
        if r[0] != 'ok' or r[1] != want:
            ctx.violation('gser: a repaired defect is back (%s)' % why, {'module': text, 'type': name, 'value': repr(v), 'indent': indent, 'expected': want.decode(), 'got': repr(r)[:300]})
        else:
            ctx.count('regression-vector.ok')
    # the quote defect as an injectivity failure: these two had the same text `"a""b"` / were unreadable
    ra, rb = impl.encode(spec, 'C', 'a"b'), impl.encode(spec, 'C', 'a""b')
    ctx.case(('regression', 'quote-injective'))
    if ra[0] != 'ok' or rb[0] != 'ok' or ra[1] == rb[1]:
        ctx.violation('gser: strings differing by a double quote are not told apart', {'module': text, 'values': ['a"b', 'a""b'], 'texts': [repr(ra), repr(rb)]})


def witnesses(ctx):
    """every recorded finding is replayed; a witness that stops failing is reported as stale"""
    st, spec = impl.compile_text(EXTRA_MODULE, 'gser')
    # regression vectors of the repaired defect "REAL written as <repr with exponent>E0" (fix: GSER REAL is written with a single exponent)
    for x in (1e22, 1e16, 1e-5, 5e-324, 1.7976931348623157e308, -2.5e-10):
        r = impl.encode(spec, 'R', x)
        ok = False
        if r[0] == 'ok':
            try:
                ok = canon_eq(REAL, read_text(r[1].decode(), REAL, 'R'), x)
            except ReadError:
                ok = False
        ctx.case(('regression-real-exponent', x))
        if not ok:
            ctx.violation('gser: REAL %r is written as %r, which the RFC 3641 reader does not map back to the value (repaired defect returned)' % (x, r[1]),
                          {'module': EXTRA_MODULE, 'type': 'R', 'value': repr(x), 'result': repr(r)})
    r = impl.encode(spec, 'R', 10 ** 400)
    if r[0] == 'err' and r[1].startswith('Foreign'):
        ctx.known_finding('C20-real-int-overflow', 'witness: REAL given the Python int 10**400 (accepted by the type checker) raises %s instead of an EncodeError' % r[1])
    else:
        ctx.notes.append('stale finding: C20-real-int-overflow no longer reproduces')
    r = impl.encode(spec, 'CC', ('a', ('b', None)))
    strict = False
    if r[0] == 'ok':
        try:
            read_text(r[1].decode(), EXTRA_TYPES['CC'], 'CC', colon_ws=False)
            strict = True
        except ReadError:
            pass
    if strict:
        ctx.notes.append('stale finding: C20-choice-colon-white-space no longer reproduces')
    else:
        ctx.known_finding('C20-choice-colon-white-space', 'witness: %r has white space around ":" (not in the ABNF of RFC 3641; accepted as X.680 value notation)' % (r[1].decode() if r[0] == 'ok' else r,))
    g = 'M DEFINITIONS AUTOMATIC TAGS ::= BEGIN A ::= SEQUENCE { a BOOLEAN, ..., [[ g INTEGER, h BOOLEAN ]] } END'
    st, spec2 = impl.compile_text(g, 'gser')
    r = impl.encode(spec2, 'A', {'a': True})
    if r[0] == 'ok':
        ctx.notes.append('stale finding: C20-addition-group-mandatory no longer reproduces')
    else:
        ctx.known_finding('C20-addition-group-mandatory', 'witness: the members of an absent [[ addition group ]] are demanded as if mandatory (%s)' % r[1])
    # the Lean strict reader agrees on the colon witness
    a = ctx.model.batch(['gserread\t(choice ((a null)) none)\t%s' % b'a A ::= a : NULL'.hex(), 'gserread\t(choice ((a null)) none)\t%s' % b'a A ::= a:NULL'.hex()])
    if not (a[0].endswith('strict=F') and a[1].endswith('strict=T') and a[0].startswith('ok (ch a N)') and a[1].startswith('ok (ch a N)')):
        ctx.disagreement('corr.gser.strict-reader', {'answers': a})


def run(ctx):
    rng = ctx.rng
    ctx.assumptions += [
        'CPython str.replace / str(int) / repr(float) / str.encode("utf-8") are trusted externals of the implementation; INTEGER values above the CPython int->str digit limit (4300 digits) are outside the validated domain',
        'white space: the readers accept SP, HT, LF, CR where RFC 3641 has sp / msp (the indented layout uses new-lines), and white space around the ":" of a ChoiceValue (X.680 value notation); the strict ABNF reading is evaluated separately and its failure is the recorded finding C20-choice-colon-white-space',
        'the top-level text `name Type ::= value` is read as an X.680 value assignment (RFC 3641 defines only Value)',
        'REAL: 0.0 and -0.0 are one abstract value (RFC 3641 has one zero); NaN has no notation and is refused with EncodeError',
        'time types are read as StringValues and converted back with the X.680 formats; DATE / TIME-OF-DAY / DATE-TIME are not in RFC 3641 (2003)',
    ]
    ctx.extra['rule'] = ('generated modules (Lean universe; and with REAL / OBJECT IDENTIFIER / SET / SET OF mixed in) x 4 values x indent {None,0,2,4}; strings over an alphabet with quotes, braces, commas, colons, control and non-ASCII characters; '
                         'hand-made module for named bits, time types, REAL specials, nested CHOICE, lists of lists; near-miss pairs; distinct = distinct (module, value, indent)')
    saved = ALPHABETS['UTF8String']
    ALPHABETS['UTF8String'] = ([chr(c) for c in range(32, 127)] + list('"\'{},: ') * 4 + [chr(c) for c in range(0, 32)] +
                               list('\x7f\x80\xa0åäö€漢\U0001d11e߿ࠀ￿￾퟿﻿\U00010000\U0010ffff\U0001f600'))
    try:
        cases = []
        names = ['A', 'Ab', 'My-Type', 'T1']
        opts = Opts(max_depth=3, allow_exotic=0.0, big_lengths=0.0, big_in_additions=0.0)
        for i in range(ctx.n(800, 8000)):
            g = Gen(rng, opts)
            t = g.type()
            name = names[i % len(names)]
            cases.append((t, module_text([(name, t)]), name, [g.value(t) for _ in range(4)]))
        opts2 = Opts(max_depth=3, allow_exotic=0.0, big_lengths=0.0, big_in_additions=0.0,
                     kinds=['bool', 'null', 'int', 'enum', 'octs', 'bits', 'str', 'seq', 'seqof', 'choice', 'real', 'oid', 'set', 'setof', 'real', 'oid', 'set', 'setof'])
        for i in range(ctx.n(350, 4000)):
            g = Gen(rng, opts2)
            t = g.type()
            if is_modelled(t):
                continue
            cases.append((t, module_text([('A', t)]), 'A', [g.value(t) for _ in range(4)]))
        for t, vals in boundary_cases(rng)[::ctx.n(3, 1)]:
            vals = [v for v in vals if not (isinstance(v, (list, bytes)) and len(v) > 3000) and not (isinstance(v, tuple) and isinstance(v[1], int) and v[1] > 20000)]
            if vals:
                cases.append((t, module_text([('A', t)]), 'A', vals[:4]))
        n = 28
        parts = core.parallel_map(work, [(cases[k::n], rng.getrandbits(32)) for k in range(n)])
        core.merge(ctx, parts)
        ctx.model.calls += ctx.hist.pop('model_driver_requests', 0)
        extras(ctx)
        numeric_enum_cases(ctx)
        regressions(ctx)
        witnesses(ctx)
    finally:
        ALPHABETS['UTF8String'] = saved


def numeric_enum_cases(ctx):
    """numeric_enums=True: ENUMERATED values are given as numbers, the text still names the identifier OF THAT TYPE.  Several
    ENUMERATED types with the same identifiers in the same order and different numberings, in one module and in modules compiled one
    after the other in this process; oracle = the name-based compile of the same text (the identifier whose number it is)."""
    rng = ctx.rng
    idsets = [['low', 'high'], ['red', 'green', 'blue'], ['a', 'b', 'c', 'd']]
    for case in range(ctx.n(12, 120)):
        ids = rng.choice(idsets)
        defs, tables = [], {}
        for k in range(rng.randint(2, 4)):
            nums = rng.sample(range(0, 12), len(ids)) if rng.random() < 0.8 else list(range(len(ids)))
            if k == 0 and rng.random() < 0.6:
                nums = list(range(len(ids)))                 # the plain ENUMERATED { low, high }
                body = ', '.join(ids)
            else:
                body = ', '.join('%s(%d)' % (i, n) for i, n in zip(ids, nums))
            defs.append('E%d ::= ENUMERATED { %s }' % (k, body))
            tables['E%d' % k] = dict(zip(nums, ids))
        members = ', '.join('m%d E%d' % (k, k) for k in range(len(defs)))
        text = ('M DEFINITIONS AUTOMATIC TAGS ::= BEGIN\n' + '\n'.join(defs) +
                '\nS ::= SEQUENCE { %s }\nL ::= SEQUENCE OF E%d\nC ::= CHOICE { x E%d, y E0 }\nEND\n' % (members, len(defs) - 1, len(defs) - 1))
        stn, num = impl.compile_text(text, 'gser', numeric_enums=True)
        sts, sym = impl.compile_text(text, 'gser')
        if stn != 'ok' or sts != 'ok':
            ctx.count('numeric-enum.compile-failed')
            continue
        last = 'E%d' % (len(defs) - 1)
        probes = []
        for tn, tb in tables.items():
            for n_, i_ in tb.items():
                probes.append((tn, n_, i_))
        probes.append(('S', {'m%d' % k: rng.choice(list(tables['E%d' % k])) for k in range(len(defs))}, None))
        probes.append(('L', [rng.choice(list(tables[last])) for _ in range(3)], None))
        probes.append(('C', ('x', rng.choice(list(tables[last]))), None))
        for tn, nv, _ in probes:
            if tn == 'S':
                sv = {m: tables['E' + m[1:]][x] for m, x in nv.items()}
            elif tn == 'L':
                sv = [tables[last][x] for x in nv]
            elif tn == 'C':
                sv = ('x', tables[last][nv[1]])
            else:
                sv = tables[tn][nv]
            for indent in (None, 2):
                kw = {} if indent is None else {'indent': indent}
                a = impl.encode(num, tn, nv, **kw)
                b = impl.encode(sym, tn, sv, **kw)
                ctx.case(('numeric-enum', text, tn, repr(nv), indent))
                ctx.count('numeric-enum.' + a[0])
                if a[:2] != b[:2]:
                    ctx.violation('gser with numeric_enums=True: the text does not name the identifier that the number stands for in ITS OWN type',
                                  {'module': text, 'type': tn, 'value_numeric': repr(nv), 'value_by_name': repr(sv), 'numeric_text': repr(a[1])[:300], 'name_based_text': repr(b[1])[:300]})


def replay(ctx, path):
    """re-evaluate the recorded case on the current tree: encode, both readers, the model"""
    import json
    d = json.load(open(path))['replay']
    print(json.dumps(d, indent=1)[:3000])
    if not (isinstance(d, dict) and 'module' in d and 'value' in d):
        return
    env = {'datetime': datetime, 'inf': float('inf'), 'nan': float('nan'), 'Fraction': Fraction}
    try:
        v = eval(d['value'], env)
        t = eval(d['type_ast'], env) if 'type_ast' in d else EXTRA_TYPES.get(d.get('type'))
    except Exception as e:
        print('cannot rebuild the case: %r' % (e,))
        return
    name = d.get('type_name') or d.get('type') or 'A'
    st, spec = impl.compile_text(d['module'], 'gser')
    if st != 'ok':
        print('module does not compile now: %s' % st)
        return
    indent = d.get('indent')
    r = impl.encode(spec, name, v, **({} if indent is None else {'indent': indent}))
    print('encode now:', repr(r)[:1500])
    if r[0] != 'ok' or t is None:
        return
    part = core.Part()
    ok = check_text(part, t, d['module'], name, v, indent, r[1], tags(t, v))
    print('python reader: %s' % ('reads the value back' if ok else 'FAILS'))
    if 'other' in d:
        w = eval(d['other'], env)
        r2 = impl.encode(spec, name, w, **({} if indent is None else {'indent': indent}))
        print('other value: %s; same text: %s; same abstract value: %s' % (repr(r2)[:300], r2[0] == 'ok' and r2[1] == r[1], canon_eq(t, v, w)))
        if r2[0] == 'ok' and r2[1] == r[1] and not canon_eq(t, v, w):
            ctx.violation('gser: two different values have the same text', d)
    if is_modelled(t):
        ind = '-' if indent is None else str(indent)
        a = ctx.model.batch(['gser\t%s\t%s\t%s\t%s' % (ind, name, ty_sx(t), val_sx(t, v)), 'gserread\t%s\t%s' % (ty_sx(t), r[1].hex())])
        print('model text identical: %s' % (a[0] == 'ok ' + r[1].hex()))
        want = 'ok %s %s %s strict=' % (val_sx(t, G.canon_py(t, v)), name.lower(), name)
        print('lean reader: %s' % ('reads the value back' if a[1].startswith(want) else 'FAILS: ' + a[1][:300]))
        if not a[1].startswith(want):
            ctx.violation('gser: the Lean RFC 3641 reader does not read the implementation\'s text back to the value', d)
    core.merge(ctx, [part])
