"""C08 — decoding arbitrary bytes terminates within bounded time and memory.

Stage K: for generated modules and every decoding codec, byte strings obtained by mutating valid encodings (bit
flips, truncation, insertion, deletion, splicing, length-field and tag tampering, structural edits through the TLV
library) and uniformly random strings up to 4 KiB are decoded in worker processes under an address-space limit and a
per-call time limit that is generous for work proportional to the input.  A timeout or MemoryError is a violation
(unless it is the recorded finding); after every malformed input a sentinel valid encoding must still decode to the
same value.  For the five modelled codecs the outcome class (value / DecodeError) is compared with the total Lean
model decoder, whose data-driven loops carry fuel = input length + 2 and must never run out of it."""
import random
import resource

from .. import core, impl, tlv
from ..codecs import MODELLED, py_equal, impl_answer_dec
from ..gen import Gen, Opts, module_text, ty_sx, val_sx, is_modelled

CODECS = ['ber', 'der', 'per', 'uper', 'oer', 'jer', 'xer']
TIME_LIMIT = 4.0        # seconds per decode of <= 4 KiB (a linear-time decoder needs milliseconds)
MEM_LIMIT = 3 << 30


def zero_width(t):
    """can an element of this type be encoded in zero octets by OER (the recorded finding needs that)"""
    k = t['k']
    if k == 'null':
        return True
    if k == 'seq':
        return all(zero_width(m['t']) for m in t['root']) and not any(m['opt'] or m['default'] is not None for m in t['root']) and t['ext'] is None
    if k in ('octs', 'str') and t['size'] and not t['size'][2] and t['size'][0] == 0 and t['size'][1] == 0:
        return True
    return False


def has_zero_width_list(t):
    k = t['k']
    if k in ('seqof', 'setof'):
        return zero_width(t['elem']) or has_zero_width_list(t['elem'])
    if k in ('seq', 'set'):
        return any(has_zero_width_list(m['t']) for m in t['root'] + (t['ext'] or []))
    if k == 'choice':
        return any(has_zero_width_list(a) for _, a in t['root'] + (t['ext'] or []))
    return False


def mutations(rng, data, node):
    out = []
    for _ in range(6):
        try:
            alt, kind = tlv.mutate(data, node, rng)
        except Exception:
            continue
        out.append((kind, alt))
    # length / count field tampering at arbitrary positions
    b = bytearray(data)
    for _ in range(3):
        if b:
            i = rng.randrange(len(b))
            c = bytearray(b)
            c[i:i + 1] = rng.choice([b'\xff', b'\x84\xff\xff\xff\xff', b'\x04\xff\xff\xff\xff', b'\x80', b'\xc4', b'\x7f', b'\x00'])
            out.append(('length-tamper', bytes(c)))
    # splice two halves, random string
    if len(data) > 2:
        out.append(('splice', data[:len(data) // 2] + data[rng.randrange(len(data)):]))
    out.append(('random', bytes(rng.getrandbits(8) for _ in range(rng.choice([0, 1, 2, 5, 17, 100, 1000, 4096])))))
    return [(k, a[:4096]) for k, a in out]


# ---------------------------------------------------------------------------------------------------------------------
# recursive types (outside the Lean universe): nesting is where "work proportional to the input" can fail — a decoder that
# re-reads bits it has already consumed, or that trusts an inner length more than the outer one, multiplies work per level

RECURSIVE = [
    ('Node', 'M DEFINITIONS AUTOMATIC TAGS ::= BEGIN Node ::= SEQUENCE { leaf BOOLEAN, ..., kids SEQUENCE OF Node } END'),
    ('Tree', 'M DEFINITIONS AUTOMATIC TAGS ::= BEGIN Tree ::= SEQUENCE { v INTEGER (0..255), next Tree OPTIONAL } END'),
    ('Ch', 'M DEFINITIONS AUTOMATIC TAGS ::= BEGIN Ch ::= CHOICE { leaf BOOLEAN, pair SEQUENCE { l Ch, r Ch }, ..., more SEQUENCE (SIZE(0..4)) OF Ch } END'),
    ('Grp', 'M DEFINITIONS AUTOMATIC TAGS ::= BEGIN Grp ::= SEQUENCE { a BOOLEAN, ..., [[ b Grp OPTIONAL, c INTEGER (0..7) OPTIONAL ]], d SEQUENCE OF Grp OPTIONAL } END'),
    ('Lst', 'M DEFINITIONS AUTOMATIC TAGS ::= BEGIN Lst ::= SEQUENCE OF Item Item ::= CHOICE { n INTEGER (0..65535), sub Lst, ..., s OCTET STRING } END'),
    ('Doc', 'M DEFINITIONS AUTOMATIC TAGS ::= BEGIN Doc ::= SEQUENCE { title UTF8String, code IA5String (SIZE(0..8)) OPTIONAL, parts SEQUENCE OF Doc } END'),
]


def rec_value(name, rng, depth):
    if name == 'Node':
        v = {'leaf': rng.random() < 0.5}
        if depth > 0 and rng.random() < 0.9:
            v['kids'] = [rec_value(name, rng, depth - 1) for _ in range(rng.choice([1, 1, 1, 2, 3]))]
        return v
    if name == 'Tree':
        v = {'v': rng.randrange(256)}
        if depth > 0:
            v['next'] = rec_value(name, rng, depth - 1)
        return v
    if name == 'Ch':
        if depth <= 0:
            return ('leaf', rng.random() < 0.5)
        x = rng.random()
        if x < 0.5:
            return ('pair', {'l': rec_value(name, rng, depth - 1), 'r': rec_value(name, rng, depth - 3)})
        if x < 0.9:
            return ('more', [rec_value(name, rng, depth - 1) for _ in range(rng.randint(0, 2))])
        return ('leaf', True)
    if name == 'Grp':
        v = {'a': rng.random() < 0.5}
        if depth > 0:
            if rng.random() < 0.8:
                v['b'] = rec_value(name, rng, depth - 1)
            if rng.random() < 0.5:
                v['c'] = rng.randrange(8)
            if rng.random() < 0.3:
                v['d'] = [rec_value(name, rng, depth - 2) for _ in range(rng.randint(0, 2))]
        return v
    if name == 'Doc':
        v = {'title': rng.choice(['', 'a', 'caf\u00e9', '\u6f22\u5b57', 'x' * rng.randint(0, 20)]),
             'parts': [rec_value(name, rng, depth - 1) for _ in range(rng.choice([0, 1, 1, 2]) if depth > 0 else 0)]}
        if rng.random() < 0.5:
            v['code'] = rng.choice(['', 'A1', 'zz9'])
        return v
    if name == 'Lst':
        out = []
        for _ in range(rng.randint(1, 3)):
            x = rng.random()
            if depth > 0 and x < 0.6:
                out.append(('sub', rec_value(name, rng, depth - 1)))
            elif x < 0.85:
                out.append(('n', rng.randrange(65536)))
            else:
                out.append(('s', bytes(rng.randrange(256) for _ in range(rng.randint(0, 3)))))
        return out
    raise ValueError(name)


def count_scalars(v):
    if isinstance(v, dict):
        return sum(count_scalars(x) for x in v.values()) + 1
    if isinstance(v, list):
        return sum(count_scalars(x) for x in v) + 1
    if isinstance(v, tuple) and len(v) == 2 and isinstance(v[0], str):
        return count_scalars(v[1]) + 1
    return 1


def structural_mutations(rng, data):
    """edits aimed at nested length fields: every occurrence of one byte value changed at once, and a window repeated"""
    out = []
    if not data:
        return out
    freq = {}
    for b in data:
        freq[b] = freq.get(b, 0) + 1
    common = sorted(freq, key=lambda b: -freq[b])[:6]
    for _ in range(4):
        a = rng.choice(common)
        nb = rng.choice([max(a - 1, 0), max(a - 2, 0), 0, 1, (a + 1) & 0xff, a >> 1])
        out.append(('substitute-all', bytes(nb if x == a else x for x in data)))
    for _ in range(3):
        k = rng.choice([2, 3, 4, 4, 5, 8])
        i = rng.randrange(max(1, len(data) - k))
        r = rng.choice([4, 16, 40, 60])
        out.append(('repeat-window', (data[:i] + data[i:i + k] * r + data[i + k:])[:4096]))
    for _ in range(2):
        k = rng.choice([3, 4, 4, 5])
        i = rng.randrange(max(1, len(data) - k))
        w = bytearray(data[i:i + k])
        if w:
            j = rng.randrange(len(w))
            w2 = bytearray(w)
            w2[j] = max(w2[j] - rng.choice([1, 2]), 0)
            out.append(('repeat-window-decremented', (data[:i] + bytes(w2) * rng.choice([10, 30, 60]) + bytes(w) * 2 + data[i + k:])[:4096]))
    return out


def work_rec(job):
    soft0, hard0 = resource.getrlimit(resource.RLIMIT_AS)
    resource.setrlimit(resource.RLIMIT_AS, (MEM_LIMIT, hard0))
    part = core.Part()
    for (seed, name, text) in job:
        rng = random.Random(seed)
        vals = [rec_value(name, rng, rng.choice([2, 4, 6, 9, 14, 20])) for _ in range(3)]
        for codec in CODECS:
            st, spec = impl.compile_text(text, codec)
            if st != 'ok':
                part.count('recursive.compile.' + st)
                continue
            sent = None
            for v in vals:
                if sent is None and False:
                    pass
                r = impl.encode(spec, name, v)
                if r[0] != 'ok':
                    continue
                data = r[1]
                if len(data) > 4096:
                    continue                                  # the time limit is calibrated for inputs of at most 4 KiB
                if sent is None:
                    sent = (data, impl.decode(spec, name, data))
                node = None
                alts = mutations(rng, data, node) + [(k_, a_[:4096]) for k_, a_ in structural_mutations(rng, data)]
                # single-octet corruptions at every position of short messages (string contents, lengths, tags)
                if sent[0] is data:
                    alts += [('octet-corruption', data[:i] + bytes([b]) + data[i + 1:]) for i in range(min(len(data), 24)) for b in (0xff, 0x80)]
                for kind, alt in alts:
                    part.case((text, codec, alt))
                    try:
                        d = impl.decode(spec, name, alt, limit=TIME_LIMIT)
                    except MemoryError:
                        d = ('err', 'MemoryError', '')
                    part.count('recursive.%s.%s' % (codec, 'value' if d[0] == 'ok' else d[1].split(':')[-1]))
                    part.count('mutation.' + kind.split('+')[0])
                    if d[0] == 'err' and (d[1] == 'Timeout' or d[1].endswith('MemoryError')):
                        part.violation('%s: decoding %d octets of malformed input %s' % (codec, len(alt), 'did not finish within %.0f s of CPU time' % TIME_LIMIT if d[1] == 'Timeout' else 'exhausted memory (%s)' % d[1]),
                                       {'codec': codec, 'module': text, 'type': name, 'input': alt.hex() if codec not in ('jer', 'xer') else alt.decode('utf-8', 'replace'), 'mutation': kind})
                        continue
                    # sentinel: the compiled specification is in the same state as before (a valid encoding still decodes the same)
                    s2 = impl.decode(spec, name, sent[0])
                    if repr(s2) != repr(sent[1]):
                        part.violation('%s: after malformed inputs a valid encoding of a recursive type decodes differently (state left in the compiled specification)' % codec,
                                       {'codec': codec, 'module': text, 'type': name, 'last_malformed_input': alt.hex() if codec not in ('jer', 'xer') else alt.decode('utf-8', 'replace'),
                                        'sentinel': sent[0].hex() if codec not in ('jer', 'xer') else repr(sent[0])[:200], 'before': repr(sent[1])[:300], 'after': repr(s2)[:300]})
                        sent = (sent[0], s2)
                    if d[0] == 'ok':
                        n = count_scalars(d[1])
                        if n > 8 * len(alt) + 16:
                            part.violation('%s: %d octets of input decode to a value with %d components — more than one per input bit: the decoder reads input more than once' % (codec, len(alt), n),
                                           {'codec': codec, 'module': text, 'type': name, 'input': alt.hex() if codec not in ('jer', 'xer') else alt.decode('utf-8', 'replace'), 'mutation': kind, 'components': n})
    resource.setrlimit(resource.RLIMIT_AS, (soft0, hard0))
    return part


def work(job):
    soft0, hard0 = resource.getrlimit(resource.RLIMIT_AS)
    resource.setrlimit(resource.RLIMIT_AS, (MEM_LIMIT, hard0))
    part = core.Part()
    reqs, meta = [], []
    for (seed, t, text, vals) in job:
        rng = random.Random(seed)
        modelled = is_modelled(t)
        for codec in CODECS:
            st, spec = impl.compile_text(text, codec)
            if st != 'ok':
                continue
            enc = [impl.encode(spec, 'A', v) for v in vals]
            enc = [(v, r[1]) for v, r in zip(vals, enc) if r[0] == 'ok']
            if not enc:
                continue
            sent_v, sent_b = enc[0]
            sent_d = impl.decode(spec, 'A', sent_b)
            for v, data in enc:
                node = None
                if codec in ('ber', 'der'):
                    try:
                        node, _ = tlv.parse(data)
                    except Exception:
                        node = None
                for kind, alt in mutations(rng, data, node):
                    part.case((text, codec, alt))
                    try:
                        d = impl.decode(spec, 'A', alt, limit=TIME_LIMIT)
                    except MemoryError:
                        d = ('err', 'MemoryError', '')
                    cls = 'value' if d[0] == 'ok' else d[1].split(':')[-1] if d[1].startswith('Foreign') else d[1]
                    part.count('%s.%s' % (codec, 'value' if d[0] == 'ok' else ('DecodeError' if d[1] == 'DecodeError' else 'other-exception' if d[1] not in ('Timeout', 'MemoryError') and not d[1].endswith('MemoryError') else d[1])))
                    part.count('mutation.' + kind.split('+')[0])
                    if d[0] == 'err' and (d[1] == 'Timeout' or d[1].endswith('MemoryError') or d[1].endswith('RecursionError')):
                        if codec == 'oer' and has_zero_width_list(t):
                            part.known_finding('C08-oer-quantity-unbounded', 'oer SEQUENCE OF a zero-width element iterates as often as the quantity field says (up to 2^32 from 5 octets)')
                        else:
                            part.violation('%s: decoding %d octets of malformed input %s' % (codec, len(alt), 'did not finish within %.0f s' % TIME_LIMIT if d[1] == 'Timeout' else 'exhausted memory / recursion (%s)' % d[1]),
                                           {'codec': codec, 'module': text, 'input': alt.hex() if codec not in ('jer', 'xer') else alt.decode('utf-8', 'replace'), 'mutation': kind, 'derived_from_value': repr(v)[:500]})
                        continue
                    # sentinel: a valid encoding still decodes the same
                    s2 = impl.decode(spec, 'A', sent_b)
                    if repr(s2) != repr(sent_d):
                        part.violation('%s: after a malformed input a valid encoding decodes differently' % codec,
                                       {'codec': codec, 'module': text, 'malformed': alt.hex(), 'sentinel': sent_b.hex(), 'before': repr(sent_d)[:300], 'after': repr(s2)[:300]})
                    if modelled and codec in MODELLED and len(alt) <= 1500 and not (codec == 'oer' and has_zero_width_list(t)):   # (the model iterates like the code: recorded finding)
                        reqs.append('dec\t%s\t%s\t%s' % (codec, ty_sx(t), alt.hex() or '-'))
                        meta.append((t, text, codec, alt, d))
    resource.setrlimit(resource.RLIMIT_AS, (soft0, hard0))     # the Lean driver needs its own address space
    if reqs:
        model = core.Model()
        ans = model.batch(reqs, timeout=1200)
        part.count('model_driver_requests', len(reqs))
        for (t, text, codec, alt, d), a in zip(meta, ans):
            if a.endswith('unmodelled'):
                part.count(codec + '.model.unmodelled')
                continue
            mine = impl_answer_dec(t, d)
            both_simple = (mine.startswith('ok') or mine == 'err DecodeError') and (a.startswith('ok') or a == 'err DecodeError')
            if both_simple and mine != a:
                part.disagreement('corr.%s.decode_malformed' % codec, {'module': text, 'input': alt.hex()[:300], 'impl': mine[:200], 'model': a[:200]})
            elif mine == a:
                part.sample({'codec': codec, 'module': text, 'input': alt.hex()[:100], 'impl': mine[:100], 'model': 'same'}, limit=2)
    return part


def run(ctx):
    rng = ctx.rng
    ctx.assumptions += ['wall-clock time and resident memory of CPython are observed, not modelled: the limit is %.0f s / %d GiB for inputs of at most 4 KiB' % (TIME_LIMIT, MEM_LIMIT >> 30),
                        'the Lean model decoders are total functions; their data-driven loops carry fuel = input length + 2']
    ctx.extra['rule'] = ('generated modules x 2 values x 7 decoding codecs x ~11 mutations each (TLV-structural edits for ber/der, bit flips, truncation, insert/delete, splice, length tampering, random strings <= 4 KiB); '
                         'distinct = distinct (module, codec, input)')
    opts = Opts(max_depth=3, allow_exotic=0.0, big_lengths=0.0)
    jobs = []
    for i in range(ctx.n(110, 2500)):
        g = Gen(rng, opts)
        t = g.type()
        jobs.append((rng.getrandbits(32), t, module_text([('A', t)]), [g.value(t) for _ in range(2)]))
    n = 28
    parts = core.parallel_map(work, [jobs[k::n] for k in range(n)])
    core.merge(ctx, parts)
    ctx.model.calls += ctx.hist.pop('model_driver_requests', 0)
    rjobs = [(rng.getrandbits(32), nm, tx) for _ in range(ctx.n(8, 120)) for nm, tx in RECURSIVE]
    parts = core.parallel_map(work_rec, [rjobs[k::n] for k in range(n)])
    core.merge(ctx, parts)
    # regression vector of a repaired defect (fix ace6523): a CHOICE extension addition longer than its open type length
    rt = RECURSIVE[2][1]
    for codec in ('per', 'uper'):
        st, spec = impl.compile_text(rt, codec)
        d = impl.decode(spec, 'Ch', bytes.fromhex('80004400'))
        ctx.case(('regression', 'choice-addition-longer-than-open-type', codec))
        if d[0] == 'ok':
            ctx.violation('%s: a CHOICE extension addition longer than its open type length is accepted (the read position moves backwards; nested, the input is decoded many times over)' % codec,
                          {'codec': codec, 'module': rt, 'type': 'Ch', 'input': '80004400', 'decoded': repr(d[1])})
    # witness of the recorded finding (cheap form: quantity 2^24 would already take seconds; use the class only)
    w = 'M DEFINITIONS AUTOMATIC TAGS ::= BEGIN A ::= SEQUENCE OF NULL END'
    st, spec = impl.compile_text(w, 'oer')
    d = impl.decode(spec, 'A', bytes.fromhex('0300ffff'), limit=20)
    if d[0] == 'ok' and len(d[1]) == 65535:
        ctx.known_finding('C08-oer-quantity-unbounded', 'witness SEQUENCE OF NULL: 4 octets 03 00 ff ff yield a list of 65535 elements (04 ff ff ff ff: 2^32-1 iterations)')
    else:
        ctx.notes.append('finding C08-oer-quantity-unbounded: witness now gives %r' % (d[:2],))


def replay(ctx, path):
    import json
    d = json.load(open(path))['replay']
    print(json.dumps(d, indent=1)[:3000])
    if isinstance(d, dict) and 'input' in d and d.get('codec') not in ('jer', 'xer'):
        st, spec = impl.compile_text(d['module'], d['codec'])
        print('impl now:', impl.decode(spec, 'A', bytes.fromhex(d['input']), limit=TIME_LIMIT)[:2])
