"""C08 — decoding arbitrary bytes terminates within bounded time and memory.

Stage K: for generated modules and every decoding codec, byte strings obtained by mutating valid encodings (bit
flips, truncation, insertion, deletion, splicing, length-field and tag tampering, structural edits through the TLV
library) and uniformly random strings up to 4 KiB are decoded in worker processes under an address-space limit and a
per-call time limit that is generous for work proportional to the input.  A timeout or MemoryError is a violation
(unless it is the recorded finding); after every malformed input a sentinel valid encoding must still decode to the
same value.  For the five modelled codecs the outcome class (value / DecodeError) is compared with the total Lean
model decoder, whose data-driven loops carry fuel = input length + 2 and must never run out of it."""
import random
import resource

from .. import core, impl, tlv
from ..codecs import MODELLED, py_equal, impl_answer_dec
from ..gen import Gen, Opts, module_text, ty_sx, val_sx, is_modelled

CODECS = ['ber', 'der', 'per', 'uper', 'oer', 'jer', 'xer']
TIME_LIMIT = 4.0        # seconds per decode of <= 4 KiB (a linear-time decoder needs milliseconds)
MEM_LIMIT = 3 << 30


def zero_width(t):
    """can an element of this type be encoded in zero octets by OER (the recorded finding needs that)"""
    k = t['k']
    if k == 'null':
        return True
    if k == 'seq':
        return all(zero_width(m['t']) for m in t['root']) and not any(m['opt'] or m['default'] is not None for m in t['root']) and t['ext'] is None
    if k in ('octs', 'str') and t['size'] and not t['size'][2] and t['size'][0] == 0 and t['size'][1] == 0:
        return True
    return False


def has_zero_width_list(t):
    k = t['k']
    if k in ('seqof', 'setof'):
        return zero_width(t['elem']) or has_zero_width_list(t['elem'])
    if k in ('seq', 'set'):
        return any(has_zero_width_list(m['t']) for m in t['root'] + (t['ext'] or []))
    if k == 'choice':
        return any(has_zero_width_list(a) for _, a in t['root'] + (t['ext'] or []))
    return False


def mutations(rng, data, node):
    out = []
    for _ in range(6):
        try:
            alt, kind = tlv.mutate(data, node, rng)
        except Exception:
            continue
        out.append((kind, alt))
    # length / count field tampering at arbitrary positions
    b = bytearray(data)
    for _ in range(3):
        if b:
            i = rng.randrange(len(b))
            c = bytearray(b)
            c[i:i + 1] = rng.choice([b'\xff', b'\x84\xff\xff\xff\xff', b'\x04\xff\xff\xff\xff', b'\x80', b'\xc4', b'\x7f', b'\x00'])
            out.append(('length-tamper', bytes(c)))
    # splice two halves, random string
    if len(data) > 2:
        out.append(('splice', data[:len(data) // 2] + data[rng.randrange(len(data)):]))
    out.append(('random', bytes(rng.getrandbits(8) for _ in range(rng.choice([0, 1, 2, 5, 17, 100, 1000, 4096])))))
    return [(k, a[:4096]) for k, a in out]


def work(job):
    soft0, hard0 = resource.getrlimit(resource.RLIMIT_AS)
    resource.setrlimit(resource.RLIMIT_AS, (MEM_LIMIT, hard0))
    part = core.Part()
    reqs, meta = [], []
    for (seed, t, text, vals) in job:
        rng = random.Random(seed)
        modelled = is_modelled(t)
        for codec in CODECS:
            st, spec = impl.compile_text(text, codec)
            if st != 'ok':
                continue
            enc = [impl.encode(spec, 'A', v) for v in vals]
            enc = [(v, r[1]) for v, r in zip(vals, enc) if r[0] == 'ok']
            if not enc:
                continue
            sent_v, sent_b = enc[0]
            sent_d = impl.decode(spec, 'A', sent_b)
            for v, data in enc:
                node = None
                if codec in ('ber', 'der'):
                    try:
                        node, _ = tlv.parse(data)
                    except Exception:
                        node = None
                for kind, alt in mutations(rng, data, node):
                    part.case((text, codec, alt))
                    try:
                        d = impl.decode(spec, 'A', alt, limit=TIME_LIMIT)
                    except MemoryError:
                        d = ('err', 'MemoryError', '')
                    cls = 'value' if d[0] == 'ok' else d[1].split(':')[-1] if d[1].startswith('Foreign') else d[1]
                    part.count('%s.%s' % (codec, 'value' if d[0] == 'ok' else ('DecodeError' if d[1] == 'DecodeError' else 'other-exception' if d[1] not in ('Timeout', 'MemoryError') and not d[1].endswith('MemoryError') else d[1])))
                    part.count('mutation.' + kind.split('+')[0])
                    if d[0] == 'err' and (d[1] == 'Timeout' or d[1].endswith('MemoryError') or d[1].endswith('RecursionError')):
                        if codec == 'oer' and has_zero_width_list(t):
                            part.known_finding('C08-oer-quantity-unbounded', 'oer SEQUENCE OF a zero-width element iterates as often as the quantity field says (up to 2^32 from 5 octets)')
                        else:
                            part.violation('%s: decoding %d octets of malformed input %s' % (codec, len(alt), 'did not finish within %.0f s' % TIME_LIMIT if d[1] == 'Timeout' else 'exhausted memory / recursion (%s)' % d[1]),
                                           {'codec': codec, 'module': text, 'input': alt.hex() if codec not in ('jer', 'xer') else alt.decode('utf-8', 'replace'), 'mutation': kind, 'derived_from_value': repr(v)[:500]})
                        continue
                    # sentinel: a valid encoding still decodes the same
                    s2 = impl.decode(spec, 'A', sent_b)
                    if repr(s2) != repr(sent_d):
                        part.violation('%s: after a malformed input a valid encoding decodes differently' % codec,
                                       {'codec': codec, 'module': text, 'malformed': alt.hex(), 'sentinel': sent_b.hex(), 'before': repr(sent_d)[:300], 'after': repr(s2)[:300]})
                    if modelled and codec in MODELLED and len(alt) <= 1500:
                        reqs.append('dec\t%s\t%s\t%s' % (codec, ty_sx(t), alt.hex() or '-'))
                        meta.append((t, text, codec, alt, d))
    resource.setrlimit(resource.RLIMIT_AS, (soft0, hard0))     # the Lean driver needs its own address space
    if reqs:
        model = core.Model()
        ans = model.batch(reqs, timeout=1200)
        part.count('model_driver_requests', len(reqs))
        for (t, text, codec, alt, d), a in zip(meta, ans):
            if a.endswith('unmodelled'):
                part.count(codec + '.model.unmodelled')
                continue
            mine = impl_answer_dec(t, d)
            both_simple = (mine.startswith('ok') or mine == 'err DecodeError') and (a.startswith('ok') or a == 'err DecodeError')
            if both_simple and mine != a:
                part.disagreement('corr.%s.decode_malformed' % codec, {'module': text, 'input': alt.hex()[:300], 'impl': mine[:200], 'model': a[:200]})
            elif mine == a:
                part.sample({'codec': codec, 'module': text, 'input': alt.hex()[:100], 'impl': mine[:100], 'model': 'same'}, limit=2)
    return part


def run(ctx):
    rng = ctx.rng
    ctx.assumptions += ['wall-clock time and resident memory of CPython are observed, not modelled: the limit is %.0f s / %d GiB for inputs of at most 4 KiB' % (TIME_LIMIT, MEM_LIMIT >> 30),
                        'the Lean model decoders are total functions; their data-driven loops carry fuel = input length + 2']
    ctx.extra['rule'] = ('generated modules x 2 values x 7 decoding codecs x ~11 mutations each (TLV-structural edits for ber/der, bit flips, truncation, insert/delete, splice, length tampering, random strings <= 4 KiB); '
                         'distinct = distinct (module, codec, input)')
    opts = Opts(max_depth=3, allow_exotic=0.0, big_lengths=0.0)
    jobs = []
    for i in range(ctx.n(110, 2500)):
        g = Gen(rng, opts)
        t = g.type()
        jobs.append((rng.getrandbits(32), t, module_text([('A', t)]), [g.value(t) for _ in range(2)]))
    n = 28
    parts = core.parallel_map(work, [jobs[k::n] for k in range(n)])
    core.merge(ctx, parts)
    ctx.model.calls += ctx.hist.pop('model_driver_requests', 0)
    # witness of the recorded finding (cheap form: quantity 2^24 would already take seconds; use the class only)
    w = 'M DEFINITIONS AUTOMATIC TAGS ::= BEGIN A ::= SEQUENCE OF NULL END'
    st, spec = impl.compile_text(w, 'oer')
    d = impl.decode(spec, 'A', bytes.fromhex('0300ffff'), limit=20)
    if d[0] == 'ok' and len(d[1]) == 65535:
        ctx.known_finding('C08-oer-quantity-unbounded', 'witness SEQUENCE OF NULL: 4 octets 03 00 ff ff yield a list of 65535 elements (04 ff ff ff ff: 2^32-1 iterations)')
    else:
        ctx.notes.append('finding C08-oer-quantity-unbounded: witness now gives %r' % (d[:2],))


def replay(ctx, path):
    import json
    d = json.load(open(path))['replay']
    print(json.dumps(d, indent=1)[:3000])
    if isinstance(d, dict) and 'input' in d and d.get('codec') not in ('jer', 'xer'):
        st, spec = impl.compile_text(d['module'], d['codec'])
        print('impl now:', impl.decode(spec, 'A', bytes.fromhex(d['input']), limit=TIME_LIMIT)[:2])
