"""C16 — a truncated encoding is reported as a decode error, never as a value.

Stage K: for generated (module, value) and codec in ber/der/per/uper/oer, every strict byte prefix of the
encoder's output (all cut points for short encodings, header-dense sampling for long ones) is given to the
decoder: it must raise asn1tools.DecodeError — not return a value, not raise a foreign exception.
For uper/oer the Lean model decoder is run on the same prefixes and must give the same class."""
from .. import core, impl
from ..codecs import MODELLED, value_tags, py_equal
from ..gen import Gen, Opts, module_text, ty_sx, val_sx, features

CODECS = ['ber', 'der', 'per', 'uper', 'oer']


def cuts(rng, n, quick):
    if n <= 48:
        return list(range(n))
    ks = set(range(0, 24)) | set(range(n - 12, n))
    ks |= {rng.randrange(0, n) for _ in range(12 if quick else 60)}
    return sorted(k for k in ks if 0 <= k < n)


def run(ctx):
    rng = ctx.rng
    ctx.assumptions += ['uper/oer: the Lean model decoder must agree on the error class of every prefix; ber/der/per: direct evaluation only']
    ctx.extra['rule'] = ('generated modules x 3 values x 5 codecs; every strict byte prefix when the encoding has <= 48 octets, otherwise the first 24, last 12 and random cut points; '
                         'distinct = distinct (type, encoding, cut) triples')
    opts = Opts(max_depth=3, big_lengths=0.01)
    reqs, meta = [], []
    feat = {}
    for i in range(ctx.n(260, 6000)):
        g = Gen(rng, opts)
        t = g.type()
        features(t, feat)
        text = module_text([('A', t)])
        vals = [g.value(t) for _ in range(3)]
        for codec in CODECS:
            st, spec = impl.compile_text(text, codec)
            if st != 'ok':
                continue
            for v in vals:
                r = impl.encode(spec, 'A', v)
                if r[0] != 'ok':
                    continue
                data = r[1]
                # only encodings that decode are "valid encodings" in the sense of the property
                d0 = impl.decode(spec, 'A', data)
                if d0[0] != 'ok' or not py_equal(t, d0[1], v):
                    ctx.count(codec + '.skipped_not_round_tripping')     # not a valid encoding (C01's business)
                    continue
                for k in cuts(rng, len(data), ctx.quick()):
                    d = impl.decode(spec, 'A', data[:k])
                    ctx.case((text, data, k, codec))
                    cls = 'value' if d[0] == 'ok' else d[1]
                    ctx.count('%s.%s' % (codec, cls.split(':')[0]))
                    if cls != 'DecodeError':
                        tags = value_tags(t, v, codec)
                        ctx.violation('%s: a strict prefix (%d of %d octets) is %s' % (
                            codec, k, len(data), 'decoded to a value' if cls == 'value' else 'surfaced as ' + cls),
                            {'codec': codec, 'module': text, 'value': repr(v), 'encoded': data.hex(), 'cut': k,
                             'result': repr(d[1:])[:300], 'tags': sorted(tags)})
                    if codec in MODELLED:
                        reqs.append('dec\t%s\t%s\t%s' % (codec, ty_sx(t), data[:k].hex() or '-'))
                        meta.append((codec, text, data, k, cls))
                    elif len(ctx.samples) < 2 and k == len(data) - 1 and len(data) > 3:
                        ctx.sample({'codec': codec, 'module': text, 'encoded': data.hex()[:80], 'cut': k, 'impl': cls})
    ctx.hist.update({'type.' + k: v for k, v in feat.items()})
    answers = ctx.model.batch(reqs)
    for (codec, text, data, k, cls), a in zip(meta, answers):
        mcls = 'value' if a.startswith('ok') else a.split(' ', 1)[1]
        if mcls == 'unmodelled':
            ctx.count(codec + '.model.unmodelled')
            continue
        icls = 'Foreign' if cls.startswith('Foreign') else cls
        if mcls != icls and cls == 'DecodeError':
            ctx.disagreement('corr.%s.decode_prefix' % codec, {'module': text, 'encoded': data.hex()[:200], 'cut': k, 'impl': cls, 'model': a[:100]})
        elif len(ctx.samples) < 5 and k == len(data) - 1 and len(data) > 3:
            ctx.sample({'codec': codec, 'module': text, 'encoded': data.hex()[:80], 'cut': k, 'impl': cls, 'model': a[:40]})
    # explicitly tagged types (high tag numbers, untagged CHOICE at the top): prefixes for ber / der
    from .. import tagged as _tagged
    from ..gen import Gen as _Gen, Opts as _Opts, module_text as _module_text
    _tagged.run_c16(ctx, ctx.rng, ctx.n(60, 800), impl, ['ber', 'der'], _Gen, _Opts, _module_text)
    from .. import scripted as _scripted
    _scripted.per_small_alphabet_prefixes(ctx)
    # "a valid encoding" is not only the encoder's output: the other BER forms of a message (indefinite lengths, segmented strings, padded
    # lengths), read by the same version and by an OLDER version of the type (unknown additions inside).  Whenever the receiver accepts the
    # whole form, every strict prefix of it must be the decode error.
    from .. import tlv
    from ..extend import extend
    rng = ctx.rng
    for i in range(ctx.n(70, 900)):
        g = _Gen(rng, _Opts(max_depth=2, allow_exotic=0.0, big_lengths=0.0))
        t1 = g.type()
        t2, nsteps = extend(g, t1, rng.randint(1, 3))
        text1, text2 = _module_text([('A', t1)]), _module_text([('A', t2)])
        c1, c2 = impl.compile_text(text1, 'ber'), impl.compile_text(text2, 'ber')
        if c1[0] != 'ok' or c2[0] != 'ok':
            continue
        for _ in range(2):
            v2 = g.value(t2)
            r = impl.encode(c2[1], 'A', v2)
            if r[0] != 'ok':
                continue
            try:
                node, _e = tlv.parse(r[1])
            except Exception:
                continue
            for forms in (tlv.Forms(indef=1.0), tlv.Forms(indef=0.6, seg=0.4, nest=0.2), tlv.Forms(pad=0.3, indef=0.4, seg=0.5, nest=0.2)):
                try:
                    alt = tlv.reser(t2, node, True, rng, forms)
                except Exception:
                    ctx.count('forms.reser-failed')
                    continue
                for who, rcv, rtext in (('same version', c2[1], text2), ('older version', c1[1], text1)):
                    if who == 'older version' and nsteps == 0:
                        continue
                    full = impl.decode(rcv, 'A', alt)
                    ctx.count('forms.%s.full.%s' % (who.split(' ')[0], 'value' if full[0] == 'ok' else full[1].split(':')[0]))
                    if full[0] != 'ok':
                        continue            # acceptance of every form is C04's / C07's business
                    for k in cuts(rng, len(alt), ctx.tier == 'quick'):
                        d = impl.decode(rcv, 'A', alt[:k])
                        ctx.case(('forms', rtext, alt.hex(), k))
                        if d[0] == 'ok' or d[1] != 'DecodeError':
                            ctx.violation('ber: a strict prefix (%d of %d octets) of a valid BER form of a message (read by the %s of the type) %s'
                                          % (k, len(alt), who, 'decodes to a value' if d[0] == 'ok' else 'raises %s' % d[1]),
                                          {'codec': 'ber', 'module': rtext, 'sender_module': text2, 'value': repr(v2)[:400], 'encoded': alt.hex(), 'prefix_length': k,
                                           'whole_decodes_to': repr(full[1])[:300], 'result': repr(d[1:])[:300]})
                            break


def replay(ctx, path):
    import json
    d = json.load(open(path))['replay']
    print(json.dumps(d, indent=1)[:2500])
    if isinstance(d, dict) and 'encoded' in d and 'cut' in d:
        st, spec = impl.compile_text(d['module'], d['codec'])
        r = impl.decode(spec, 'A', bytes.fromhex(d['encoded'])[:d['cut']])
        print('impl now:', r)
        ctx.case(('replay',))
        if not (r[0] == 'err' and r[1] == 'DecodeError'):
            ctx.violation('replayed prefix is still not a DecodeError', d)
