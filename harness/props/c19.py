"""C19 — encodings do not depend on how the specification text is organised.

Stage K: one generated AST (two top-level types) is rendered in several meaning-preserving arrangements — plain/inline,
reorganised with hoisted (shared) type references, value-reference bounds and permuted assignments (several random
choices), split into two modules with IMPORTS in both module orders — and compiled by the real compiler for all 8
codecs.  For every value the encodings (or error classes) and the decoded values must be identical across arrangements;
for the five modelled codecs arrangement 0 is also compared with the Lean model, so all arrangements are.

Theorem (lean/Asn1Proofs/Properties/C19.lean): `run_permutation` — the dictionary rewrite `Preprocess.run` commutes with
every reordering of the type assignments of a module (no COMPONENTS OF in that module), for ALL dictionaries;
`module_order_matters` is the closed witness of the recorded module-order defect.  The model of the rewrite is tied
to Compiler.pre_process by exact dictionary equality on every arrangement text (driver op prep), and the
permutation instance is evaluated on the implementation as well."""
from .. import core, impl
from ..codecs import MODELLED, py_equal, impl_answer_enc
from ..gen import Gen, Opts, module_text, ty_sx, val_sx, is_modelled, RefCtx, variant

CODECS = ['ber', 'der', 'per', 'uper', 'oer', 'jer', 'xer', 'gser']


def work(job):
    part = core.Part()
    for (types, groups, vals) in ((ty, g, va) for (ty, gs, va) in job for g in gs):
        arrangements = groups
        for codec in CODECS:
            specs = []
            for label, text, risky in arrangements:
                st, spec = impl.compile_text(text, codec)
                specs.append((label, text, risky, st, spec))
            base = specs[0]
            if base[3] != 'ok':
                part.count('compile.' + base[3])
                continue
            for (tname, t), tvals in zip(types, vals):
                for v in tvals:
                    r0 = impl.encode(base[4], tname, v)
                    a0 = impl_answer_enc(r0) if codec not in ('jer', 'xer', 'gser') else (r0[0], r0[1] if r0[0] == 'ok' else r0[1])
                    for label, text, risky, st, spec in specs[1:]:
                        part.case((text, tname, repr(v), codec))
                        if st != 'ok':
                            part.violation('%s: arrangement %s does not compile (%s) while the inline arrangement does' % (codec, label, st),
                                           {'codec': codec, 'inline': base[1], 'arrangement': text, 'error': str(spec)[:300]})
                            continue
                        r = impl.encode(spec, tname, v)
                        a = impl_answer_enc(r) if codec not in ('jer', 'xer', 'gser') else (r[0], r[1] if r[0] == 'ok' else r[1])
                        part.count('%s.%s' % (label, 'same' if a == a0 else 'different'))
                        bad = None
                        if codec == 'xer' and r[0] == 'ok' and r0[0] == 'ok':
                            # X.693 names list elements after the referenced type, so XER text legitimately differs
                            # between a reference and its inline copy: compare the decoded values only
                            d0 = impl.decode(base[4], tname, r0[1])
                            d1 = impl.decode(spec, tname, r[1])
                            if d0[0] != d1[0] or (d0[0] == 'ok' and not py_equal(t, d0[1], d1[1])) or (d0[0] != 'ok' and d0[1] != d1[1]):
                                bad = 'decodes its own output differently'
                        elif a != a0:
                            bad = 'encodes differently'
                        elif r[0] == 'ok' and codec not in ('gser', 'xer'):
                            d0 = impl.decode(base[4], tname, r0[1])
                            d1 = impl.decode(spec, tname, r[1])
                            if d0[0] != d1[0] or (d0[0] == 'ok' and not py_equal(t, d0[1], d1[1])) or (d0[0] != 'ok' and d0[1] != d1[1]):
                                bad = 'decodes differently'
                        if bad:
                            if risky:
                                part.known_finding('C19-constraint-on-reference-ignored', 'a SIZE constraint applied to a type reference (T (SIZE(..))) is ignored by some codecs, so inlining the reference changes the encoding')
                            else:
                                part.violation('%s: the %s arrangement %s than the inline one' % (codec, label, bad),
                                               {'codec': codec, 'type': tname, 'value': repr(v), 'inline': base[1], 'arrangement': text,
                                                'inline_result': repr(a0)[:300], 'arrangement_result': repr(a)[:300]})
                        else:
                            part.sample({'codec': codec, 'arrangement': label, 'text': text[:400], 'type': tname, 'value': repr(v)[:120], 'same_as_inline': True}, limit=2)
    return part


def work_prep(job):
    """dictionary-level tie on the arrangement texts + the permutation theorem instance on the implementation"""
    import copy
    import random
    import asn1tools
    from asn1tools.codecs import compiler as _compiler
    from .. import prep
    part = core.Part()
    model = core.Model()
    lines, index = [], []
    for seed, text in job:
        rng = random.Random(seed)
        try:
            d = asn1tools.parse_string(text)
            s0 = prep.s_spec(d)
        except Exception as e:
            part.count('prep.skip.' + type(e).__name__)
            continue
        for numeric in (False, True):
            c = copy.deepcopy(d)
            try:
                _compiler.Compiler(c, numeric).pre_process()
            except Exception as e:
                part.count('prep.raises.' + type(e).__name__)
                continue
            lines.append('prep\t%s\t%s' % (prep.s_bool(numeric), s0))
            index.append((text, 'Compiler(d, %s).pre_process()' % numeric, 'ok ' + prep.s_spec(c)))
            # run_permutation: reorder the assignments of one module, rewrite, compare by name
            mn = rng.choice(sorted(d))
            if any(isinstance(m, dict) and set(m) == {'components-of'} for t in d[mn]['types'].values() for m in (t.get('members') or []) if m is not None):
                continue
            p = copy.deepcopy(d)
            names = list(p[mn]['types'])
            rng.shuffle(names)
            p[mn]['types'] = {k: p[mn]['types'][k] for k in names}
            try:
                _compiler.Compiler(p, numeric).pre_process()
            except Exception as e:
                part.count('prep.permuted.raises.' + type(e).__name__)
                continue
            part.case(('perm', text, tuple(names), numeric))
            if {m: dict(v['types']) for m, v in p.items()} != {m: dict(v['types']) for m, v in c.items()}:
                part.violation('the rewritten dictionary depends on the order of the type assignments of module %s' % mn,
                               {'module': text, 'order': names, 'numeric_enums': numeric})
            else:
                part.count('prep.permutation.same')
    answers = model.batch(lines, timeout=3600) if lines else []
    for (text, what, expected), got in zip(index, answers):
        part.case(('prep', text, what))
        if got == expected:
            part.count('prep.dictionary.equal')
        else:
            k = next((i for i, (a, b) in enumerate(zip(expected, got)) if a != b), min(len(expected), len(got)))
            part.disagreement('corr.prep', {'specification': text[:3000], 'history': what, 'python': expected[max(0, k - 200):k + 200], 'model': got[max(0, k - 200):k + 200]})
    part.count('model_driver_requests', len(lines))
    return part


def run(ctx):
    rng = ctx.rng
    ctx.assumptions += ['arrangements are produced by the generator from one AST (harness/gen.py RefCtx): their meaning-preservation is by construction, and is cross-checked by the Lean model of the inline arrangement through C01']
    ctx.extra['rule'] = ('generated ASTs (2 types) x arrangements {inline, 2 random reorganisations with shared references / value references / permuted assignments, split into 2 modules with IMPORTS in both file orders, '
                         'constraint-on-reference (flagged risky)} x 8 codecs x 2 values per type; distinct = distinct (arrangement text, type, value, codec)')
    opts = Opts(max_depth=3, allow_exotic=0.0, big_lengths=0.0)
    jobs = []
    for i in range(ctx.n(90, 2000)):
        g = Gen(rng, opts)
        ta = g.type()
        # 40 %: the second type is a sibling of the first (same structure and member names, other constraints), so that
        # after reorganisation both refer to the same named types from members of the same name
        types = [('A', ta), ('B', variant(g, ta) if rng.random() < 0.4 else g.type())]
        arr = [('inline', module_text(types), False)]
        for k in range(2):
            rc = RefCtx(rng, p_type=rng.choice([0.3, 0.6, 0.9]), p_value=0.4, p_con_on_ref=0.3, con_kinds=('octs',))
            arr.append(('reorganised', module_text(types, ctx=rc), False))
        for lib_first in (True, False):
            rc = RefCtx(rng, p_type=0.6, p_value=0.4, p_con_on_ref=0.0)
            arr.append(('split-lib-first' if lib_first else 'split-main-first', module_text(types, ctx=rc, split=True, lib_first=lib_first), False))
        rc = RefCtx(rng, p_type=0.6, p_value=0.2, p_con_on_ref=0.6, con_kinds=('bits', 'str'))
        text = module_text(types, ctx=rc)
        if 'size-on-reference' in rc.flags:
            arr.append(('constraint-on-reference', text, True))
        groups = [arr]
        plain_untagged = module_text(types, tags='')
        if not any(k in plain_untagged for k in ('CHOICE', 'SET')):
            # the same comparison without AUTOMATIC TAGS (members are then not re-copied for tagging by the compiler):
            # inline vs shared references, in one module and split over two
            arr2 = [('inline-untagged', plain_untagged, False)]
            for k in range(2):
                rc = RefCtx(rng, p_type=rng.choice([0.5, 0.9]), p_value=0.3, p_con_on_ref=0.5, con_kinds=('octs',))
                arr2.append(('reorganised-untagged', module_text(types, ctx=rc, tags=''), False))
            rc = RefCtx(rng, p_type=0.7, p_value=0.3, p_con_on_ref=0.5, con_kinds=('octs',))
            arr2.append(('split-untagged', module_text(types, ctx=rc, tags='', split=True), False))
            groups.append(arr2)
        if i % 3 == 0:
            # EXTENSIBILITY IMPLIED: every SEQUENCE / SET / CHOICE / ENUMERATED written without `...` gets one — inline or referenced
            arr3 = [('inline-ext-implied', module_text(types, ext_implied=True), False)]
            for k in range(2):
                rc = RefCtx(rng, p_type=rng.choice([0.5, 0.9]), p_value=0.3, p_con_on_ref=0.0)
                arr3.append(('reorganised-ext-implied', module_text(types, ctx=rc, ext_implied=True), False))
            rc = RefCtx(rng, p_type=0.7, p_value=0.3, p_con_on_ref=0.0)
            arr3.append(('split-ext-implied', module_text(types, ctx=rc, ext_implied=True, split=True), False))
            groups.append(arr3)
        vals = [[g.value(t) for _ in range(2)] for _, t in types]
        jobs.append((types, groups, vals))
    n = 28
    parts = core.parallel_map(work, [jobs[k::n] for k in range(n)])
    core.merge(ctx, parts)
    import random
    from .. import prep
    texts = [(rng.getrandbits(32), text) for _, groups, _ in jobs for arr in groups for _, text, _ in arr]
    for i in range(ctx.n(150, 2000)):
        texts.append((rng.getrandbits(32), prep.PGen(random.Random(rng.getrandbits(32))).spec()))
    parts = core.parallel_map(work_prep, [texts[k::n] for k in range(n)])
    core.merge(ctx, parts)
    ctx.model.calls += ctx.hist.pop('model_driver_requests', 0)
    # witness of a recorded finding: cross-module COMPONENTS OF under AUTOMATIC TAGS depends on module order
    a = 'A DEFINITIONS AUTOMATIC TAGS ::= BEGIN IMPORTS Base FROM B; T ::= SEQUENCE { COMPONENTS OF Base, z BOOLEAN } END\n'
    b = 'B DEFINITIONS AUTOMATIC TAGS ::= BEGIN Base ::= SEQUENCE { x INTEGER, y INTEGER } END\n'
    outs = []
    for text in (a + b, b + a):
        st, spec = impl.compile_text(text, 'ber')
        r = impl.encode(spec, 'T', {'x': 1, 'y': 2, 'z': True}) if st == 'ok' else ('err', st)
        outs.append(r[1].hex() if r[0] == 'ok' else r[1])
    if outs[0] == outs[1]:
        ctx.notes.append('stale finding: C19-components-of-module-order no longer reproduces')
    else:
        ctx.known_finding('C19-components-of-module-order', 'witness: cross-module COMPONENTS OF under AUTOMATIC TAGS encodes as %s or %s depending on module order' % tuple(outs))
    # same-named imported symbols (values used as bounds, types) in different modules vs the same types written inline
    from .. import samename
    samename.run(ctx, 'C19', ctx.rng, ctx.n(5, 60))
    samename.run_named(ctx, 'C19', ctx.rng, ctx.n(4, 40))
    # one referenced type + one member name used several ways (the compiled-type cache): order of assignments / inline copy
    from .. import aliasfam
    aliasfam.run_c19(ctx, ctx.rng, ctx.n(60, 800), impl, CODECS)
    # one named type under one component name in several contexts (alternative, tagged / DEFAULT / OPTIONAL member, SET): the type alone in
    # its module vs among the others, reference vs definition in place; another name for a recursive type
    from .. import ctxfam
    ctxfam.run(ctx, 'C19', ctx.rng, ctx.n(36, 400), impl, CODECS)


def replay(ctx, path):
    import json
    d = json.load(open(path))['replay']
    print(json.dumps(d, indent=1)[:4000])
