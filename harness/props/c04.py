"""C04 — the BER decoder accepts every valid BER serialisation with the same meaning.

Stage K: encoder outputs are parsed by the independent TLV library (harness/tlv.py) and re-serialised,
type-directed, in other valid X.690 forms: padded long-form lengths, indefinite length + end-of-contents on any
constructed node, strings / bit strings split into (nested) constructed segments, and mixtures.  Every variant is
first CERTIFIED BY THE MODEL: the Lean reference decoder `X690.berDecodeRef` (the spec-level relation of theorem
`C04.complete`) must return the original value — so a bug of the rewriter cannot become a false alarm — and is then
given to the real BER decoder, which must return the value that was encoded.  The strict reference decoder
(`refdecs`, = reference decoder minus the named deviations) decides whether a failure is a known finding."""
from .. import core, impl, tlv
from ..codecs import py_equal, impl_answer_dec
from ..gen import Gen, Opts, module_text, ty_sx, val_sx


def work(job):
    part = core.Part()
    model = core.Model()
    reqs, meta = [], []
    for (seed, t, text, vals) in job:
        import random
        rng = random.Random(seed)
        st, spec = impl.compile_text(text, 'ber')
        if st != 'ok':
            part.count('compile.' + st)
            continue
        tsx = ty_sx(t)
        for v in vals:
            r = impl.encode(spec, 'A', v)
            if r[0] != 'ok':
                continue
            own = impl.decode(spec, 'A', r[1])
            if own[0] != 'ok' or not py_equal(t, own[1], v):
                continue            # C01's business
            try:
                node, end = tlv.parse(r[1])
            except Exception:
                part.count('tlv-parse-failed')
                continue
            seen = {r[1]}
            for kind, forms in tlv.KINDS.items():
                for _ in range(3 if kind == 'mix' else 1):
                    alt = tlv.reser(t, node, True, rng, forms)
                    if alt in seen:
                        continue
                    seen.add(alt)
                    reqs.append('refdec\t%s\t%s' % (tsx, alt.hex() or '-'))
                    reqs.append('refdecs\t%s\t%s' % (tsx, alt.hex() or '-'))
                    reqs.append('dec\tber\t%s\t%s' % (tsx, alt.hex() or '-'))
                    meta.append((t, text, v, own[1], kind, alt))
    ans = model.batch(reqs)
    part.count('model_driver_requests', len(reqs))
    for i, (t, text, v, decoded_orig, kind, alt) in enumerate(meta):
        ref, strict, mdec = ans[3 * i], ans[3 * i + 1], ans[3 * i + 2]
        want = 'ok ' + val_sx(t, decoded_orig)
        part.case((text, alt.hex()))
        if not ref.startswith('ok'):
            part.count('variant-not-certified.' + kind)      # the rewriter produced something outside the relation
            continue
        st, spec = impl.compile_text(text, 'ber')
        d = impl.decode(spec, 'A', alt)
        mine = impl_answer_dec(t, d)
        part.count('%s.%s' % (kind, 'accepted' if d[0] == 'ok' else d[1].split(':')[0]))
        good = d[0] == 'ok' and py_equal(t, d[1], v)
        if good:
            if mine != mdec and not mdec.endswith('unmodelled') and strict.startswith('ok'):
                part.disagreement('corr.ber.decode_variant', {'module': text, 'variant': alt.hex()[:300], 'impl': mine[:200], 'model': mdec[:200]})
            else:
                part.sample({'module': text, 'value': repr(v)[:160], 'variant_kind': kind, 'variant': alt.hex()[:120], 'decoded': 'same value'})
            continue
        if not strict.startswith('ok') and mine == mdec:
            # outside the strict relation: one of the named deviations applies, and the code behaves as modelled
            part.known_finding('C04-indefinite-extensible-sequence', 'an indefinite-length extensible SEQUENCE without additions present is rejected (end-of-contents consumed twice)')
            continue
        part.violation('ber: a valid re-serialisation (%s) of an encoder output is not decoded to the value that was encoded' % kind,
                       {'module': text, 'value': repr(v), 'variant': alt.hex(), 'kind': kind, 'impl': mine[:400], 'model_M': mdec[:200], 'reference': ref[:200], 'strict_reference': strict[:80]})
    return part


def work_set(job):
    """SET / SET OF (outside the Lean universe): components in any order, alone and mixed with the other forms.  A variant is
    certified by the independent reader of harness/tlv.py: its canonical re-serialisation (definite minimal lengths, primitive
    strings, SET components sorted by tag) must equal that of the encoder output."""
    import random
    part = core.Part()
    for (seed, t, text, vals) in job:
        rng = random.Random(seed)
        st, spec = impl.compile_text(text, 'ber')
        if st != 'ok':
            part.count('compile.' + st)
            continue
        for v in vals:
            r = impl.encode(spec, 'A', v)
            if r[0] != 'ok':
                continue
            own = impl.decode(spec, 'A', r[1])
            if own[0] != 'ok' or not py_equal(t, own[1], v):
                continue            # C01's business
            try:
                node, end = tlv.parse(r[1])
                canon0 = tlv.canonical(t, node)
            except Exception:
                part.count('tlv-parse-failed')
                continue
            seen = {r[1]}
            for kind, forms in tlv.SET_KINDS.items():
                for _ in range(3):
                    alt = tlv.reser(t, node, True, rng, forms)
                    if alt in seen:
                        continue
                    seen.add(alt)
                    part.case((text, alt.hex()))
                    try:
                        n2, e2 = tlv.parse_any(alt)
                        ok = e2 == len(alt) and tlv.canonical(t, n2) == canon0
                    except Exception:
                        ok = False
                    if not ok:
                        part.count('variant-not-certified.' + kind)
                        continue
                    d = impl.decode(spec, 'A', alt)
                    part.count('%s.%s' % (kind, 'accepted' if d[0] == 'ok' else d[1].split(':')[0]))
                    if d[0] == 'ok' and py_equal(t, d[1], v):
                        part.sample({'module': text, 'value': repr(v)[:160], 'variant_kind': kind, 'variant': alt.hex()[:120], 'decoded': 'same value'})
                        continue
                    part.violation('ber: a valid re-serialisation (%s) of an encoder output is not decoded to the value that was encoded' % kind,
                                   {'module': text, 'value': repr(v), 'variant': alt.hex(), 'kind': kind, 'impl': repr(d)[:400], 'encoder_output': r[1].hex()})
    return part


def has_set(t):
    k = t['k']
    if k == 'set':
        return True
    if k in ('seq',):
        return any(has_set(m['t']) for m in t['root'] + (t['ext'] or []))
    if k in ('seqof', 'setof'):
        return has_set(t['elem'])
    if k == 'choice':
        return any(has_set(a[1]) for a in t['root'] + (t['ext'] or []))
    return False


def run(ctx):
    rng = ctx.rng
    ctx.assumptions += ['the set of "valid BER serialisations" is the relation decided by the Lean reference decoder X690.berDecodeRef (my reading of X.690 8.1.3, 8.1.5, 8.7, 8.6, 8.23): content octets of primitives as the DER encoder writes them',
                        'the rewriter (harness/tlv.py) is trusted only up to certification by that reference decoder']
    ctx.extra['rule'] = ('generated modules x 3 values; per encoding: padlen, indef, segments variants and 3 random mixtures (nesting depth <= 3); '
                         'distinct = distinct (module, variant bytes)')
    opts = Opts(max_depth=3, allow_exotic=0.0, big_lengths=0.01)
    jobs = []
    for i in range(ctx.n(260, 5000)):
        g = Gen(rng, opts)
        t = g.type()
        jobs.append((rng.getrandbits(32), t, module_text([('A', t)]), [g.value(t) for _ in range(3)]))
    n = 28
    parts = core.parallel_map(work, [jobs[k::n] for k in range(n)])
    core.merge(ctx, parts)
    ctx.model.calls += ctx.hist.pop('model_driver_requests', 0)
    # SET components in any order (X.690 8.11.3), alone and combined with constructed strings / indefinite lengths
    opts_set = Opts(max_depth=3, allow_exotic=0.0, big_lengths=0.0, kinds=['bool', 'int', 'enum', 'octs', 'bits', 'str', 'set', 'set', 'seq', 'setof', 'choice'])
    jobs = []
    tries = 0
    while len(jobs) < ctx.n(160, 3000) and tries < 100000:
        tries += 1
        g = Gen(rng, opts_set)
        t = g.type()
        if not has_set(t):
            continue
        jobs.append((rng.getrandbits(32), t, module_text([('A', t)]), [g.value(t) for _ in range(3)]))
    parts = core.parallel_map(work_set, [jobs[k::n] for k in range(n)])
    core.merge(ctx, parts)
    # explicitly tagged types (outside the Lean universe): variants built from the shape of an independent DER encoding, certified by
    # the independent reader; one named type under one component name in several contexts
    from .. import tagged, ctxfam
    tagged.run_c04(ctx, rng, ctx.n(120, 1500), impl, Gen, Opts, module_text)
    ctxfam.run(ctx, 'C04', rng, ctx.n(150, 2000), impl, ['ber'])
    # witness of the known finding
    w = 'M DEFINITIONS AUTOMATIC TAGS ::= BEGIN A ::= SEQUENCE { a BOOLEAN, ..., b INTEGER OPTIONAL } END'
    st, spec = impl.compile_text(w, 'ber')
    d = impl.decode(spec, 'A', bytes.fromhex('30808001ff0000'))
    if d[0] == 'ok' and d[1] == {'a': True}:
        ctx.notes.append('stale finding: C04-indefinite-extensible-sequence no longer reproduces')
    else:
        ctx.known_finding('C04-indefinite-extensible-sequence', 'witness 30 80 80 01 ff 00 00 for SEQUENCE { a BOOLEAN, ..., b INTEGER OPTIONAL } is rejected (%s)' % (d[1],))


def replay(ctx, path):
    import json
    d = json.load(open(path))['replay']
    print(json.dumps(d, indent=1)[:3000])
    if isinstance(d, dict) and 'variant' in d:
        st, spec = impl.compile_text(d['module'], 'ber')
        print('impl now:', impl.decode(spec, 'A', bytes.fromhex(d['variant'])))
