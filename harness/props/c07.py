"""C07 — extension additions keep old and new versions of a type interoperable.

Stage K: V2 is obtained from a generated V1 by random legal extension steps at random extensible nodes (new
SEQUENCE additions, CHOICE alternatives, ENUMERATED items, wider extensible ranges; any nesting depth).  For
codec in ber/der/per/uper/oer/jer/xer:
   forward : decode_V1(encode_V2(v2)) == project(v2)   (unknown additions dropped, unknown alternative/item absent,
             everything that follows intact)
   backward: decode_V2(encode_V1(v1)) == v1
For the modelled codecs the Lean model decoder for V1 is run on the same V2 bytes and must agree."""
from .. import core, impl
from ..codecs import MODELLED, py_equal, impl_answer_dec
from ..extend import extend, project, add_groups
from ..gen import Gen, Opts, module_text, ty_sx, val_sx, is_modelled

CODECS = ["ber", "der", "per", "uper", "oer", "jer", "xer"]


def has_none_in_list(t, v):
    """a projected value with an unknown CHOICE / ENUMERATED inside a SEQUENCE OF (XER list-element forms)"""
    k = t['k']
    if v is None:
        return False
    if k in ('seqof', 'setof'):
        for e in v:
            if e is None or (t['elem']['k'] == 'choice' and e[0] is None) or has_none_in_list(t['elem'], e):
                return True
    if k in ('seq', 'set'):
        return any(has_none_in_list(m['t'], v[m['name']]) for m in t['root'] + (t['ext'] or []) if m['name'] in v)
    if k == 'choice' and v[0] is not None:
        for n, at in t['root'] + (t['ext'] or []):
            if n == v[0]:
                return has_none_in_list(at, v[1])
    return False


def work(job):
    chunk = job
    part = core.Part()
    dec_jobs = []
    for (t1, t2, text1, text2, vals1, vals2, nsteps, tB, valsB) in chunk:
        for codec in CODECS:
            s1 = impl.compile_text(text1, codec)
            s2 = impl.compile_text(text2, codec)
            if s1[0] != 'ok' or s2[0] != 'ok':
                part.count('compile.' + (s1[0] if s1[0] != 'ok' else s2[0]))
                continue
            s1, s2 = s1[1], s2[1]
            for v2 in vals2:
                r = impl.encode(s2, 'A', v2)
                if r[0] != 'ok':
                    part.count(codec + '.v2-encode-failed')      # C01's business
                    continue
                own = impl.decode(s2, 'A', r[1])
                if own[0] != 'ok' or not py_equal(t2, own[1], v2):
                    part.count(codec + '.v2-roundtrip-failed')   # C01's business
                    continue
                want = project(t1, t2, v2)
                d = impl.decode(s1, 'A', r[1])
                part.case((text1, text2, repr(v2), codec, 'fwd'))
                part.count('%s.forward.%s' % (codec, d[0] if d[0] == 'ok' else d[1].split(':')[0]))
                if d[0] != 'ok' or not py_equal(t1, d[1], want):
                    if codec == 'xer' and has_none_in_list(t1, want):
                        part.known_finding('C07-xer-list-element-unknown', 'xer SEQUENCE OF CHOICE/ENUMERATED with an alternative/item unknown to V1 raises DecodeError (decode_of is not extension-aware)')
                        continue
                    if codec in ('per', 'uper') and len(r[1]) > 16384:
                        # an unknown addition whose open type is longer than 16384 octets (never produced by the generator today)
                        part.known_finding('C07-per-unknown-addition-16k', '%s: V1 skips an unknown extension addition of more than 16384 octets by the wrong amount' % codec)
                        continue
                    part.violation('%s: a V2 encoding does not decode under V1 to the V1 projection' % codec,
                                   {'codec': codec, 'v1': text1, 'v2': text2, 'value_v2': repr(v2), 'encoded': r[1].hex() if codec not in ('jer', 'xer') else r[1].decode('utf-8', 'replace'),
                                    'expected_v1': repr(want)[:1500], 'got': repr(d[1:])[:1500], 'steps': nsteps})
                elif codec in MODELLED and is_modelled(t1) and is_modelled(t2):
                    dec_jobs.append((t1, text1, codec, r[1], d))
                else:
                    part.sample({'codec': codec, 'v1': text1, 'v2': text2, 'value_v2': repr(v2)[:200], 'decoded_under_v1': repr(d[1])[:200]}, limit=2)
            for v1 in vals1:
                r = impl.encode(s1, 'A', v1)
                if r[0] != 'ok':
                    continue
                own = impl.decode(s1, 'A', r[1])
                if own[0] != 'ok' or not py_equal(t1, own[1], v1):
                    continue
                d = impl.decode(s2, 'A', r[1])
                part.case((text1, text2, repr(v1), codec, 'bwd'))
                part.count('%s.backward.%s' % (codec, d[0] if d[0] == 'ok' else d[1].split(':')[0]))
                if d[0] != 'ok' or not py_equal(t2, d[1], v1):
                    part.violation('%s: a V1 encoding does not decode under V2 to the same value' % codec,
                                   {'codec': codec, 'v1': text1, 'v2': text2, 'value_v1': repr(v1), 'encoded': r[1].hex() if codec not in ('jer', 'xer') else r[1].decode('utf-8', 'replace'),
                                    'got': repr(d[1:])[:1500], 'steps': nsteps})
            # bystander: B ::= SEQUENCE { .., COMPONENTS OF A, .. } is the same type in both versions (COMPONENTS OF takes the
            # ROOT components of A only, X.680 25.5), so both versions must treat every B value identically
            for vB in (valsB if tB is not None else []):
                rb1 = impl.encode(s1, 'B', vB)
                rb2 = impl.encode(s2, 'B', vB)
                part.case((text1, text2, repr(vB), codec, 'bystander'))
                part.count('%s.bystander.%s' % (codec, rb1[0] if rb1[0] == 'ok' else rb1[1].split(':')[0]))
                if rb1[0] != 'ok' and rb2[0] != 'ok':
                    continue                                      # C01's business
                if rb1[0] == 'ok':
                    own = impl.decode(s1, 'B', rb1[1])
                    if own[0] != 'ok' or not py_equal(tB, own[1], vB):
                        continue                                  # does not round-trip within one version: C01's business
                # (the octets may differ: a nested extensible component knows more additions in V2; the meaning may not)
                dd = impl.decode(s1, 'B', rb2[1]) if rb2[0] == 'ok' else None
                d2 = impl.decode(s2, 'B', rb1[1]) if rb1[0] == 'ok' else None
                if rb1[0] != rb2[0] or dd is None or dd[0] != 'ok' or not py_equal(tB, dd[1], vB) or d2 is None or d2[0] != 'ok' or not py_equal(tB, d2[1], vB):
                    part.violation('%s: a type built with COMPONENTS OF the extended type is unchanged between V1 and V2, but the two versions disagree on it' % codec,
                                   {'codec': codec, 'v1': text1, 'v2': text2, 'value_B': repr(vB), 'v1_encoding': repr(rb1[1])[:300], 'v2_encoding': repr(rb2[1])[:300],
                                    'v2_bytes_under_v1': repr(dd)[:300], 'v1_bytes_under_v2': repr(d2)[:300]})
    if dec_jobs:
        model = core.Model()
        ans = model.batch(['dec\t%s\t%s\t%s' % (codec, ty_sx(t1), data.hex() or '-') for t1, text1, codec, data, d in dec_jobs])
        for (t1, text1, codec, data, d), a in zip(dec_jobs, ans):
            if a.endswith('unmodelled'):
                continue
            mine = impl_answer_dec(t1, d)
            if mine != a:
                part.disagreement('corr.%s.decode_v2_under_v1' % codec, {'v1': text1, 'data': data.hex()[:200], 'impl': mine[:200], 'model': a[:200]})
            else:
                part.sample({'codec': codec, 'v1': text1, 'v2_bytes': data.hex()[:80], 'impl_v1_decode': mine[:160], 'model': 'same'}, limit=2)
    return part


def run(ctx):
    rng = ctx.rng
    ctx.assumptions += ['jer/xer are evaluated directly on the implementation (no Lean model yet)',
                        'legal extension steps are those of harness/extend.py: appended OPTIONAL/DEFAULT additions, alternatives, enumeration items, wider extensible ranges']
    ctx.extra['rule'] = ('generated V1 with extension markers, 1-4 random extension steps at random extensible nodes -> V2; 3 V2 values biased to use the new parts and 2 V1 values; '
                         '7 codecs, both directions; distinct = distinct (V1, V2, value, codec, direction)')
    opts = Opts(max_depth=3, allow_exotic=0.0, big_lengths=0.0)
    cases = []
    tries = 0
    while len(cases) < ctx.n(160, 3000) and tries < 100000:
        tries += 1
        g = Gen(rng, opts)
        t1 = g.type()
        with_groups = rng.random() < 0.35
        if with_groups:
            add_groups(rng, t1)      # version brackets [[ ]] among the V1 additions / alternatives
        t2, n = extend(g, t1, rng.randint(1, 4), groups=with_groups)
        if n == 0:
            continue
        vals2 = [g.value(t2) for _ in range(3)]
        vals1 = [g.value(t1) for _ in range(2)]
        text1, text2 = module_text([('A', t1)]), module_text([('A', t2)])
        tB, valsB = None, []
        if t1['k'] == 'seq' and t1['ext'] is not None and not with_groups and rng.random() < 0.7:
            import copy
            pre = {'name': 'zpre', 't': {'k': 'bool'}, 'opt': False, 'default': None}
            post = {'name': 'zpost', 't': {'k': 'int', 'lo': 0, 'hi': 7, 'ext': False, 'con': True}, 'opt': rng.random() < 0.5, 'default': None}
            b_ext = rng.random() < 0.5
            tB = {'k': 'seq', 'root': [pre] + copy.deepcopy(t1['root']) + [post], 'ext': [] if b_ext else None}
            btxt = 'B ::= SEQUENCE {\n  zpre BOOLEAN,\n  COMPONENTS OF A,\n  zpost INTEGER (0..7)%s%s\n}\n' % (' OPTIONAL' if post['opt'] else '', ',\n  ...' if b_ext else '')
            text1 = text1[:text1.rindex('END')] + btxt + 'END\n'
            text2 = text2[:text2.rindex('END')] + btxt + 'END\n'
            valsB = [g.value(tB) for _ in range(2)]
            ctx.count('bystander_components_of')
        cases.append((t1, t2, text1, text2, vals1, vals2, n, tB, valsB))
    ctx.count('generated_pairs', len(cases))
    n = 28
    parts = core.parallel_map(work, [cases[k::n] for k in range(n)])
    core.merge(ctx, parts)
    # regression vector of a repaired defect: DEFAULT values inside a version-bracket group
    v1 = 'M DEFINITIONS AUTOMATIC TAGS ::= BEGIN A ::= SEQUENCE { h NULL, ... } END'
    v2 = "M DEFINITIONS AUTOMATIC TAGS ::= BEGIN A ::= SEQUENCE { h NULL, ..., [[ n5 BIT STRING DEFAULT '101'B, n6 OCTET STRING DEFAULT 'AB'H, n7 BOOLEAN DEFAULT TRUE ]] } END"
    for codec in ('ber', 'der', 'jer', 'xer'):
        s1, s2 = impl.compile_text(v1, codec)[1], impl.compile_text(v2, codec)[1]
        d = impl.decode(s2, 'A', impl.encode(s1, 'A', {'h': None})[1])
        ctx.case(('regression-group-default', codec))
        if not (d[0] == 'ok' and d[1].get('n6') == b'\xab' and d[1].get('n7') is True and tuple(d[1].get('n5', ())) == (b'\xa0', 3)):
            ctx.violation('%s: a V1 encoding decoded under V2 does not give the DEFAULT values of an absent addition group' % codec, {'codec': codec, 'v1': v1, 'v2': v2, 'got': repr(d[1:])[:400]})
    # two extension markers, additions inserted in front of trailing root components (outside the generator's universe)
    from .. import twomark
    twomark.run(ctx, 'C07', rng, ctx.n(60, 800), CODECS)
    from .. import scripted
    scripted.ext_implied_versions(ctx, CODECS)
    # witness of the known finding
    v1 = 'M DEFINITIONS AUTOMATIC TAGS ::= BEGIN A ::= SEQUENCE OF CHOICE { n NULL, ... } END'
    v2 = 'M DEFINITIONS AUTOMATIC TAGS ::= BEGIN A ::= SEQUENCE OF CHOICE { n NULL, ..., k1 BOOLEAN } END'
    s1, s2 = impl.compile_text(v1, 'xer')[1], impl.compile_text(v2, 'xer')[1]
    d = impl.decode(s1, 'A', impl.encode(s2, 'A', [('k1', True)])[1])
    if d[0] == 'ok':
        ctx.notes.append('stale finding: C07-xer-list-element-unknown no longer reproduces')
    else:
        ctx.known_finding('C07-xer-list-element-unknown', 'witness SEQUENCE OF CHOICE { n NULL, ... } cannot read a V2 alternative (%s)' % d[1])
    # witness of the known finding C07-per-unknown-addition-16k (theorem side: C07p forward_per_needs_skipFree)
    v1 = 'M DEFINITIONS AUTOMATIC TAGS ::= BEGIN A ::= SEQUENCE { a INTEGER (0..255), ... } S ::= SEQUENCE { x A, y INTEGER (0..255) } END'
    v2 = 'M DEFINITIONS AUTOMATIC TAGS ::= BEGIN A ::= SEQUENCE { a INTEGER (0..255), ..., b OCTET STRING } S ::= SEQUENCE { x A, y INTEGER (0..255) } END'
    for codec in ('per', 'uper'):
        s1, s2 = impl.compile_text(v1, codec)[1], impl.compile_text(v2, codec)[1]
        for n_oct, must_hold in ((16382, True), (16383, False)):
            e = impl.encode(s2, 'S', {'x': {'a': 5, 'b': b'\xaa' * n_oct}, 'y': 77})
            d = impl.decode(s1, 'S', e[1]) if e[0] == 'ok' else e
            ok = d[0] == 'ok' and d[1] == {'x': {'a': 5}, 'y': 77}
            ctx.case(('witness-16k', codec, n_oct))
            if must_hold and not ok:
                ctx.violation('%s: V1 does not skip an unknown addition whose open type is exactly 16384 octets long' % codec,
                              {'codec': codec, 'v1': v1, 'v2': v2, 'octets_in_b': n_oct, 'got': repr(d[1:])[:300]})
            elif not must_hold and ok:
                ctx.notes.append('stale finding: C07-per-unknown-addition-16k no longer reproduces (%s)' % codec)
            elif not must_hold:
                ctx.known_finding('C07-per-unknown-addition-16k', 'witness %s: S.x.b of 16383 octets (open type 16385 octets, written unfragmented) makes a V1 reader return %s instead of y = 77'
                                  % (codec, repr(d[1:])[:80]))


def replay(ctx, path):
    import json
    d = json.load(open(path))['replay']
    print(json.dumps(d, indent=1)[:3000])
