"""C17 — the compile cache is transparent.

Stage K: random histories of compile_files calls over one shared cache directory (varying file contents,
file lists / splits, codec, numeric_enums), each call compared with an uncached compile of the same call by
a behavioural fingerprint (types, encodings of generated values, decoded values, error classes).  The exact
key bytes found in the diskcache store are compared with the Lean model `Cache.key`.
Thorough tier adds fault injection in support of the 'atomic store' assumption: SIGKILL of a populating
child at random instants and truncation / bit flips of cache files, then 'error or equal'."""
import os
import shutil
import signal
import subprocess
import sys
import tempfile
import time

from .. import core, impl
from ..gen import Gen, Opts, module_text

CODECS = ['ber', 'der', 'per', 'uper', 'oer', 'jer', 'xer', 'gser']


def numeric_value(t, v):
    """the same value with ENUMERATED names replaced by numbers"""
    k = t['k']
    if v is None:
        return None
    if k == 'enum':
        return dict(t['root'] + (t['ext'] or []))[v]
    if k == 'seqof':
        return [numeric_value(t['elem'], e) for e in v]
    if k == 'seq':
        return {m['name']: numeric_value(m['t'], v[m['name']]) for m in t['root'] + (t['ext'] or []) if m['name'] in v}
    if k == 'choice':
        for n, at in t['root'] + (t['ext'] or []):
            if n == v[0]:
                return (n, numeric_value(at, v[1]))
    return v


def fingerprint(spec, probes, codec):
    out = [sorted(spec.types)]
    for name, t, v in probes:
        for vv in (v, numeric_value(t, v)):
            r = impl.encode(spec, name, vv)
            if r[0] == 'ok':
                d = impl.decode(spec, name, r[1]) if codec != 'gser' else ('n/a',)
                out.append((name, 'ok', r[1], repr(d[1]) if d[0] == 'ok' else d[:2]))
            else:
                out.append((name, r[1]))
    return out


def run(ctx):
    import asn1tools
    import diskcache
    rng = ctx.rng
    ctx.assumptions += ['diskcache/sqlite is an atomic map: a read raises or returns exactly what a completed write stored (validated observationally by fault injection in the thorough tier, not proved)',
                        "Python's repr of the options tuple is self-delimiting (prefix-free) — hypothesis `PrefixFree optsSet` of key_injective"]
    ctx.extra['rule'] = ('histories of up to 8 compile_files calls over a shared cache directory; pool of generated modules (some with ENUMERATED so that numeric_enums matters), '
                         'file lists of 1-2 files incl. re-splits with identical concatenation, file edits between calls; distinct = distinct (history prefix, call)')
    base = tempfile.mkdtemp(prefix='c17-')
    try:
        nhist = ctx.n(40, 400)
        keyreqs, keymeta = [], []
        # scripted histories after the random ones: every ordered pair of different choice tables (same locations, same or
        # different discriminator values, different types) for the same files / codec / numeric_enums over one cache
        import itertools
        scripts = [None] * nhist
        for codec_ in ('ber', 'der'):
            for numeric_ in (False, True):
                for a_, b_ in itertools.permutations(range(5), 2):
                    scripts.append([(a_, codec_, numeric_), (b_, codec_, numeric_), (a_, codec_, numeric_)])
        if ctx.quick():
            scripts = scripts[:nhist] + rng.sample(scripts[nhist:], 24)
        for h, script in enumerate(scripts):
            cache_dir = os.path.join(base, 'cache%d' % h)
            # pool of module texts
            g = Gen(rng, Opts(max_depth=2, kinds=['bool', 'int', 'enum', 'octs', 'seq', 'choice', 'seqof', 'enum', 'str', 'str', 'bits', 'null']))
            mods = []
            for mi in range(3):
                t = g.type()
                mods.append((t, module_text([('A%d' % mi, t)], name='M%d' % mi), g.value(t)))
            files = {}

            def write(name, text):
                pth = os.path.join(base, 'h%d_%s.asn' % (h, name))
                with open(pth, 'w') as f:
                    f.write(text)
                files[name] = pth
                return pth
            for mi, (t, text, v) in enumerate(mods):
                write('m%d' % mi, text)
            # a re-split of m0+m1 with identical concatenation: (m0 + first half of m1, second half of m1)
            cut = len(mods[1][1]) // 2
            write('s0', mods[0][1] + mods[1][1][:cut])
            write('s1', mods[1][1][cut:])
            # ANY DEFINED BY module (choice tables are a compile option) and a type name defined in three files
            write('any', 'Foo DEFINITIONS ::= BEGIN Fie ::= SEQUENCE { bar INTEGER, fum ANY DEFINED BY bar } END\n')
            for k, body in enumerate(['INTEGER', 'BOOLEAN', 'OCTET STRING']):
                write('dup%d' % k, 'D%d DEFINITIONS ::= BEGIN Id ::= %s  U%d ::= NULL END\n' % (k, body, k))
            tables = [None,
                      {('Foo', 'Fie', 'fum'): {0: 'NULL', 1: 'INTEGER'}},
                      {('Foo', 'Fie', 'fum'): {0: 'INTEGER', 1: 'NULL'}},
                      {('Foo', 'Fie', 'fum'): {0: 'NULL', 1: 'INTEGER', 2: 'BOOLEAN'}},
                      {('Foo', 'Fie', 'fum'): {0: 'NULL', 1: 'BOOLEAN'}}]
            ncalls = len(script) if script else rng.randint(2, 8)
            for ci in range(ncalls):
                choice = 0.0 if script else rng.random()
                adb = None
                special = None
                if choice < 0.22:
                    flist, probes = [files['any']], []
                    adb = tables[script[ci][0]] if script else rng.choice(tables)
                    special = 'any'
                elif choice < 0.34:
                    nd = rng.choice([2, 3, 3])
                    flist, probes = [files['dup%d' % k] for k in range(nd)], []
                    special = 'dup'
                elif choice < 0.55:
                    flist, probes = [files['m0']], [('A0', mods[0][0], mods[0][2])]
                elif choice < 0.7:
                    flist, probes = [files['m0'], files['m1']], [('A0', mods[0][0], mods[0][2]), ('A1', mods[1][0], mods[1][2])]
                elif choice < 0.85:
                    flist, probes = [files['s0'], files['s1']], [('A0', mods[0][0], mods[0][2])]
                else:
                    flist, probes = [files['m2']], [('A2', mods[2][0], mods[2][2])]
                if rng.random() < 0.15:
                    # edit a file between calls (keep it valid): change the module of m2
                    t = g.type()
                    mods[2] = (t, module_text([('A2', t)], name='M2'), g.value(t))
                    write('m2', mods[2][1])
                codec = rng.choice(CODECS if rng.random() < 0.5 else ['uper', 'ber'])
                if special == 'any':
                    codec = rng.choice(['ber', 'der'])
                numeric = rng.random() < 0.5
                if script:
                    codec, numeric = script[ci][1], script[ci][2]
                ctx.case((h, ci, tuple(flist), codec, numeric))
                ctx.count('call.%s.numeric=%s.files=%d' % ('x', numeric, len(flist)))

                def compile_(cache):
                    try:
                        with core.time_limit(60):
                            return ('ok', asn1tools.compile_files(flist, codec, any_defined_by_choices=adb, cache_dir=cache, numeric_enums=numeric))
                    except Exception as e:
                        return ('err', impl.classify(e))
                cached = compile_(cache_dir)
                fresh = compile_(None)
                if cached[0] != fresh[0] or (cached[0] == 'err' and cached[1] != fresh[1]):
                    ctx.violation('cached compile outcome differs from uncached', {'files': [open(f).read() for f in flist], 'codec': codec, 'numeric_enums': numeric,
                                                                                    'cached': cached[:2] if cached[0] == 'err' else 'ok', 'fresh': fresh[:2] if fresh[0] == 'err' else 'ok', 'call_index': ci})
                    continue
                if cached[0] == 'ok':
                    f1 = fingerprint(cached[1], probes, codec)
                    f2 = fingerprint(fresh[1], probes, codec)
                    if special == 'any':
                        # behaviour that depends on the choice table: decoding a NULL / INTEGER / raw body
                        for sp, ff in ((cached[1], f1), (fresh[1], f2)):
                            for data in (b'0\x05\x02\x01\x00\x05\x00', b'0\x06\x02\x01\x01\x02\x01\x05', b'0\x06\x02\x01\x00\x02\x01\x05', b'0\x06\x02\x01\x02\x01\x01\xff', b'0\x06\x02\x01\x01\x01\x01\xff'):
                                r = impl.decode(sp, 'Fie', data)
                                ff.append(('Fie', repr(r[:2])))
                    if special == 'dup':
                        for sp, ff in ((cached[1], f1), (fresh[1], f2)):
                            for tn in ('Id', 'U0', 'U2'):
                                r = impl.encode(sp, tn, 1)
                                ff.append((tn, r[0], r[1] if r[0] == 'ok' else r[1]))
                    if f1 != f2:
                        ctx.violation('cached specification behaves differently from an uncached compile of the same call',
                                      {'files': [open(f).read() for f in flist], 'codec': codec, 'numeric_enums': numeric, 'any_defined_by_choices': repr(adb), 'call_index': ci,
                                       'cached': repr(f1)[:600], 'fresh': repr(f2)[:600]})
                    elif len(ctx.samples) < 3:
                        ctx.sample({'history': h, 'call': ci, 'codec': codec, 'numeric_enums': numeric, 'files': [os.path.basename(f) for f in flist], 'fingerprint_equal': True})
                    opts = repr((adb, 'utf-8', numeric)).encode('utf-8')
                    keyreqs.append('cachekey\t%s\t%s\t(%s)' % (codec.encode().hex(), opts.hex(), ' '.join(open(f, 'rb').read().hex() or '-' for f in flist)))
                    keymeta.append((cache_dir, flist, codec, numeric))
            # key correspondence: every key in the store is the model key of some call of this history
        answers = ctx.model.batch(keyreqs)
        by_dir = {}
        for (cache_dir, flist, codec, numeric), a in zip(keymeta, answers):
            by_dir.setdefault(cache_dir, set()).add(a)
        for cache_dir, model_keys in by_dir.items():
            c = diskcache.Cache(cache_dir)
            impl_keys = {bytes(k).hex() for k in c.iterkeys()}
            c.close()
            if impl_keys != model_keys:
                ctx.disagreement('corr.c17.key', {'only_impl': [k[:80] for k in sorted(impl_keys - model_keys)][:3],
                                                  'only_model': [k[:80] for k in sorted(model_keys - impl_keys)][:3]})
        ctx.count('cache_dirs_with_key_check', len(by_dir))
        encoding_histories(ctx, base)
        populate_then_hit(ctx, base)
        if not ctx.quick():
            fault_injection(ctx, base)
    finally:
        shutil.rmtree(base, ignore_errors=True)


ALL_KINDS = """M DEFINITIONS AUTOMATIC TAGS ::= BEGIN
A ::= SEQUENCE {
  b BOOLEAN, i INTEGER (0..300), j INTEGER, e ENUMERATED { red(0), green(5), ..., blue(9) }, n NULL,
  o OCTET STRING (SIZE(0..4)), bs BIT STRING (SIZE(3)), nb BIT STRING { first(0), last(7) },
  p PrintableString (SIZE(2)), ia IA5String, vs VisibleString (SIZE(1..3)), ns NumericString, u UTF8String, bm BMPString,
  fr IA5String (FROM ("a".."f" | "0".."9")),
  r REAL, oid OBJECT IDENTIFIER, c CHOICE { x INTEGER (0..7), y PrintableString, ... }, l SEQUENCE (SIZE(0..3)) OF PrintableString,
  d INTEGER DEFAULT 7, op PrintableString OPTIONAL, ...,
  ad PrintableString OPTIONAL
}
END
"""
ALL_KINDS_VALUES = [
    {'b': True, 'i': 300, 'j': -70000, 'e': 'green', 'n': None, 'o': b'\x01\x02', 'bs': (b'\xa0', 3), 'nb': (b'\x81', 8), 'p': 'AZ', 'ia': 'a~', 'vs': 'x y',
     'ns': '12 3', 'u': 'caf\u00e9', 'bm': '\u6f22', 'fr': 'a0f9', 'r': 1.5, 'oid': '1.2.840.113549', 'c': ('y', 'Hello'), 'l': ['A1', '', 'z'], 'op': 'Q', 'ad': 'R2'},
    {'b': False, 'i': 0, 'j': 0, 'e': 'blue', 'n': None, 'o': b'', 'bs': (b'\x00', 3), 'nb': (b'\x80', 1), 'p': '09', 'ia': '', 'vs': '~', 'ns': '', 'u': '', 'bm': '',
     'fr': '', 'r': 0.0, 'oid': '2.999.3', 'c': ('x', 7), 'l': [], 'd': 8},
]


def populate_then_hit(ctx, base):
    """every codec: compile a module that has one component of every leaf kind into an empty cache directory (populates it), compile the
    same call again (served from the cache), twice more from a NEW process-independent load (a fresh diskcache handle), and compare all
    of them with the uncached compile on encode / decode of two values.  Whatever a compiled specification loses or changes when it
    is stored and loaded back (pickling) shows here."""
    import asn1tools
    pth = os.path.join(base, 'allkinds.asn')
    with open(pth, 'w') as f:
        f.write(ALL_KINDS)
    for codec in CODECS:
        for numeric in (False, True):
            cache_dir = os.path.join(base, 'pth_%s_%s' % (codec, numeric))

            def fp(spec):
                out = []
                for v in ALL_KINDS_VALUES:
                    vv = dict(v)
                    if numeric:
                        vv['e'] = {'red': 0, 'green': 5, 'blue': 9}[vv['e']]
                    r = impl.encode(spec, 'A', vv)
                    d = impl.decode(spec, 'A', r[1]) if r[0] == 'ok' and codec != 'gser' else ('n/a',)
                    out.append((r[:2], repr(d[1]) if d[0] == 'ok' else d[:2]))
                return out
            try:
                fresh = fp(asn1tools.compile_files([pth], codec, numeric_enums=numeric))
            except Exception as e:
                ctx.count('populate-then-hit.uncached-compile-error.' + type(e).__name__)
                continue
            for call in range(3):
                ctx.case(('populate-then-hit', codec, numeric, call))
                ctx.count('call.populate-then-hit')
                try:
                    got = fp(asn1tools.compile_files([pth], codec, cache_dir=cache_dir, numeric_enums=numeric))
                except Exception as e:
                    got = ['compile error', impl.classify(e)]
                if got != fresh:
                    diff = next(((a, b) for a, b in zip(got, fresh) if a != b), (got[:1], fresh[:1]))
                    ctx.violation('a specification served from the compile cache behaves differently from an uncached compile of the same call',
                                  {'file_text': ALL_KINDS, 'codec': codec, 'numeric_enums': numeric, 'call_index_on_this_cache_dir': call,
                                   'first_difference_cached_vs_uncached': repr(diff)[:700]})
                    break


def encoding_histories(ctx, base):
    """the `encoding` option is part of what a call means: the same file bytes read under another encoding are another
    specification (character string DEFAULT values, value assignments).  Histories over one cache directory that change only
    the encoding, each call compared with the uncached compile of the same call."""
    import asn1tools
    rng = ctx.rng
    texts = ['M DEFINITIONS AUTOMATIC TAGS ::= BEGIN A ::= SEQUENCE { s UTF8String DEFAULT "caf\u00e9 \u00fc\u00df", n INTEGER DEFAULT 1 } END\n',
             'M DEFINITIONS AUTOMATIC TAGS ::= BEGIN greeting UTF8String ::= "gr\u00fc\u00df" A ::= SEQUENCE { s UTF8String DEFAULT greeting, b BOOLEAN OPTIONAL } END\n',
             'M DEFINITIONS AUTOMATIC TAGS ::= BEGIN A ::= SEQUENCE { s UTF8String DEFAULT "plain ascii", n INTEGER DEFAULT 1 } END\n']
    encs = ['utf-8', 'latin-1', 'cp1252', 'utf-8', 'iso8859-15']
    for h in range(ctx.n(6, 40)):
        text = texts[h % len(texts)]
        pth = os.path.join(base, 'enc%d.asn' % h)
        with open(pth, 'w', encoding='utf-8') as f:
            f.write(text)
        cache_dir = os.path.join(base, 'enc_cache%d' % h)
        hist = []
        for ci in range(rng.randint(2, 5)):
            enc = rng.choice(encs) if ci else rng.choice(['latin-1', 'utf-8', 'cp1252'])
            codec = rng.choice(['ber', 'uper', 'jer', 'oer'])
            hist.append((codec, enc))
            ctx.case(('encoding-history', h, tuple(hist)))
            ctx.count('call.encoding=%s' % enc)

            def compile_(cache):
                try:
                    return ('ok', asn1tools.compile_files([pth], codec, cache_dir=cache, encoding=enc))
                except Exception as e:
                    return ('err', impl.classify(e))
            cached, fresh = compile_(cache_dir), compile_(None)
            outs = []
            for r in (cached, fresh):
                if r[0] != 'ok':
                    outs.append(r[:2])
                    continue
                e = impl.encode(r[1], 'A', {})
                d = impl.decode(r[1], 'A', e[1]) if e[0] == 'ok' else e
                e2 = impl.encode(r[1], 'A', {'s': 'caf\u00c3\u00a9 \u00c3\u00bc\u00c3\u009f', 'n': 2})
                outs.append((e[:2], repr(d[1]) if d[0] == 'ok' else d[:2], e2[:2]))
            if outs[0] != outs[1]:
                ctx.violation('a cached compile differs from an uncached compile of the same call after the same files were compiled with another encoding',
                              {'file_text': text, 'history': ['compile_files([f], %r, cache_dir=D, encoding=%r)' % ce for ce in hist], 'cached': repr(outs[0])[:500], 'uncached': repr(outs[1])[:500]})
                break


CHILD = r'''
import sys, asn1tools
asn1tools.compile_files(sys.argv[1:-2], sys.argv[-2], cache_dir=sys.argv[-1])
'''


def fault_injection(ctx, base):
    import asn1tools
    rng = ctx.rng
    big = os.path.join(core.REPO, 'tests/files/3gpp/rrc_8_6_0.asn')
    small = os.path.join(core.REPO, 'tests/files/foo.asn')
    fresh = {}
    for f in (small, big):
        spec = asn1tools.compile_files([f], 'uper')
        fresh[f] = sorted(spec.types)
    # (1) SIGKILL of a populating child at random instants
    for i in range(ctx.n(0, 40)):
        f = rng.choice([small, big])
        d = os.path.join(base, 'kill%d' % i)
        p = subprocess.Popen(['/venv/bin/python', '-c', CHILD, f, 'uper', d], stdout=subprocess.DEVNULL, stderr=subprocess.DEVNULL)
        time.sleep(rng.random() * (6.0 if f == big else 0.6))
        try:
            p.send_signal(signal.SIGKILL)
        except ProcessLookupError:
            pass
        p.wait()
        check_error_or_equal(ctx, f, d, fresh[f], 'after SIGKILL of the populating process')
    # (2) damage to the cache files
    for i in range(ctx.n(0, 60)):
        d = os.path.join(base, 'dmg%d' % i)
        asn1tools.compile_files([small], 'uper', cache_dir=d)
        victims = [os.path.join(r, fn) for r, _, fns in os.walk(d) for fn in fns]
        v = rng.choice(victims)
        data = bytearray(open(v, 'rb').read())
        if data and rng.random() < 0.5:
            data = data[:rng.randrange(len(data))]
        elif data:
            for _ in range(rng.randint(1, 8)):
                j = rng.randrange(len(data))
                data[j] ^= 1 << rng.randrange(8)
        with open(v, 'wb') as fh:
            fh.write(data)
        check_error_or_equal(ctx, small, d, fresh[small], 'after damaging %s' % os.path.basename(v))


def check_error_or_equal(ctx, f, d, types, what):
    import asn1tools
    ctx.case(('fault', f, d, what))
    try:
        with core.time_limit(120):
            spec = asn1tools.compile_files([f], 'uper', cache_dir=d)
    except core.Timeout:
        ctx.violation('compile_files hangs ' + what, {'file': f})
        return
    except Exception as e:
        ctx.count('fault.error.' + type(e).__name__)
        return
    ctx.count('fault.ok')
    if sorted(spec.types) != types:
        ctx.violation('a damaged / interrupted cache returned a wrong specification ' + what, {'file': f, 'types_got': sorted(spec.types)[:10]})
        return
    try:
        e1 = spec.encode('Question', {'id': 1, 'question': 'Is 1+1=3?'}) if f.endswith('foo.asn') else None
        if e1 is not None and e1 != b'\x01\x01\x09\x93\xcd\x03\x15\x6c\x5e\xb3\x7e':
            ctx.violation('a damaged / interrupted cache returned a specification that encodes differently ' + what, {'file': f, 'encoded': e1.hex()})
    except Exception as e:
        ctx.violation('a damaged / interrupted cache returned a broken specification ' + what, {'file': f, 'error': repr(e)})


def replay(ctx, path):
    import json
    d = json.load(open(path))['replay']
    print(json.dumps(d, indent=1)[:3000])
