"""C03 — DER output is the unique X.690 distinguished encoding.

Stage K:
  (a) model universe: implementation bytes vs the Lean specification encoder X690.derEncode (S) and the code
      model Der (M) — see harness/exact.py; the output is re-read by the independent TLV parser (harness/tlv.py)
      which must find one definite-length TLV tree with minimal length octets;
  (b) SET / SET OF (outside the Lean universe): modules WITHOUT automatic tagging whose SET members carry distinct
      UNIVERSAL tags, compared with an independent X.690 DER encoder written in the harness (components in
      ascending tag order, SET OF elements in ascending encoded order); equal abstract values given in different
      Python orders must give identical bytes."""
from .. import core, exact, impl, tlv


# ---------------------------------------------------------------- independent DER encoder for part (b)
def der_len(n):
    if n < 128:
        return bytes([n])
    b = n.to_bytes((n.bit_length() + 7) // 8, 'big')
    return bytes([0x80 | len(b)]) + b


def der_int(i):
    n = (i.bit_length() // 8) + 1 if i >= 0 else ((-i - 1).bit_length() // 8) + 1
    return i.to_bytes(n, 'big', signed=True)


def tlv_(tag, content):
    return (bytes([tag]) if isinstance(tag, int) else tag) + der_len(len(content)) + content


CLASS_BITS = {'UNIVERSAL': 0x00, 'APPLICATION': 0x40, '': 0x80, 'PRIVATE': 0xc0}


def ident(cls, num, constructed):
    """identifier octets (X.690 8.1.2): low form for numbers <= 30, high form (base 128, minimal) above"""
    first = CLASS_BITS[cls] | (0x20 if constructed else 0)
    if num <= 30:
        return bytes([first | num])
    out = [num & 0x7f]
    num >>= 7
    while num:
        out.append(0x80 | (num & 0x7f))
        num >>= 7
    return bytes([first | 0x1f]) + bytes(reversed(out))


def split_ident(enc):
    """(class bits, number, constructed, rest) of an encoding"""
    first = enc[0]
    if first & 0x1f != 0x1f:
        return first & 0xc0, first & 0x1f, bool(first & 0x20), enc[1:]
    num, i = 0, 1
    while True:
        num = (num << 7) | (enc[i] & 0x7f)
        i += 1
        if not enc[i - 1] & 0x80:
            break
    return first & 0xc0, num, bool(first & 0x20), enc[i:]


def member_der(m, v, module_mode):
    """encoding of one SEQUENCE/SET component, applying its tag (X.690 8.14): EXPLICIT wraps, IMPLICIT replaces the
    identifier octets keeping the primitive/constructed bit"""
    enc = der(m['t'], v, module_mode)
    tag = m.get('tag')
    if not tag:
        return enc
    cls, num, mode = tag
    mode = mode or module_mode
    if mode == 'EXPLICIT':
        return tlv_(ident(cls, num, True), enc)
    _, _, constructed, rest = split_ident(enc)
    return ident(cls, num, constructed) + rest


def tag_key(enc):
    """canonical order of SET components (X.690 10.3 / X.680 8.6): class universal < application < context < private, then number"""
    c, n, _, _ = split_ident(enc)
    return (c, n)


def der(t, v, module_mode='EXPLICIT'):
    k = t['k']
    if k == 'bool':
        return tlv_(0x01, b'\xff' if v else b'\x00')
    if k == 'int':
        return tlv_(0x02, der_int(v))
    if k == 'null':
        return tlv_(0x05, b'')
    if k == 'octs':
        return tlv_(0x04, bytes(v))
    if k == 'enum':
        return tlv_(0x0a, der_int(dict(t['root'])[v]))
    if k == 'str':
        return tlv_({'IA5String': 0x16, 'VisibleString': 0x1a, 'UTF8String': 0x0c}[t['kind']], v.encode('utf-8'))
    if k == 'seqof':
        return tlv_(0x30, b''.join(der(t['elem'], e, module_mode) for e in v))
    if k == 'setof':
        return tlv_(0x31, b''.join(sorted(der(t['elem'], e, module_mode) for e in v)))
    if k == 'seq':
        return tlv_(0x30, b''.join(member_der(m, v[m['name']], module_mode) for m in t['root'] if m['name'] in v))
    if k == 'set':
        parts = [member_der(m, v[m['name']], module_mode) for m in t['root'] if m['name'] in v]
        return tlv_(0x31, b''.join(sorted(parts, key=tag_key)))
    raise ValueError(k)


TAG_NUMBERS = [0, 1, 2, 3, 5, 30, 31, 32, 35, 40, 127, 128, 129, 255, 16383, 16384, 2097151, 2097152]

LEAVES = [
    lambda r: {'k': 'bool'}, lambda r: {'k': 'null'},
    lambda r: {'k': 'int', 'lo': None, 'hi': None, 'ext': False, 'con': False},
    lambda r: {'k': 'octs', 'size': None},
    lambda r: {'k': 'enum', 'root': [('p', 0), ('q', 1), ('r', 300)], 'ext': None},
    lambda r: {'k': 'str', 'kind': 'IA5String', 'size': None},
    lambda r: {'k': 'str', 'kind': 'UTF8String', 'size': None},
    lambda r: {'k': 'str', 'kind': 'VisibleString', 'size': None},
]


def gen_set_type(rng, depth=0):
    """a type built from SET / SET OF / SEQUENCE / SEQUENCE OF and leaves, every SET with members of pairwise
    distinct UNIVERSAL tags, no OPTIONAL (so it is valid without any tagging)"""
    x = rng.random()
    if depth >= 2 or x < 0.25:
        return rng.choice(LEAVES)(rng)
    if x < 0.45:
        return {'k': 'setof', 'elem': gen_set_type(rng, depth + 1), 'size': None}
    if x < 0.55:
        return {'k': 'seqof', 'elem': gen_set_type(rng, depth + 1), 'size': None}
    makers = list(LEAVES) + [lambda r: {'k': 'seqof', 'elem': gen_set_type(r, depth + 1), 'size': None},
                             lambda r: {'k': 'setof', 'elem': gen_set_type(r, depth + 1), 'size': None}]
    rng.shuffle(makers)
    members, tags = [], set()
    tagged = rng.random() < 0.6         # members carry explicit class/number tags (long-form numbers, all classes, both modes)
    for mk in makers[:rng.randint(2, 6)]:
        mt = mk(rng)
        m = {'name': 'f%d' % len(members), 't': mt, 'opt': False, 'default': None}
        if tagged and rng.random() < 0.8:
            tg = (rng.choice(['', '', 'APPLICATION', 'PRIVATE']), rng.choice(TAG_NUMBERS))
            if tg in tags:
                continue
            tags.add(tg)
            m['tag'] = tg + (rng.choice(['', 'IMPLICIT', 'EXPLICIT']),)
            m['opt'] = rng.random() < 0.3
        else:
            tag = der(mt, sample_value(rng, mt))[0] & ~0x20
            if tag in tags:
                continue
            tags.add(tag)
        members.append(m)
    return {'k': 'set' if x < 0.9 else 'seq', 'root': members, 'ext': None}


def sample_value(rng, t):
    k = t['k']
    if k == 'bool':
        return rng.random() < 0.5
    if k == 'null':
        return None
    if k == 'int':
        return rng.choice([0, 1, -1, 127, 128, -128, -129, 255, 256, 65535, 2 ** 40, -2 ** 63])
    if k == 'octs':
        return bytes(rng.getrandbits(8) for _ in range(rng.choice([0, 1, 2, 5, 127, 128, 300])))
    if k == 'enum':
        return rng.choice(['p', 'q', 'r'])
    if k == 'str':
        return ''.join(rng.choice('abcXYZ 019') for _ in range(rng.choice([0, 1, 3, 130])))
    if k in ('seqof', 'setof'):
        return [sample_value(rng, t['elem']) for _ in range(rng.choice([0, 1, 2, 3, 6]))]
    return {m['name']: sample_value(rng, m['t']) for m in t['root'] if not (m['opt'] and rng.random() < 0.4)}


def shuffled(rng, t, v):
    """the same abstract value presented differently: SET OF elements permuted, dict insertion order changed"""
    k = t['k']
    if k == 'setof':
        out = [shuffled(rng, t['elem'], e) for e in v]
        rng.shuffle(out)
        return out
    if k == 'seqof':
        return [shuffled(rng, t['elem'], e) for e in v]
    if k in ('set', 'seq'):
        items = [(m['name'], shuffled(rng, m['t'], v[m['name']])) for m in t['root'] if m['name'] in v]
        rng.shuffle(items)
        return dict(items)
    return v


def check_tlv_shape(data):
    """one TLV, definite minimal lengths everywhere (independent re-read)"""
    def walk(pos, end):
        while pos < end:
            tag, p = tlv.parse_tag(data, pos)
            first = data[p]
            if first == 0x80:
                return 'indefinite length'
            ln, p2 = tlv.parse_len(data, p)
            if bytes(data[p:p2]) != der_len(ln):
                return 'non-minimal length octets'
            if p2 + ln > end:
                return 'child overruns parent'
            if tag[0] & 0x20:
                r = walk(p2, p2 + ln)
                if r:
                    return r
            pos = p2 + ln
        return None
    tag, p = tlv.parse_tag(data, 0)
    ln, p2 = tlv.parse_len(data, p)
    if p2 + ln != len(data):
        return 'not exactly one TLV'
    return walk(0, len(data))


def run(ctx):
    from ..gen import module_text
    rng = ctx.rng
    ctx.assumptions += ['S (Asn1Model/X690.lean derEncode) is my reading of X.690 clauses 8, 10, 11 for the model universe; SET / SET OF ordering is checked against an independent encoder in the harness (no Lean model of SET yet)']
    ctx.extra['rule'] = ('(a) generated modules x 4 values vs X690.derEncode and Der model; (b) generated SET/SET OF types without automatic tagging x values x 2 re-orderings vs an independent DER encoder; '
                         'distinct = distinct (module, value)')
    exact.run_exact(ctx, 'C03', ['der'], {'der': 'der'}, option_devs=())
    # TLV shape of a sample of outputs of part (a) is covered by theorem der_tlv_shape; re-read part (b) outputs
    nset = ctx.n(250, 4000)
    for i in range(nset):
        t = gen_set_type(rng)
        mode = rng.choice(['', 'EXPLICIT TAGS', 'IMPLICIT TAGS'])
        text = module_text([('A', t)], tags=mode)
        module_mode = 'IMPLICIT' if mode.startswith('IMPLICIT') else 'EXPLICIT'
        st, spec = impl.compile_text(text, 'der')
        if st != 'ok':
            ctx.count('setpart.compile.' + st)
            continue
        v = sample_value(rng, t)
        want = der(t, v, module_mode)
        outs = []
        for variant in (v, shuffled(rng, t, v), shuffled(rng, t, v)):
            r = impl.encode(spec, 'A', variant)
            outs.append(r)
        ctx.case((text, repr(v)))
        r = outs[0]
        if r[0] != 'ok':
            ctx.count('setpart.encode-error')
            continue
        shape = check_tlv_shape(r[1])
        if shape:
            ctx.violation('der: output is not a definite minimal-length TLV tree (%s)' % shape, {'module': text, 'value': repr(v), 'encoded': r[1].hex()})
        if r[1] != want:
            ctx.violation('der: output differs from the X.690 distinguished encoding (SET components in ascending tag order, SET OF elements in ascending encoded order)',
                          {'module': text, 'value': repr(v), 'impl': r[1].hex(), 'x690': want.hex()})
        else:
            ctx.count('setpart.exact')
            ctx.sample({'module': text, 'value': repr(v)[:200], 'impl': r[1].hex()[:120], 'x690': 'identical'}, limit=7)
        if any(o[0] == 'ok' and o[1] != r[1] for o in outs[1:]):
            ctx.violation('der: two presentations of the same abstract value encode to different bytes',
                          {'module': text, 'value': repr(v), 'encodings': [o[1].hex() for o in outs if o[0] == 'ok']})
        d = impl.decode(spec, 'A', r[1])
        if d[0] != 'ok':
            ctx.violation('der: own output is not decodable', {'module': text, 'value': repr(v), 'encoded': r[1].hex(), 'error': d[1:]})
    # (c) the generator's types under explicit tagging vs the independent X.690 encoder of harness/tagged.py
    from .. import tagged
    from ..gen import Gen, Opts
    tagged.run(ctx, 'C03', ctx.rng, ctx.n(250, 4000), impl, ['der'], Gen, Opts, module_text)
    # regression vectors of the two repaired defects
    w = 'M DEFINITIONS ::= BEGIN A ::= SET OF INTEGER B ::= SET { a OCTET STRING, b BOOLEAN } END'
    st, spec = impl.compile_text(w, 'der')
    r = impl.encode(spec, 'A', [3, 1, 2])
    if not (r[0] == 'ok' and r[1].hex() == '3109020101020102020103'):
        ctx.violation('der: SET OF elements are not in ascending encoded order', {'module': w, 'type': 'A', 'value': '[3, 1, 2]', 'impl': r[1].hex() if r[0] == 'ok' else r[1]})
    r = impl.encode(spec, 'B', {'a': b'x', 'b': True})
    if not (r[0] == 'ok' and r[1].hex() == '31060101ff040178'):
        ctx.violation('der: SET components are not in ascending tag order', {'module': w, 'type': 'B', 'value': "{'a': b'x', 'b': True}", 'impl': r[1].hex() if r[0] == 'ok' else r[1]})
    w = 'M DEFINITIONS IMPLICIT TAGS ::= BEGIN A ::= SET { a [APPLICATION 2097152] BOOLEAN, b [APPLICATION 2097151] BOOLEAN, c [40] BOOLEAN, d [35] BOOLEAN } END'
    st, spec = impl.compile_text(w, 'der')
    r = impl.encode(spec, 'A', {'a': True, 'b': False, 'c': True, 'd': False})
    if not (r[0] == 'ok' and r[1].hex() == '31155fffff7f01005f8180800001ff9f2301009f2801ff'):
        ctx.violation('der: SET components with high tag numbers are not in ascending tag order', {'module': w, 'type': 'A', 'impl': r[1].hex() if r[0] == 'ok' else r[1]})
    # SET: identical octets whatever the textual order of the (explicitly tagged) components
    from .. import tagged as _tagged
    from ..gen import Gen as _Gen, Opts as _Opts, module_text as _module_text
    _tagged.run_set_order(ctx, 'C03', ctx.rng, ctx.n(50, 600), impl, ['der'], _Gen, _Opts, _module_text)
    # time types vs X.690 11.7 / 11.8 / 8.26 worked out in harness/timefam.py
    from .. import timefam as _timefam
    _timefam.run(ctx, 'C03', ctx.rng, ctx.n(40, 500), ['der'])
    # one named type under one component name in several contexts vs the independent encoder
    from .. import ctxfam as _ctxfam
    _ctxfam.run(ctx, 'C03', ctx.rng, ctx.n(150, 2000), impl, ['der'])
    # REAL vs X.690 8.5 / 11.3 worked out independently (exponent and mantissa in the fewest octets, every exponent width boundary)
    from .. import realfam as _realfam
    _realfam.run(ctx, ctx.rng, ctx.n(1, 10))


def sorted_members_differs(t, v, got, want):
    return sorted(got) == sorted(want)


def replay(ctx, path):
    import json
    d = json.load(open(path))['replay']
    print(json.dumps(d, indent=1)[:3000])
