"""C18 — a compiled specification is stateless across calls and threads.

The Lean theorem `noninterference` reduces the property (for every schedule) to one hypothesis: no
micro-step of an encode/decode call writes the shared compiled-type graph.  Stage K checks that hypothesis
on the implementation rather than relying on timing luck:
  * a write monitor (class-level __setattr__/__delattr__ wrappers on every class of every object reachable
    from the Specification) records attribute writes during encode/decode of valid, invalid and truncated data;
  * a structural fingerprint of the whole graph (incl. dicts/lists inside it) is compared before/after every op;
  * sequences of up to 50 ops run sequentially and on 1-8 threads with jittered switch intervals are
    compared, call by call, with the same call made alone on a freshly compiled specification;
  * values passed to encode are compared with a deep copy taken before the call."""
import copy
import sys
import threading

from .. import core, impl
from ..gen import Gen, Opts, module_text, RefCtx

CODECS = ['ber', 'der', 'per', 'uper', 'oer', 'jer', 'xer', 'gser']

RECURSIVE = '''
Tree ::= SEQUENCE { v INTEGER (0..255), kids SEQUENCE OF Tree OPTIONAL }
Shared ::= SEQUENCE { a Leaf, b Leaf DEFAULT 3, c SEQUENCE (SIZE(0..3)) OF Leaf }
Leaf ::= INTEGER (0..10)
'''


def reachable(root):
    """all objects reachable from root through instance attributes, dicts, lists, tuples"""
    seen = {}
    stack = [root]
    while stack:
        o = stack.pop()
        if id(o) in seen or isinstance(o, (str, bytes, int, float, bool, type(None), type)):
            continue
        seen[id(o)] = o
        if isinstance(o, dict):
            stack.extend(o.keys())
            stack.extend(o.values())
        elif isinstance(o, (list, tuple, set, frozenset)):
            stack.extend(o)
        elif hasattr(o, '__dict__'):
            stack.extend(vars(o).values())
    return seen


def fingerprint(root):
    """canonical structural description of the object graph (cycles by first-visit numbering)"""
    num = {}
    out = []

    def walk(o):
        if isinstance(o, (str, bytes, int, float, bool, type(None))):
            return repr(o)
        if isinstance(o, bytearray):
            return 'ba' + repr(bytes(o))
        if isinstance(o, type) or callable(o) and not hasattr(o, '__dict__'):
            return 'callable:' + getattr(o, '__name__', '?')
        if id(o) in num:
            return '#%d' % num[id(o)]
        num[id(o)] = len(num)
        if isinstance(o, dict):
            items = sorted((walk(k), walk(v)) for k, v in o.items())
            return '{' + ','.join('%s:%s' % kv for kv in items) + '}'
        if isinstance(o, (list, tuple)):
            return '[' + ','.join(walk(x) for x in o) + ']'
        if isinstance(o, (set, frozenset)):
            return 's[' + ','.join(sorted(walk(x) for x in o)) + ']'
        if hasattr(o, '__dict__'):
            return type(o).__name__ + '(' + ','.join('%s=%s' % (k, walk(v)) for k, v in sorted(vars(o).items())) + ')'
        return 'obj:' + type(o).__name__
    return walk(root)


class WriteMonitor:
    def __init__(self, objs):
        self.ids = set(objs)
        self.writes = []
        self.active = False
        self.patched = {}
        classes = {type(o) for o in objs.values() if hasattr(o, '__dict__') and type(o).__module__.startswith('asn1tools')}
        for cls in classes:
            orig_set = cls.__setattr__
            orig_del = cls.__delattr__
            mon = self

            def make(orig_set, orig_del):
                def setter(obj, name, value):
                    if mon.active and id(obj) in mon.ids:
                        mon.writes.append((type(obj).__name__, name))
                    orig_set(obj, name, value)

                def deleter(obj, name):
                    if mon.active and id(obj) in mon.ids:
                        mon.writes.append((type(obj).__name__, 'del ' + name))
                    orig_del(obj, name)
                return setter, deleter
            s, d = make(orig_set, orig_del)
            self.patched[cls] = (cls.__dict__.get('__setattr__'), cls.__dict__.get('__delattr__'))
            cls.__setattr__ = s
            cls.__delattr__ = d

    def close(self):
        for cls, (s, d) in self.patched.items():
            for name, orig in (('__setattr__', s), ('__delattr__', d)):
                if orig is None:
                    try:
                        delattr(cls, name)
                    except AttributeError:
                        pass
                else:
                    setattr(cls, name, orig)


def make_ops(rng, spec, types, n):
    """ops: ('enc', name, value) / ('dec', name, bytes)"""
    ops = []
    for _ in range(n):
        name, t, g = rng.choice(types)
        v = g.value(t) if t is not None else g
        kind = rng.random()
        if kind < 0.35:
            ops.append(('enc', name, v))
        elif kind < 0.5:
            ops.append(('enc', name, {'zz': 1} if rng.random() < 0.5 else None))        # invalid value
        else:
            r = impl.encode(spec, name, v)
            if r[0] != 'ok':
                ops.append(('enc', name, v))
                continue
            data = r[1]
            k2 = rng.random()
            if k2 < 0.5:
                ops.append(('dec', name, data))
            elif k2 < 0.8 and len(data) > 0:
                ops.append(('dec', name, data[:rng.randrange(len(data))]))         # truncated
            else:
                b = bytearray(data or b'\x00')
                b[rng.randrange(len(b))] ^= 1 << rng.randrange(8)
                ops.append(('dec', name, bytes(b)))                                  # corrupted
    return ops


def do(spec, op):
    kind, name, arg = op
    if kind == 'enc':
        r = impl.encode(spec, name, arg, limit=20)
    else:
        r = impl.decode(spec, name, arg, limit=20)
    if r[0] == 'ok':
        return ('ok', repr(r[1]))
    return ('err', r[1], r[2].split(' (')[0][:120])


def run(ctx):
    import asn1tools
    rng = ctx.rng
    ctx.assumptions += ['CPython GIL / bytecode atomicity is not modelled: the theorem needs only that shared objects are never written, which is monitored, not proved',
                        'sequential oracle = the same call on a freshly compiled specification']
    ctx.extra['rule'] = ('modules with a recursive type, a sub-type shared by several members, and generated reorganised types (type references) x 8 codecs; '
                         'op sequences (encode valid/invalid, decode valid/truncated/corrupted) of length %s; distinct = distinct (module, codec, op)' % ('<=30' if ctx.quick() else '<=50'))
    nmod = ctx.n(12, 150)
    for mi in range(nmod):
        g = Gen(rng, Opts(max_depth=2, allow_exotic=0.0))
        t = g.type()
        rc = RefCtx(rng, p_type=0.5)
        text = module_text([('A', t)], ctx=rc).replace('END\n', RECURSIVE + 'END\n')
        codec = CODECS[mi % len(CODECS)] if ctx.quick() else rng.choice(CODECS)
        try:
            spec = asn1tools.compile_string(text, codec)
        except Exception as e:
            ctx.count('compile.' + type(e).__name__)
            continue
        tree = {'v': 1, 'kids': [{'v': 2}, {'v': 3, 'kids': [{'v': 4}]}]}
        shared = {'a': 1, 'c': [2, 3]}
        types = [('A', t, g), ('Tree', None, tree), ('Shared', None, shared)]
        ops = make_ops(rng, spec, types, ctx.n(30, 50))
        if codec == 'gser':
            ops = [op for op in ops if op[0] == 'enc'] or [('enc', 'Tree', tree)]
        # oracle: every op alone on a fresh specification
        oracle = []
        for op in ops:
            fresh = asn1tools.compile_string(text, codec)
            oracle.append(do(fresh, op))
        objs = reachable(spec)
        mon = WriteMonitor(objs)
        try:
            fp0 = fingerprint(spec)
            # sequential run with write monitoring and fingerprints
            for i, op in enumerate(ops):
                arg_before = copy.deepcopy(op[2])
                mon.active = True
                res = do(spec, op)
                mon.active = False
                ctx.case((text, codec, op[0], op[1], repr(op[2])[:200]))
                ctx.count('%s.%s' % (op[0], res[0] if res[0] == 'ok' else res[1].split(':')[0]))
                if mon.writes:
                    ctx.violation('%s: %s writes to the compiled specification (%s)' % (codec, op[0], sorted(set(mon.writes))[:4]),
                                  {'module': text, 'codec': codec, 'op': repr(op)[:600], 'writes': sorted(set(mon.writes))[:20]})
                    mon.writes = []
                if res != oracle[i]:
                    ctx.violation('%s: call %d of a sequence gives a different result than the same call on a fresh specification' % (codec, i),
                                  {'module': text, 'codec': codec, 'ops': [repr(o)[:300] for o in ops[:i + 1]], 'got': res, 'alone': oracle[i]})
                if op[0] == 'enc' and repr(op[2]) != repr(arg_before):
                    ctx.violation('%s: encode modified its input value' % codec, {'module': text, 'before': repr(arg_before)[:500], 'after': repr(op[2])[:500]})
            fp1 = fingerprint(spec)
            if fp1 != fp0:
                ctx.violation('%s: the compiled specification changed during a sequence of encode/decode calls' % codec,
                              {'module': text, 'codec': codec, 'ops': [repr(o)[:200] for o in ops]})
            # threaded run
            nthreads = rng.choice([1, 2, 4, 8])
            results = [None] * len(ops)
            old = sys.getswitchinterval()
            sys.setswitchinterval(rng.choice([1e-6, 1e-5, 1e-4]))

            def worker(k):
                for i in range(k, len(ops), nthreads):
                    if oracle[i][0] == 'err' and oracle[i][1] == 'Timeout':
                        results[i] = oracle[i]      # a call that does not terminate alone is C08's business
                        continue
                    kind, name, arg = ops[i]
                    try:
                        if kind == 'enc':
                            results[i] = ('ok', repr(bytes(spec.encode(name, arg))))
                        else:
                            results[i] = ('ok', repr(spec.decode(name, arg)))
                    except Exception as e:
                        results[i] = ('err', impl.classify(e), str(e).split(' (')[0][:120])
            mon.active = True
            threads = [threading.Thread(target=worker, args=(k,)) for k in range(nthreads)]
            for th in threads:
                th.start()
            for th in threads:
                th.join(120)
            mon.active = False
            sys.setswitchinterval(old)
            for i, (res, exp) in enumerate(zip(results, oracle)):
                ctx.case((text, codec, 'thr', i, nthreads))
                if res != exp:
                    ctx.violation('%s: under %d threads call %d differs from the same call alone' % (codec, nthreads, i),
                                  {'module': text, 'codec': codec, 'op': repr(ops[i])[:400], 'got': res, 'alone': exp})
            if mon.writes:
                ctx.violation('%s: writes to the compiled specification under threads (%s)' % (codec, sorted(set(mon.writes))[:4]),
                              {'module': text, 'codec': codec, 'writes': sorted(set(mon.writes))[:20]})
            if len(ctx.samples) < 3:
                ctx.sample({'codec': codec, 'objects_monitored': len(objs), 'ops': len(ops), 'threads': nthreads, 'writes': 0,
                            'first_ops': [repr(o)[:80] for o in ops[:3]]})
            ctx.count('objects_monitored', len(objs))
        finally:
            mon.close()


def replay(ctx, path):
    import json
    d = json.load(open(path))['replay']
    print(json.dumps(d, indent=1)[:3000])
