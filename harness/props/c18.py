"""C18 — a compiled specification is stateless across calls and threads.

The Lean theorem `noninterference` reduces the property (for every schedule) to one hypothesis: no
micro-step of an encode/decode call writes the shared compiled-type graph.  Stage K checks that hypothesis
on the implementation rather than relying on timing luck:
  * a write monitor (class-level __setattr__/__delattr__ wrappers on every class of every object reachable
    from the Specification) records attribute writes during encode/decode of valid, invalid and truncated data;
  * a structural fingerprint of the whole graph (incl. dicts/lists inside it) is compared before/after every op;
  * sequences of up to 50 ops run sequentially and on 1-8 threads with jittered switch intervals are
    compared, call by call, with the same call made alone on a freshly compiled specification;
  * values passed to encode are compared with a deep copy taken before the call."""
import copy
import datetime
import os
import pickle
import sys
import threading

from .. import core, impl
from ..gen import Gen, Opts, module_text, RefCtx

CODECS = ['ber', 'der', 'per', 'uper', 'oer', 'jer', 'xer', 'gser']

RECURSIVE = '''
Tree ::= SEQUENCE { v INTEGER (0..255), kids SEQUENCE OF Tree OPTIONAL }
Shared ::= SEQUENCE { a Leaf, b Leaf DEFAULT 3, c SEQUENCE (SIZE(0..3)) OF Leaf }
Leaf ::= INTEGER (0..10)
'''

# kinds outside the generator's universe whose codecs share module-level helpers (OBJECT IDENTIFIER sub-identifiers,
# REAL, time strings, named bits): small value pools, so that the same sub-values recur within one sequence
EXOTIC = '''
Oid ::= OBJECT IDENTIFIER
Re ::= REAL
Ut ::= UTCTime
Gt ::= GeneralizedTime
Nb ::= BIT STRING { a(0), b(1), c(5) }
Bs ::= BMPString
Us ::= UniversalString
Mix ::= SEQUENCE { o Oid, r Re OPTIONAL, s SET OF Oid, n Nb DEFAULT {a}, t Ut OPTIONAL }
Nl ::= SEQUENCE { a NULL, b SEQUENCE OF NULL, c CHOICE { n NULL, f BOOLEAN }, d NULL OPTIONAL, e BOOLEAN }
Bd ::= SEQUENCE { f BIT STRING DEFAULT '101'B, g BIT STRING (SIZE (5)) DEFAULT '10100'B, o OCTET STRING DEFAULT 'AB'H, h BIT STRING OPTIONAL }
'''
OIDS = ['2.999.3', '2.999.4.1', '1.3.1079', '2.100.5', '1.2.840.113549.1.1', '2.5.4.3', '0.9.2342', '2.999', '1.3.6.1.4.1.128.300', '2.48.1.1']
REALS = [0.0, 1.5, -2.25, 1e10, 1e-300, 1.7976931348623157e308, 5e-324, float('inf'), float('-inf'), 3.0, 0.1]
TIMES = [datetime.datetime(2020, 1, 2, 3, 4, 5), datetime.datetime(1999, 12, 31, 23, 59, 59), datetime.datetime(2038, 1, 19, 3, 14, 7)]
NBS = [(b'\x80', 1), (b'\x04', 6), (b'\xc4', 6), (b'', 0), (b'\x80\x00', 9)]
TEXTS = ['', 'ab', 'x\u00e5\u4e2d', 'abcdefghijklmnop' * 9]


class Pool:
    """value source with the interface of Gen.value for the fixed exotic types"""

    def __init__(self, rng):
        self.rng = rng

    def value(self, t):
        r = self.rng
        if t == 'Oid':
            return r.choice(OIDS)
        if t == 'Re':
            return r.choice(REALS)
        if t in ('Ut', 'Gt'):
            return r.choice(TIMES)
        if t == 'Nb':
            return r.choice(NBS)
        if t in ('Bs', 'Us'):
            return r.choice(TEXTS)
        if t == 'Bd':
            # MUTABLE inputs (bytearray) of exactly the needed length with junk in the unused bits: encode must not touch them
            v = {}
            if r.random() < 0.8:
                v['f'] = r.choice([(bytearray(b'\xbf'), 3), (bytearray(b'\xa0'), 3), (bytearray(b'\xff\x81'), 9), (b'\xa7', 3)])
            if r.random() < 0.6:
                v['g'] = r.choice([(bytearray(b'\xa7'), 5), (bytearray(b'\xa0'), 5), (bytearray(b'\x17'), 5)])
            if r.random() < 0.5:
                v['o'] = r.choice([bytearray(b'\xab'), bytearray(b'\x01\x02'), b'\xab'])
            if r.random() < 0.4:
                v['h'] = r.choice([(bytearray(b'\xff'), 1), (bytearray(b'\x0f\xff'), 12)])
            return v
        if t == 'Nl':
            v = {'a': None, 'b': [None] * r.randrange(3), 'c': r.choice([('n', None), ('f', True)]), 'e': r.random() < 0.5}
            if r.random() < 0.5:
                v['d'] = None
            return v
        v = {'o': r.choice(OIDS), 's': [r.choice(OIDS) for _ in range(r.randrange(4))]}
        if r.random() < 0.5:
            v['r'] = r.choice(REALS)
        if r.random() < 0.5:
            v['n'] = r.choice(NBS)
        if r.random() < 0.5:
            v['t'] = r.choice(TIMES)
        return v


class Pristine:
    """The oracle "the same call made alone on a freshly compiled specification": a server process forked before this
    run made any encode/decode call; for every call it forks a child that compiles the module text and makes that single
    call.  State kept outside the Specification (module-level caches, class attributes) therefore cannot leak from the
    sequence under test into the oracle."""

    def __init__(self):
        import multiprocessing as mp
        mctx = mp.get_context('fork')
        self.conn, child = mctx.Pipe()
        self.proc = mctx.Process(target=Pristine._serve, args=(child,), daemon=True)
        self.proc.start()
        child.close()

    @staticmethod
    def _one(text, codec, op):
        r, w = os.pipe()
        pid = os.fork()
        if pid == 0:
            try:
                os.close(r)
                import asn1tools
                try:
                    res = do(asn1tools.compile_string(text, codec), op)
                except BaseException as e:
                    res = ('err', 'oracle:' + type(e).__name__, str(e)[:100])
                with os.fdopen(w, 'wb') as f:
                    f.write(pickle.dumps(res))
            finally:
                os._exit(0)
        os.close(w)
        return pid, r

    @staticmethod
    def _serve(conn):
        while True:
            try:
                req = conn.recv()
            except EOFError:
                break
            if req is None:
                break
            text, codec, ops = req
            out = []
            width = 12
            for k in range(0, len(ops), width):
                running = [Pristine._one(text, codec, op) for op in ops[k:k + width]]
                for pid, r in running:
                    with os.fdopen(r, 'rb') as f:
                        data = f.read()
                    os.waitpid(pid, 0)
                    try:
                        out.append(pickle.loads(data))
                    except Exception:
                        out.append(('err', 'oracle:died', ''))
            conn.send(out)

    def results(self, text, codec, ops):
        self.conn.send((text, codec, ops))
        return self.conn.recv()

    def close(self):
        try:
            self.conn.send(None)
        except Exception:
            pass
        self.proc.join(10)


def reachable(root):
    """all objects reachable from root through instance attributes, dicts, lists, tuples"""
    seen = {}
    stack = [root]
    while stack:
        o = stack.pop()
        if id(o) in seen or isinstance(o, (str, bytes, int, float, bool, type(None), type)):
            continue
        seen[id(o)] = o
        if isinstance(o, dict):
            stack.extend(o.keys())
            stack.extend(o.values())
        elif isinstance(o, (list, tuple, set, frozenset)):
            stack.extend(o)
        elif hasattr(o, '__dict__'):
            stack.extend(vars(o).values())
    return seen


def fingerprint(root):
    """canonical structural description of the object graph (cycles by first-visit numbering)"""
    num = {}
    out = []

    def walk(o):
        if isinstance(o, (str, bytes, int, float, bool, type(None))):
            return repr(o)
        if isinstance(o, bytearray):
            return 'ba' + repr(bytes(o))
        if isinstance(o, type) or callable(o) and not hasattr(o, '__dict__'):
            return 'callable:' + getattr(o, '__name__', '?')
        if id(o) in num:
            return '#%d' % num[id(o)]
        num[id(o)] = len(num)
        if isinstance(o, dict):
            items = sorted((walk(k), walk(v)) for k, v in o.items())
            return '{' + ','.join('%s:%s' % kv for kv in items) + '}'
        if isinstance(o, (list, tuple)):
            return '[' + ','.join(walk(x) for x in o) + ']'
        if isinstance(o, (set, frozenset)):
            return 's[' + ','.join(sorted(walk(x) for x in o)) + ']'
        if hasattr(o, '__dict__'):
            return type(o).__name__ + '(' + ','.join('%s=%s' % (k, walk(v)) for k, v in sorted(vars(o).items())) + ')'
        return 'obj:' + type(o).__name__
    return walk(root)


class WriteMonitor:
    def __init__(self, objs):
        self.ids = set(objs)
        self.writes = []
        self.active = False
        self.patched = {}
        classes = {type(o) for o in objs.values() if hasattr(o, '__dict__') and type(o).__module__.startswith('asn1tools')}
        for cls in classes:
            orig_set = cls.__setattr__
            orig_del = cls.__delattr__
            mon = self

            def make(orig_set, orig_del):
                def setter(obj, name, value):
                    if mon.active and id(obj) in mon.ids:
                        mon.writes.append((type(obj).__name__, name))
                    orig_set(obj, name, value)

                def deleter(obj, name):
                    if mon.active and id(obj) in mon.ids:
                        mon.writes.append((type(obj).__name__, 'del ' + name))
                    orig_del(obj, name)
                return setter, deleter
            s, d = make(orig_set, orig_del)
            self.patched[cls] = (cls.__dict__.get('__setattr__'), cls.__dict__.get('__delattr__'))
            cls.__setattr__ = s
            cls.__delattr__ = d

    def close(self):
        for cls, (s, d) in self.patched.items():
            for name, orig in (('__setattr__', s), ('__delattr__', d)):
                if orig is None:
                    try:
                        delattr(cls, name)
                    except AttributeError:
                        pass
                else:
                    setattr(cls, name, orig)


def make_ops(rng, spec, types, n):
    """ops: ('enc', name, value) / ('dec', name, bytes)"""
    ops = []
    for _ in range(n):
        name, t, g = rng.choice(types)
        v = g.value(t) if t is not None else g
        kind = rng.random()
        if kind < 0.35:
            ops.append(('enc', name, v))
        elif kind < 0.5:
            ops.append(('enc', name, {'zz': 1} if rng.random() < 0.5 else None))        # invalid value
        else:
            r = impl.encode(spec, name, v)
            if r[0] != 'ok':
                ops.append(('enc', name, v))
                continue
            data = r[1]
            k2 = rng.random()
            if k2 < 0.5:
                ops.append(('dec', name, data))
            elif k2 < 0.8 and len(data) > 0:
                ops.append(('dec', name, data[:rng.randrange(len(data))]))         # truncated
            else:
                b = bytearray(data or b'\x00')
                b[rng.randrange(len(b))] ^= 1 << rng.randrange(8)
                ops.append(('dec', name, bytes(b)))                                  # corrupted
    return ops


def do(spec, op):
    kind, name, arg = op
    if kind.startswith('enc@'):
        r = impl.encode(spec, name, arg, limit=20, indent=int(kind[4:]))      # text codecs: pretty-printed output
    elif kind == 'enc':
        r = impl.encode(spec, name, arg, limit=20)
    else:
        r = impl.decode(spec, name, arg, limit=20)
    if r[0] == 'ok':
        return ('ok', repr(r[1]))
    return ('err', r[1], r[2].split(' (')[0][:120])


def run(ctx):
    import asn1tools
    rng = ctx.rng
    ctx.assumptions += ['CPython GIL / bytecode atomicity is not modelled: the theorem needs only that shared objects are never written, which is monitored, not proved',
                        'oracle = the same call made alone on a freshly compiled specification in a freshly forked process (forked from a server that never encodes or decodes)']
    ctx.extra['rule'] = ('modules with a recursive type, a sub-type shared by several members, and generated reorganised types (type references) x 8 codecs; '
                         'op sequences (encode valid/invalid, decode valid/truncated/corrupted) of length %s; distinct = distinct (module, codec, op)' % ('<=30' if ctx.quick() else '<=50'))
    nmod = ctx.n(16, 150)
    pristine = Pristine()
    for mi in range(nmod):
        g = Gen(rng, Opts(max_depth=2, allow_exotic=0.0))
        t = g.type()
        rc = RefCtx(rng, p_type=0.5)
        text = module_text([('A', t)], ctx=rc).replace('END\n', RECURSIVE + EXOTIC + 'END\n')
        codec = CODECS[mi % len(CODECS)] if ctx.quick() else rng.choice(CODECS)
        try:
            spec = asn1tools.compile_string(text, codec)
        except Exception as e:
            ctx.count('compile.' + type(e).__name__)
            continue
        tree = {'v': 1, 'kids': [{'v': 2}, {'v': 3, 'kids': [{'v': 4}]}]}
        shared = {'a': 1, 'c': [2, 3]}
        pool = Pool(rng)
        types = [('A', t, g), ('Tree', None, tree), ('Shared', None, shared)] + [(n, n, pool) for n in ('Oid', 'Oid', 'Mix', 'Mix', 'Re', 'Ut', 'Gt', 'Nb', 'Bs', 'Us', 'Nl', 'Nl', 'Bd', 'Bd')]
        ops = make_ops(rng, spec, types, ctx.n(30, 50))
        if codec == 'gser':
            ops = [op for op in ops if op[0] == 'enc'] or [('enc', 'Tree', tree)]
        if codec in ('jer', 'xer', 'gser'):
            # the same call with and without pretty-printing, interleaved: layout must not leave anything behind in the specification
            ops = [(('enc@%d' % rng.choice([0, 2, 4])) if op[0] == 'enc' and rng.random() < 0.5 else op[0], op[1], op[2]) for op in ops]
        # oracle: every op alone on a fresh specification
        oracle = pristine.results(text, codec, ops)
        if any(o[0] == 'err' and o[1].startswith('oracle:') for o in oracle):
            raise RuntimeError('oracle process failed: %r' % ([o for o in oracle if o[0] == 'err' and o[1].startswith('oracle:')][:2],))
        objs = reachable(spec)
        mon = WriteMonitor(objs)
        try:
            fp0 = fingerprint(spec)
            # sequential run with write monitoring and fingerprints
            for i, op in enumerate(ops):
                arg_before = copy.deepcopy(op[2])
                mon.active = True
                res = do(spec, op)
                mon.active = False
                ctx.case((text, codec, op[0], op[1], repr(op[2])[:200]))
                ctx.count('%s.%s' % (op[0], res[0] if res[0] == 'ok' else res[1].split(':')[0]))
                if mon.writes:
                    ctx.violation('%s: %s writes to the compiled specification (%s)' % (codec, op[0], sorted(set(mon.writes))[:4]),
                                  {'module': text, 'codec': codec, 'op': repr(op)[:600], 'writes': sorted(set(mon.writes))[:20]})
                    mon.writes = []
                if res != oracle[i]:
                    ctx.violation('%s: call %d of a sequence gives a different result than the same call on a fresh specification' % (codec, i),
                                  {'module': text, 'codec': codec, 'ops': [repr(o)[:300] for o in ops[:i + 1]], 'got': res, 'alone': oracle[i]})
                if op[0].startswith('enc') and repr(op[2]) != repr(arg_before):
                    ctx.violation('%s: encode modified its input value' % codec, {'module': text, 'before': repr(arg_before)[:500], 'after': repr(op[2])[:500]})
            fp1 = fingerprint(spec)
            if fp1 != fp0:
                ctx.violation('%s: the compiled specification changed during a sequence of encode/decode calls' % codec,
                              {'module': text, 'codec': codec, 'ops': [repr(o)[:200] for o in ops]})
            # threaded run
            nthreads = rng.choice([1, 2, 4, 8])
            results = [None] * len(ops)
            old = sys.getswitchinterval()
            sys.setswitchinterval(rng.choice([1e-6, 1e-5, 1e-4]))

            def worker(k):
                for i in range(k, len(ops), nthreads):
                    if oracle[i][0] == 'err' and oracle[i][1] == 'Timeout':
                        results[i] = oracle[i]      # a call that does not terminate alone is C08's business
                        continue
                    kind, name, arg = ops[i]
                    try:
                        if kind.startswith('enc@'):
                            results[i] = ('ok', repr(bytes(spec.encode(name, arg, indent=int(kind[4:])))))
                        elif kind == 'enc':
                            results[i] = ('ok', repr(bytes(spec.encode(name, arg))))
                        else:
                            results[i] = ('ok', repr(spec.decode(name, arg)))
                    except Exception as e:
                        results[i] = ('err', impl.classify(e), str(e).split(' (')[0][:120])
            mon.active = True
            threads = [threading.Thread(target=worker, args=(k,)) for k in range(nthreads)]
            for th in threads:
                th.start()
            for th in threads:
                th.join(120)
            mon.active = False
            sys.setswitchinterval(old)
            for i, (res, exp) in enumerate(zip(results, oracle)):
                ctx.case((text, codec, 'thr', i, nthreads))
                if res != exp:
                    ctx.violation('%s: under %d threads call %d differs from the same call alone' % (codec, nthreads, i),
                                  {'module': text, 'codec': codec, 'op': repr(ops[i])[:400], 'got': res, 'alone': exp})
            if mon.writes:
                ctx.violation('%s: writes to the compiled specification under threads (%s)' % (codec, sorted(set(mon.writes))[:4]),
                              {'module': text, 'codec': codec, 'writes': sorted(set(mon.writes))[:20]})
            if len(ctx.samples) < 3:
                ctx.sample({'codec': codec, 'objects_monitored': len(objs), 'ops': len(ops), 'threads': nthreads, 'writes': 0,
                            'first_ops': [repr(o)[:80] for o in ops[:3]]})
            ctx.count('objects_monitored', len(objs))
        finally:
            mon.close()
    pristine.close()


def replay(ctx, path):
    import json
    d = json.load(open(path))['replay']
    print(json.dumps(d, indent=1)[:3000])
