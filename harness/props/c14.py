"""C14 — parsing depends only on the token sequence, not on comments or white-space.

Stage K:
  (a) exact function equality  asn1tools.parser.ignore_comments  ==  Lean Comments.strip
      on random strings over a comment-heavy alphabet and on the fixture corpus;
  (b) the property itself on the implementation: parse_string(text) == parse_string(relayout(text))
      for relayouts that change comments / white-space at token boundaries only;
  (c) error line: a syntax error is reported on the same line for a text and for the same
      text with its comments blanked / removed.
"""
import glob
import os
import re

from .. import core

MULTIWORD = ['BIT STRING', 'OCTET STRING', 'OBJECT IDENTIFIER', 'ANY DEFINED BY', 'EXTENSIBILITY IMPLIED',
             'WITH SYNTAX', 'WITH COMPONENT', 'WITH COMPONENTS', 'WITH SUCCESSORS', 'WITH DESCENDANTS',
             'COMPONENTS OF', 'CONSTRAINED BY', 'CHARACTER STRING', 'SEQUENCE OF', 'SET OF', 'ENCODED BY',
             'EMBEDDED PDV', 'INSTANCE OF', 'TYPE-IDENTIFIER', 'ABSTRACT-SYNTAX', 'IDENTIFIED BY']

ALPHA = ['/', '*', '-', '\n', '"', ' ', 'a', 'B', '\t', 'é', '-', '/', '*']


def impl_strip(s):
    from asn1tools.parser import ignore_comments
    from pyparsing import ParseSyntaxException
    try:
        out = ignore_comments(s)
    except ParseSyntaxException as e:
        kind = 'single' if 'single' in e.msg else 'multi'
        return 'err %s %d' % (kind, e.loc)
    return 'ok (' + ' '.join(str(ord(c)) for c in out) + ')'


def req_strip(s):
    return 'strip\t(' + ' '.join(str(ord(c)) for c in s) + ')'


TOKEN_RE = re.compile(r'''
    (?P<ws>[ \t\r\n]+)
  | (?P<lc>--(?:(?!--|\n).)*(?:--|(?=\n)|\Z))
  | (?P<bc>/\*)
  | (?P<str>"(?:[^"]|"")*")
  | (?P<bh>'[^']*'[BH]?)
  | (?P<punct>::=|\.\.\.|\.\.|\[\[|\]\]|[{}()\[\],;:|^<>=@!&.])
  | (?P<word>[A-Za-z0-9_$#-]+?(?=--|[^A-Za-z0-9_$#-]|\Z))
  | (?P<other>.)
''', re.X | re.S)


def lex(text):
    """Split text into (kind, lexeme) incl. white-space and comments.  Returns None when the
    text uses something this small lexer does not understand (then the file is skipped)."""
    out = []
    i = 0
    n = len(text)
    while i < n:
        m = TOKEN_RE.match(text, i)
        if not m:
            return None
        kind = m.lastgroup
        if kind == 'bc':
            depth = 0
            j = i
            while j < n:
                if text.startswith('/*', j):
                    depth += 1
                    j += 2
                elif text.startswith('*/', j):
                    depth -= 1
                    j += 2
                    if depth == 0:
                        break
                else:
                    j += 1
            if depth != 0:
                return None
            out.append(('comment', text[i:j]))
            i = j
            continue
        if kind == 'lc':
            out.append(('comment', m.group(0)))
        elif kind == 'other':
            return None
        else:
            out.append((kind, m.group(0)))
        i = m.end()
    return out


def random_comment(rng):
    body = ''.join(rng.choice(['x', ' ', 'INTEGER', '::=', '{', '"', "'", 'OCTET', '*', '/', '-'])
                   for _ in range(rng.randint(0, 6)))
    k = rng.randint(0, 3)
    if k == 0:
        return '--' + body.replace('--', '- -').replace('\n', ' ').rstrip('-') + '\n'
    if k == 1:
        b = body.replace('--', '- -').replace('\n', ' ').strip('-')
        return '-- ' + b + ' --'
    if k == 2:
        return '/*' + body.replace('/*', '/ *').replace('*/', '* /').strip('/').strip('*') + ' */'
    inner = body.replace('/*', '/ *').replace('*/', '* /').strip('/').strip('*')
    return '/* a /* ' + inner + ' */ \n b */'


def relayout(toks, rng, touch_multiword):
    """Produce a text with the same lexical items: rewrite white-space runs and comments."""
    out = []
    n = len(toks)
    for idx, (kind, lexeme) in enumerate(toks):
        if kind in ('ws', 'comment'):
            prev_word = toks[idx - 1][1] if idx > 0 else ''
            next_word = toks[idx + 1][1] if idx + 1 < n else ''
            in_multi = any((prev_word + ' ' + next_word) == kw or kw.startswith(prev_word + ' ' + next_word + ' ')
                           or kw.endswith(' ' + prev_word + ' ' + next_word) for kw in MULTIWORD)
            if in_multi and not touch_multiword:
                out.append(lexeme if kind == 'ws' else ' ')
                continue
            r = rng.random()
            if kind == 'comment':
                # drop / replace the comment (keep a separator)
                out.append(rng.choice([' ', '\n', random_comment(rng) + ' ', ' ' + lexeme + ' ' if not lexeme.startswith('--') else lexeme + '\n']))
            elif r < 0.35:
                out.append(lexeme)
            elif r < 0.55:
                out.append(rng.choice([' ', '\n', '\t', '  ', ' \n ', '\r\n']))
            else:
                out.append(' ' + random_comment(rng) + ' ')
        else:
            out.append(lexeme)
            # optionally insert layout where none exists, only next to self-delimiting punctuation
            if idx + 1 < n and toks[idx + 1][0] not in ('ws', 'comment'):
                nxt = toks[idx + 1]
                if (kind == 'punct' and lexeme in '{},()') or (nxt[0] == 'punct' and nxt[1] in '{},()'):
                    if rng.random() < 0.2:
                        out.append(rng.choice([' ', '\n', ' ' + random_comment(rng) + ' ']))
    return ''.join(out)


def parse_outcome(text):
    import asn1tools
    try:
        with core.time_limit(120):
            return ('ok', asn1tools.parse_string(text))
    except asn1tools.ParseError as e:
        m = re.match(r'Invalid ASN.1 syntax at line (\d+), column (\d+)', str(e))
        return ('ParseError', (int(m.group(1)), int(m.group(2))) if m else str(e)[:60])
    except core.Timeout:
        raise
    except Exception as e:  # foreign exception
        return ('Foreign:' + type(e).__name__, str(e)[:80])


def run(ctx):
    rng = ctx.rng
    ctx.assumptions += [
        'pyparsing grammar above the comment pre-pass is not modelled: its layout independence is checked by metamorphic parsing only',
        'relayouts are produced by the harness lexer (harness/props/c14.py: lex); texts it cannot lex are skipped and counted',
    ]
    ctx.extra['rule'] = ('(a) random strings over the alphabet %r, length 0..40, plus fixture files: implementation ignore_comments '
                         'output/err offset must equal the Lean model; distinct = distinct strings containing at least one comment token. '
                         '(b) fixture and generated modules x random relayouts (white-space/comment rewrites at token boundaries): parse results must be equal. '
                         '(c) injected syntax errors: reported line must be invariant under blanking/removing comments.' % (ALPHA,))
    # ---------------- (a) stripper == model
    n_rand = ctx.n(6000, 150000)
    strings = []
    for i in range(n_rand):
        ln = rng.randint(0, 40) if rng.random() < 0.9 else rng.randint(40, 300)
        strings.append(''.join(rng.choice(ALPHA) for _ in range(ln)))
    files = sorted(glob.glob(os.path.join(core.REPO, 'tests/files/**/*.asn'), recursive=True))
    file_texts = []
    for f in files:
        try:
            t = open(f, encoding='utf-8', errors='replace').read()
        except OSError:
            continue
        file_texts.append((f, t))
    small = [t for _, t in file_texts if len(t) < ctx.n(60000, 10 ** 7)]
    strings += small
    answers = ctx.model.batch([req_strip(s) for s in strings])
    for s, ans in zip(strings, answers):
        got = impl_strip(s)
        nontriv = any(t in s for t in ('--', '/*', '*/', '"'))
        ctx.case(('strip', s), nontrivial=nontriv)
        ctx.count('strip.' + got.split(' ')[0] + ('.' + got.split(' ')[1] if got.startswith('err') else ''))
        if got != ans:
            # the model is proved to keep new-lines, length and string literals: find out whether
            # the implementation breaks the property itself on this input
            bad = None
            if got.startswith('ok'):
                out = ''.join(chr(int(x)) for x in got[4:-1].split())
                if len(out) != len(s) or [c == '\n' for c in out] != [c == '\n' for c in s]:
                    bad = 'blanked text moves new-lines/offsets (error lines would refer to another text)'
                elif any(o != c and o != ' ' for o, c in zip(out, s)):
                    bad = 'blanked text changes a non-comment character'
            if bad is None and ans.startswith('ok') != got.startswith('ok'):
                bad = 'comment pre-pass accepts/rejects differently from the X.680 comment rules (model)'
            if bad is None and ans.startswith('ok'):
                bad = 'comment pre-pass blanks different characters than the X.680 comment rules (model): text inside a string literal or outside a comment is altered, or a comment survives'
            if bad:
                ctx.violation('ignore_comments: ' + bad, {'text': s, 'impl': got, 'model': ans})
            else:
                ctx.disagreement('corr.c14.strip', {'text': s, 'impl': got, 'model': ans})
        elif len(ctx.samples) < 2 and nontriv and len(s) < 40:
            ctx.sample({'op': 'strip', 'text': s, 'impl': got, 'model': ans})
    # ---------------- (b) metamorphic parsing
    import asn1tools
    cands = [(f, t) for f, t in file_texts if len(t) < ctx.n(9000, 400000)]
    rng.shuffle(cands)
    cands = cands[:ctx.n(14, 60)]
    from ..gen import gen_module_text
    for i in range(ctx.n(25, 300)):
        cands.append(('generated:%d' % i, gen_module_text(rng)))
    nvar = ctx.n(4, 12)
    skipped = 0
    for f, text in cands:
        toks = lex(text)
        if toks is None:
            skipped += 1
            continue
        base = parse_outcome(text)
        for k in range(nvar):
            touch = (k == nvar - 1)
            variant = relayout(toks, rng, touch_multiword=touch)
            if lex(variant) is None or [t for t in lex(variant) if t[0] not in ('ws', 'comment')] != \
                    [t for t in toks if t[0] not in ('ws', 'comment')]:
                ctx.count('relayout.rejected_by_lexer')
                continue
            got = parse_outcome(variant)
            ctx.case(('relayout', variant))
            ctx.count('relayout.' + base[0])
            if got != base:
                if base[0] == 'ParseError' and got[0] == 'ParseError':
                    # positions legitimately move with the layout; acceptance is what must agree
                    continue
                if touch and is_multiword_finding(toks, variant):
                    ctx.known_finding('C14-multiword-keyword-layout',
                                      'white-space other than one blank (or a comment) between the words of a multi-word keyword changes acceptance')
                    continue
                ctx.violation('parse result depends on layout/comments', {
                    'file': f, 'original': text if len(text) < 4000 else text[:4000] + '...',
                    'variant': variant if len(variant) < 6000 else variant[:6000] + '...',
                    'base': repr(base)[:300], 'got': repr(got)[:300]})
            elif len(ctx.samples) < 4 and len(variant) < 300:
                ctx.sample({'op': 'relayout', 'variant': variant, 'same_parse': True})
    ctx.count('relayout.skipped_files', skipped)
    # ---------------- (c) error line invariance
    for f, text in cands[:ctx.n(20, 120)]:
        toks = lex(text)
        if toks is None:
            continue
        idxs = [i for i, t in enumerate(toks) if t[0] == 'word']
        if not idxs:
            continue
        for _ in range(ctx.n(2, 6)):
            i = rng.choice(idxs)
            broken = toks[:i] + [('word', '?!?')] + toks[i + 1:]
            t1 = ''.join(l for _, l in broken)
            # same text with every comment blanked (new-lines kept) and with comments deleted
            t2 = ''.join(re.sub(r'[^\n]', ' ', l) if k == 'comment' else l for k, l in broken)
            t3 = ''.join(('\n' * l.count('\n') + ' ') if k == 'comment' else l for k, l in broken)
            r1, r2, r3 = parse_outcome(t1), parse_outcome(t2), parse_outcome(t3)
            ctx.case(('errline', t1))
            ctx.count('errline.' + r1[0])
            if r1[0] == 'ParseError' and r2[0] == 'ParseError' and r3[0] == 'ParseError' \
                    and isinstance(r1[1], tuple) and isinstance(r2[1], tuple) and isinstance(r3[1], tuple):
                if r1[1] != r2[1] or r1[1][0] != r3[1][0]:
                    ctx.violation('syntax error line depends on comments', {
                        'text': t1[:3000], 'with_comments': r1, 'comments_blanked': r2, 'comments_removed': r3})
            elif (r1[0], r2[0], r3[0]) != (r1[0],) * 3:
                ctx.violation('acceptance depends on comments', {'text': t1[:3000], 'r': [r1[0], r2[0], r3[0]]})
            # the same tokens on the same lines with other horizontal white-space (tabs for blanks, wider blanks): same line reported
            def ws_variant(f):
                # (white-space between the words of a multi-word keyword is left alone: recorded finding C14-multiword-keyword-layout)
                out = []
                for idx, (k, l) in enumerate(broken):
                    if k == 'ws':
                        pw = broken[idx - 1][1] if idx > 0 else ''
                        nw = broken[idx + 1][1] if idx + 1 < len(broken) else ''
                        if any((pw + ' ' + nw) == kw or kw.startswith(pw + ' ' + nw + ' ') or kw.endswith(' ' + pw + ' ' + nw) for kw in MULTIWORD):
                            out.append(l)
                        else:
                            out.append(f(l))
                    else:
                        out.append(l)
                return ''.join(out)
            t4 = ws_variant(lambda l: l.replace(' ', '\t'))
            t5 = ws_variant(lambda l: l.replace(' ', '   ').replace('\t', ' \t'))
            for label, tv in (('tabs for blanks', t4), ('wider blanks', t5)):
                rv = parse_outcome(tv)
                ctx.case(('errline-ws', tv))
                if r1[0] == 'ParseError' and rv[0] == 'ParseError' and isinstance(r1[1], tuple) and isinstance(rv[1], tuple):
                    if r1[1][0] != rv[1][0]:
                        ctx.violation('syntax error line depends on the horizontal white-space between the items (%s)' % label,
                                      {'text': t1[:3000], 'variant': tv[:3000], 'reported': r1, 'variant_reported': rv})
                elif rv[0] != r1[0]:
                    ctx.violation('acceptance depends on the horizontal white-space between the items (%s)' % label, {'text': t1[:3000], 'variant': tv[:3000], 'r': [r1[0], rv[0]]})
    # ---------------- (d) parse_files == parse_string: files ending without a new-line, ending in a comment, several files
    import tempfile
    import shutil
    import asn1tools
    tmp = tempfile.mkdtemp(prefix='c14-')
    try:
        for j, (f, text) in enumerate(cands[:ctx.n(30, 200)]):
            base = parse_outcome(text)
            # (the additions start on a line of their own: the last line of the text may itself be a `--` comment, which a second `--` would END)
            endings = [text.rstrip('\n'), text.rstrip('\n') + '\n -- trailing comment', text.rstrip('\n') + '\n /* c */', text + '\n\n', text.rstrip('\n') + '\n -- a -- ']
            for k, variant_text in enumerate(endings):
                pth = os.path.join(tmp, 'f%d_%d.asn' % (j, k))
                with open(pth, 'w', encoding='utf-8') as fh:
                    fh.write(variant_text)
                try:
                    with core.time_limit(120):
                        got = ('ok', asn1tools.parse_files([pth]))
                except asn1tools.ParseError as e:
                    got = ('ParseError', str(e)[:80])
                except Exception as e:
                    got = ('Foreign:' + type(e).__name__, str(e)[:80])
                ctx.case(('parse_files', variant_text))
                ctx.count('parse_files.' + got[0])
                if got[0] != base[0] or (got[0] == 'ok' and got[1] != base[1]):
                    ctx.violation('parse_files result depends on how the file ends (trailing new-line / comment)',
                                  {'file_content': variant_text[-400:], 'ending_variant': k, 'parse_string': repr(base)[:200], 'parse_files': repr(got)[:200]})
        # several files: a file that holds only white-space and / or comments has no lexical items at all — adding it anywhere in
        # the list, or changing what is inside its comments, must change nothing
        fillers = ['', ' \n\t\n', '-- notes only\n', '/* block\n   comment */', '  -- a -- -- b\n/* c /* nested */ */\n', '--', '/**/ -- x']
        for j, (f, text) in enumerate(cands[:ctx.n(12, 80)]):
            base = parse_outcome(text)
            main = os.path.join(tmp, 'm%d.asn' % j)
            with open(main, 'w', encoding='utf-8') as fh:
                fh.write(text)
            for k, filler in enumerate(fillers):
                note = os.path.join(tmp, 'n%d_%d.asn' % (j, k))
                with open(note, 'w', encoding='utf-8') as fh:
                    fh.write(filler)
                for order in ([main, note], [note, main], [note, main, note]):
                    try:
                        with core.time_limit(120):
                            got = ('ok', asn1tools.parse_files(order))
                    except asn1tools.ParseError as e:
                        got = ('ParseError', str(e)[:80])
                    except Exception as e:
                        got = ('Foreign:' + type(e).__name__, str(e)[:80])
                    ctx.case(('parse_files-filler', text, filler, len(order), order[0] == note))
                    ctx.count('parse_files.filler.' + got[0])
                    if got[0] != base[0] or (got[0] == 'ok' and got[1] != base[1]):
                        ctx.violation('parse_files: adding a file that contains only white-space / comments changes the result',
                                      {'main_file': text[-300:], 'extra_file_content': filler, 'order': [os.path.basename(x) for x in order],
                                       'parse_string_of_main': repr(base)[:200], 'parse_files': repr(got)[:200]})
    finally:
        shutil.rmtree(tmp, ignore_errors=True)
    # witnesses of the known finding are replayed on the real code every run
    w = 'A DEFINITIONS ::= BEGIN X ::= OCTET  STRING END'
    r = parse_outcome(w)
    if r[0] == 'ok':
        ctx.notes.append('stale finding: C14-multiword-keyword-layout no longer reproduces on %r' % w)
    else:
        ctx.known_finding('C14-multiword-keyword-layout', 'witness %r rejected (%s)' % (w, r[0]))


def is_multiword_finding(toks, variant):
    """True iff the variant changed the layout between two words of a multi-word keyword (token based: a regular expression over
    the text backtracks exponentially on long runs of comments)."""
    vt = lex(variant)
    if vt is None:
        return False
    words = [i for i, t in enumerate(vt) if t[0] not in ('ws', 'comment')]
    for kw in MULTIWORD:
        parts = kw.split(' ')
        for a in range(len(words) - len(parts) + 1):
            idx = words[a:a + len(parts)]
            if [vt[i][1] for i in idx] != parts:
                continue
            for x, y in zip(idx, idx[1:]):
                if ''.join(l for _, l in vt[x + 1:y]) != ' ':
                    return True
    return False


def replay(ctx, path):
    import json
    d = json.load(open(path))['replay']
    if 'text' in d and 'impl' in d:
        s = d['text']
        ans = ctx.model.batch([req_strip(s)])[0]
        got = impl_strip(s)
        print('impl :', got)
        print('model:', ans)
        ctx.case(('strip', s))
        if got != ans:
            ctx.violation('ignore_comments differs from model on replay', d)
    else:
        print(json.dumps(d, indent=1)[:3000])
