"""C09 — generated UPER C code is equivalent to the Python UPER codec and memory-safe.

Stage K (harness/cgen.py):
  K1  helper library: random call sequences that respect the preconditions of the Lean safety theorem are run by
      the helper text the REAL generator emits (gcc -O2, clang ASan+UBSan) and by the Lean model (driver op `cops`):
      the three outputs must be identical (corr.chelpers.uper), the sanitizers silent.
  K2  seeded modules of the documented C subset are translated by asn1tools.source.c.generate, compiled twice
      (gcc -std=c99 -O2 -Wall -Wextra; clang -fsanitize=address,undefined) together with a test driver derived from
      the specification AND the parsed generated header; encode / decode / short buffers / prefixes / mutated inputs
      are compared with the Python UPER codec of the same tree.
  K3  constructs outside the subset must be rejected with asn1tools.errors.Error; what is accepted is evaluated.
Known defects of the generator are attributed by predicates over (type, value) (cgen.FINDINGS, cgen.edge_classify)."""
from .. import cgen

LEVEL = 'proof'


def run(ctx):
    cgen.run_property(ctx, 'uper')


def replay(ctx, path):
    cgen.replay_property(ctx, 'uper', path)
