"""C05 — PER and UPER encodings are bit-exact X.691 (see harness/exact.py for the decision procedure)."""
from .. import exact, impl


def run(ctx):
    ctx.assumptions += ['S (Asn1Model/X691.lean) is an agent-written reading of X.691 clauses 10-27, validated on the Annex A.1/A.4 worked examples present in the repository; '
                        'the deviation "aligned-empty-string-alignment" rests on an uncertain reading and is reported as a finding, never as a violation']
    ctx.extra['rule'] = ('generated modules x 4 boundary-biased values x {uper, per}; implementation bytes vs the Lean specification encoder X691 (S) and the code models Uper/Per (M); '
                         "S's octets fed to the real decoder; distinct = distinct (module, value, codec)")
    exact.run_exact(ctx, 'C05', ['uper', 'per'], {'uper': 'uper', 'per': 'per'},
                    option_devs=('aligned-empty-string-alignment',),
                    con_kinds=('octs', 'kmstr'))      # per/uper honour `Ref (SIZE(..))` for OCTET STRING and known-multiplier strings
    for fid, codec, text, v, std in [
        ('C05-semi-constrained-integer', 'uper', 'M DEFINITIONS AUTOMATIC TAGS ::= BEGIN A ::= INTEGER (3..MAX) END', 3, '0100'),
    ]:
        st, spec = impl.compile_text(text, codec)
        r = impl.encode(spec, 'A', v)
        if r[0] == 'ok' and r[1].hex() == std:
            ctx.notes.append('stale finding: %s no longer reproduces' % fid)
        else:
            ctx.known_finding(fid, 'witness INTEGER (3..MAX) value 3 encodes as %s, X.691 prescribes %s' % (r[1].hex() if r[0] == 'ok' else r[1], std))
    # SET: identical octets whatever the textual order of the (explicitly tagged) components
    from .. import tagged as _tagged
    from ..gen import Gen as _Gen, Opts as _Opts, module_text as _module_text
    _tagged.run_set_order(ctx, 'C05', ctx.rng, ctx.n(50, 600), impl, ['per', 'uper'], _Gen, _Opts, _module_text)
    # permitted-alphabet constraints FROM (...) against an independent reading of the permitted set
    from .. import fromfam as _fromfam
    _fromfam.run(ctx, 'C05', ctx.rng, ctx.n(30, 400), codecs=['per', 'uper'])
    # two extension markers with root components after the second one: X.691 19.6 encodes them as root components
    from .. import twomark as _twomark, samename as _samename
    _twomark.run(ctx, 'C05', ctx.rng, ctx.n(60, 700), ['per', 'uper'])
    # same-named bounds / types imported from different modules: the bits are those of the type written in place
    _samename.run(ctx, 'C05', ctx.rng, ctx.n(4, 40), codecs=['per', 'uper'])
    from .. import scripted as _scripted
    _scripted.set_as_sequence(ctx, ctx.rng, ctx.n(8, 80), ['per', 'uper'])


def replay(ctx, path):
    import json
    d = json.load(open(path))['replay']
    print(json.dumps(d, indent=1)[:3000])
    if isinstance(d, dict) and 'module' in d and 'value' in d:
        st, spec = impl.compile_text(d['module'], d['codec'])
        r = impl.encode(spec, 'A', eval(d['value'], {'inf': float('inf'), 'nan': float('nan')}))
        print('impl now:', r[1].hex() if r[0] == 'ok' else r[1:])
