"""C10 — generated OER C code is equivalent to the Python OER codec and memory-safe; unknown extension additions of a
newer version are skipped, presence flags of known additions are right.

Stage K (harness/cgen.py): K1 helper library correspondence (corr.chelpers.oer, incl. the generation-time
`get_length_determinant_length` against the model's staticLenDetLen); K2 generated modules incl. REAL binary32/64 and
extension additions; version skew (V2 = V1 + additions: Python V2 bytes and V2 generated C bytes decoded by the V1
generated C must give the V1 projection); K3 rejection list; K4 generation-time constants (type_length, value_length,
enumerated value length, preamble / bitmap lengths) against the Python OER codec.
Known defects of the generator are attributed by predicates (cgen.FINDINGS, cgen.edge_classify)."""
from .. import cgen

LEVEL = 'proof'


def run(ctx):
    cgen.run_property(ctx, 'oer')


def replay(ctx, path):
    cgen.replay_property(ctx, 'oer', path)
