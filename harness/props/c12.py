"""C12 — ill-typed or out-of-constraint components are rejected with the exact path.

Stage K: for generated (module, value), every component position x every applicable corruption kind
(wrong Python type, unknown CHOICE alternative, unknown ENUMERATED name, missing mandatory member,
constraint violation) x 8 codecs: encoding with checks enabled must raise EncodeError/ConstraintsError
(never a foreign exception, never bytes) whose text starts with the dotted path of that component.
The type-checker part is compared with the Lean model `TypeCheck.tcheck` (class and path); well-typed
values must pass the type check."""
from .. import core, impl
from ..gen import Gen, Opts, module_text, ty_sx, val_sx, features
from ..codecs import value_tags
from ..mutate import positions, replace, boundary_variants, admits, first_violation_names

CODECS = ['ber', 'der', 'per', 'uper', 'oer', 'jer', 'xer', 'gser']


def py_sx(v):
    if v is None:
        return 'pn'
    if isinstance(v, bool):
        return '(pb %s)' % ('T' if v else 'F')
    if isinstance(v, int):
        return '(pi %d)' % v
    if isinstance(v, float):
        return 'pf'
    if isinstance(v, str):
        return '(ps' + ''.join(' %d' % ord(c) for c in v) + ')'
    if isinstance(v, (bytes, bytearray)):
        return '(py %s)' % (bytes(v).hex() or '-')
    if isinstance(v, tuple):
        return '(pt' + ''.join(' ' + py_sx(x) for x in v) + ')'
    if isinstance(v, list):
        return '(pl' + ''.join(' ' + py_sx(x) for x in v) + ')'
    if isinstance(v, dict):
        return '(pd' + ''.join(' (%s %s)' % (k, py_sx(x)) for k, x in v.items()) + ')'
    raise ValueError(v)


WRONG = {
    # Python objects the type check is specified to reject, per kind (type_checker.py: bool; int or str; None; (bytes, int) tuple with
    # enough data; bytes / bytearray; str; dict; list; (str, value) tuple)
    'bool': [1, 0, 'TRUE', None, (True,), 1.5, [], b'\x01'],
    'null': [0, False, '', (), 'NULL', []],
    'int': [1.5, None, (1,), [1], b'\x01', {}],
    'enum': [5, None, ('a',), 1.5, [], b'a'],
    'octs': ['x', 5, None, (b'a', 8), ('n', None), (), (b'a',), [97], {}],
    'bits': ['x', b'\x80', (b'\x80',), (b'\x80', 1, 0), ('80', 1), (1, 2), None, [b'\x80', 1], (b'\x80', '1')],
    'str': [5, b'x', None, ('a',), (b'x', 3), (), ['a'], {}, 1.5],
    'seq': [[], None, 'x', (), 5, (('a', 1),)],
    'seqof': [{}, None, 'x', (), 5, (1, 2)],
    'choice': ['x', None, 5, [], {}, ('a',), ('a', 1, 2)],
}


def wrong_type(t, rng=None):
    c = WRONG[t['k']]
    return c[0] if rng is None else rng.choice(c)


def same_name_nesting(rng, t, parent=None):
    """with some probability give a member of a nested SEQUENCE (alternative of a nested CHOICE) the name of the member that holds
    it, as in chains like nonCriticalExtension { nonCriticalExtension { ... } }: the reported path must name BOTH levels"""
    k = t['k']
    if k == 'seq':
        ms = t['root'] + (t['ext'] or [])
        if parent and ms and rng.random() < 0.5 and not any(m['name'] == parent for m in ms):
            same_kind = [m for m in ms if m['t']['k'] == 'seq']
            rng.choice(same_kind if same_kind and rng.random() < 0.8 else ms)['name'] = parent
        for m in ms:
            same_name_nesting(rng, m['t'], m['name'] if m['t']['k'] == 'seq' else None)
    elif k == 'choice':
        alts = t['root'] + (t['ext'] or [])
        if parent and alts and rng.random() < 0.4 and not any(n == parent for n, _ in alts):
            i = rng.randrange(len(alts))
            lst = t['root'] if i < len(t['root']) else t['ext']
            j = i if i < len(t['root']) else i - len(t['root'])
            lst[j] = (parent, lst[j][1])
        for n, at in t['root'] + (t['ext'] or []):
            same_name_nesting(rng, at, n if at['k'] == 'choice' else None)
    elif k in ('seqof', 'setof'):
        same_name_nesting(rng, t['elem'], None)


def through_addition(t, path):
    """does the access path pass through an extension addition member / alternative"""
    if not path:
        return False
    k = t['k']
    head, rest = path[0], path[1:]
    if k == 'seqof':
        return through_addition(t['elem'], rest)
    if k == 'seq':
        for m in (t['ext'] or []):
            if m['name'] == head:
                return True
        for m in t['root']:
            if m['name'] == head:
                return through_addition(m['t'], rest)
    if k == 'choice':
        for n, at in (t['ext'] or []):
            if '@' + n == head:
                return True
        for n, at in t['root']:
            if '@' + n == head:
                return through_addition(at, rest)
    return False


def corruptions(rng, t, v):
    """yield (kind, corrupted value, names path expected in the error, 'type'|'codec'|'codec+add')"""
    for kind, cv, names, where, path in _corruptions(rng, t, v):
        if where == 'codec' and through_addition(t, path):
            where = 'codec+add'
        yield kind, cv, names, where


def _corruptions(rng, t, v):
    pos = list(positions(t, v))
    rng.shuffle(pos)
    for path, names, tt, vv in pos[:6]:
        yield 'wrong-python-type', replace(t, v, path, wrong_type(tt)), names, 'type', path
        yield 'wrong-python-type', replace(t, v, path, wrong_type(tt, rng)), names, 'type', path
        k = tt['k']
        if k == 'choice':
            yield 'unknown-alternative', replace(t, v, path, ('zz', None)), names, 'type', path
        if k == 'enum':
            yield 'unknown-enum-name', replace(t, v, path, 'zz'), names, 'codec', path
        if k == 'seq':
            mand = [m for m in tt['root'] if not m['opt'] and m['default'] is None and m['name'] in vv]
            if mand:
                m = rng.choice(mand)
                nv = dict(vv)
                del nv[m['name']]
                yield 'missing-mandatory-member', replace(t, v, path, nv), names, 'codec', path + ('?',)
        if k == 'bits':
            yield 'bits-too-short', replace(t, v, path, (b'', 3)), names, 'type', path


def run(ctx):
    rng = ctx.rng
    ctx.assumptions += ['error text is compared up to the first ": " only (the dotted location), message tails are not compared']
    ctx.extra['rule'] = ('generated types x values x up to 6 random component positions x applicable corruption kinds x 8 codecs; '
                         'distinct = distinct (module, corrupted value, codec)')
    opts = Opts(max_depth=3, allow_exotic=0.0)
    reqs, meta = [], []
    jobs = []
    for i in range(ctx.n(150, 3000)):
        g = Gen(rng, opts)
        t = g.type()
        same_name_nesting(rng, t)
        text = module_text([('A', t)])
        v = g.value(t)
        for _ in range(20):       # the base value must be well-formed: every mandatory component present, also among the additions
            if 'mandatory-addition-missing' not in value_tags(t, v, 'ber'):
                break
            v = g.value(t)
        else:
            continue
        tsx = ty_sx(t)
        # well-typed values are never rejected by the type check
        reqs.append('tcheck\t%s\t%s' % (tsx, py_sx(v)))
        meta.append(('ok', t, text, v, None, None))
        for kind, cv, names, where in corruptions(rng, t, v):
            if where == 'type':
                reqs.append('tcheck\t%s\t%s' % (tsx, py_sx(cv)))
                meta.append((kind, t, text, cv, names, where))
            jobs.append((kind, t, text, cv, names, where))
        for nv, p in boundary_variants(rng, t, v)[:4]:
            if not admits(t, nv):
                jobs.append(('constraint-violation', t, text, nv, first_violation_names(t, nv), 'constraints'))
    answers = ctx.model.batch(reqs)
    for (kind, t, text, v, names, where), ans in zip(meta, answers):
        if kind == 'ok':
            st, spec = impl.compile_text(text, 'ber')
            if st != 'ok':
                continue
            try:
                spec._types['A'].check_types(v)
                got = 'ok'
            except Exception as e:
                got = 'err ' + str(e).split(': ')[0]
            ctx.case(('welltyped', text, repr(v)))
            if got != 'ok':
                ctx.violation('a well-typed value is rejected by the type check', {'module': text, 'value': repr(v), 'impl': got})
            if ans != 'ok':
                ctx.disagreement('model.tcheck rejects a generated value', {'type': ty_sx(t), 'value': py_sx(v)[:300], 'model': ans})
        else:
            expect = 'err ' + '.'.join(('A',) + tuple(names))
            if ans != expect:
                ctx.disagreement('model.tcheck path', {'type': ty_sx(t), 'value': py_sx(v)[:300], 'model': ans, 'expected': expect, 'kind': kind})
    for kind, t, text, v, names, where in jobs:
        expect = '.'.join(('A',) + tuple(names))
        for codec in CODECS:
            st, spec = impl.compile_text(text, codec)
            if st != 'ok':
                ctx.count('compile.' + st)
                continue
            ctx.case((text, repr(v), codec))
            r = impl.encode(spec, 'A', v, check_types=True, check_constraints=True)
            cls = 'bytes' if r[0] == 'ok' else r[1]
            ctx.count('%s.%s' % (kind, cls.split(':')[0]))
            bad = None
            if cls not in ('EncodeError', 'ConstraintsError'):
                bad = 'surfaces as %s instead of the library error' % cls if cls != 'bytes' else 'is encoded to bytes'
            else:
                got = r[2].split(': ')[0]
                if got != expect:
                    bad = 'is reported at %r, expected path %r' % (got, expect)
            if bad:
                if where == 'codec+add' and cls == 'bytes' and codec in ('ber', 'der', 'per', 'uper', 'oer'):
                    ctx.known_finding('C12-addition-error-swallowed', 'an EncodeError raised inside an extension addition is swallowed (`except EncodeError: pass`): bytes are produced')
                    continue
                ctx.violation('%s: %s component %s' % (codec, kind, bad),
                              {'codec': codec, 'module': text, 'value': repr(v), 'kind': kind, 'impl': (r[1:3] if r[0] == 'err' else r[1].hex()), 'expected_path': expect})
            elif len(ctx.samples) < 5 and len(names) >= 2:
                ctx.sample({'codec': codec, 'module': text, 'value': repr(v)[:200], 'kind': kind, 'impl': r[2][:100], 'expected_path': expect})
    # members of different types that share a name and a referenced type (DEFAULT / OPTIONAL / SIZE at the point of use)
    from .. import aliasfam
    aliasfam.run_c12(ctx, ctx.rng, ctx.n(40, 500), impl, CODECS)
    # permitted-alphabet constraints FROM (...) against an independent reading of the permitted set
    from .. import fromfam as _fromfam
    _fromfam.run(ctx, 'C12', ctx.rng, ctx.n(30, 400))
    # named numbers as constraint bounds (the same identifiers name other numbers in another type): class and path as with literal bounds
    from .. import samename as _samename
    _samename.run_named(ctx, 'C12', ctx.rng, ctx.n(6, 60))
    from .. import scripted as _scripted
    _scripted.set_missing_member(ctx, CODECS)


def in_addition(t, v):
    """does the type have extension additions somewhere (errors inside them are swallowed by the codecs)"""
    found = []

    def visit(tt):
        if tt['k'] == 'seq':
            if tt['ext']:
                found.append(1)
            for m in tt['root'] + (tt['ext'] or []):
                visit(m['t'])
        elif tt['k'] == 'seqof':
            visit(tt['elem'])
        elif tt['k'] == 'choice':
            if tt['ext']:
                found.append(1)
            for _, at in tt['root'] + (tt['ext'] or []):
                visit(at)
    visit(t)
    return bool(found)


def replay(ctx, path):
    import json
    d = json.load(open(path))['replay']
    print(json.dumps(d, indent=1)[:2500])
    if isinstance(d, dict) and 'module' in d and 'value' in d and 'codec' in d:
        st, spec = impl.compile_text(d['module'], d['codec'])
        r = impl.encode(spec, 'A', eval(d['value']), check_types=True, check_constraints=True)
        print('impl now:', r[:3] if r[0] == 'err' else r[1].hex())
