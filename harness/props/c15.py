"""C15 — BER/DER framing helpers agree with the decoder on where a message ends.

Stage K:
  (a) synthetic TLVs: tags up to 2^28 in every class, definite lengths 0..70000 in minimal and padded long
      form, random contents and tails; for EVERY prefix length around the header and sampled ones beyond,
      Specification.decode_length(prefix) is compared with the Lean model `Ber.fullLength` and with the
      property itself (== len(msg) once the header is complete, None before);
  (b) typed messages from generated modules (ber, der): decode_with_length(msg + tail) == (decode(msg), len(msg)).
"""
from .. import core, impl
from ..codecs import py_equal
from ..gen import Gen, Opts, module_text

TAGS = [0, 1, 2, 16, 30, 31, 32, 127, 128, 129, 16383, 16384, 2 ** 21 - 1, 2 ** 21, 2 ** 28 - 1, 2 ** 28]
LENS = [0, 1, 2, 126, 127, 128, 129, 255, 256, 257, 1000, 16383, 16384, 65535, 65536, 70000]


def tlv_header(rng, number, cls, constructed, length, pad):
    first = (cls << 6) | (0x20 if constructed else 0)
    if number < 31:
        tag = bytes([first | number])
    else:
        digits = []
        n = number
        while n:
            digits.append(n & 0x7f)
            n >>= 7
        digits.reverse()
        tag = bytes([first | 0x1f] + [d | 0x80 for d in digits[:-1]] + [digits[-1]])
    if length < 128 and pad == 0:
        ln = bytes([length])
    else:
        body = length.to_bytes(max(1, (length.bit_length() + 7) // 8), 'big')
        body = b'\x00' * pad + body
        ln = bytes([0x80 | len(body)]) + body
    return tag, ln


def run(ctx):
    import asn1tools
    rng = ctx.rng
    ctx.assumptions += ['decode_with_length is compared with decode on generated typed messages; its agreement for all types is the subject of C01 (BER model pending)']
    ctx.extra['rule'] = ('synthetic TLV headers: tag numbers %s x 4 classes x primitive/constructed, lengths %s, minimal and 1-3 octet padded long forms, '
                         'random content/tail; every prefix 0..header+2 and sampled longer ones. distinct = distinct (header, prefix length) pairs with a multi-octet tag or length'
                         % (TAGS, LENS))
    spec = asn1tools.compile_string('M DEFINITIONS ::= BEGIN A ::= INTEGER END', 'ber')
    spec_der = asn1tools.compile_string('M DEFINITIONS ::= BEGIN A ::= INTEGER END', 'der')
    reqs, meta = [], []
    nmsg = ctx.n(400, 6000)
    for i in range(nmsg):
        number = rng.choice(TAGS) if rng.random() < 0.7 else rng.randrange(0, 2 ** 28)
        length = rng.choice(LENS) if rng.random() < 0.7 else rng.randrange(0, 3000)
        if ctx.quick() and length > 20000 and rng.random() < 0.7:
            length = rng.choice(LENS[:12])
        pad = rng.choice([0, 0, 0, 1, 2, 3])
        tag, ln = tlv_header(rng, number, rng.randrange(4), rng.random() < 0.5, length, pad)
        content = bytes(rng.getrandbits(8) for _ in range(min(length, 64))) + b'\xaa' * max(0, length - 64)
        tail = bytes(rng.getrandbits(8) for _ in range(rng.choice([0, 0, 1, 5, 40])))
        msg = tag + ln + content
        full = msg + tail
        hdr = len(tag) + len(ln)
        ks = set(range(0, min(len(full), hdr + 3) + 1))
        ks |= {len(msg), len(full), max(0, len(msg) - 1)}
        ks |= {rng.randrange(0, len(full) + 1) for _ in range(4)}
        for k in sorted(ks):
            prefix = full[:k]
            reqs.append('probe\t' + (prefix[:hdr + 8].hex() or '-'))   # the probe only looks at the header
            meta.append((tag, ln, len(msg), k, prefix, hdr))
    answers = ctx.model.batch(reqs)
    for (tag, ln, total, k, prefix, hdr), ans in zip(meta, answers):
        for s in (spec, spec_der):
            try:
                got = s.decode_length(prefix)
                mine = 'unknown' if got is None else 'known %d' % got
            except asn1tools.DecodeError:
                mine = 'indefinite'
            except Exception as e:
                mine = 'Foreign:' + type(e).__name__
            nontrivial = len(tag) > 1 or len(ln) > 1
            ctx.case((tag, ln, k), nontrivial=nontrivial)
            expected = ('known %d' % total) if k >= hdr else 'unknown'
            # the model sees only hdr+8 octets: a MissingData answer is the same number
            ctx.count('probe.' + mine.split(' ')[0])
            if mine != expected:
                ctx.violation('decode_length gives %s for a %d-octet prefix of a message with %d header octets and total length %d'
                              % (mine, k, hdr, total), {'prefix_hex': prefix[:hdr + 8].hex(), 'k': k, 'header': (tag + ln).hex(), 'total': total})
            elif mine != ans:
                ctx.disagreement('corr.c15.probe', {'prefix': prefix[:hdr + 8].hex(), 'impl': mine, 'model': ans})
            elif len(ctx.samples) < 3 and nontrivial and k in (hdr - 1, hdr):
                ctx.sample({'op': 'probe', 'prefix': prefix[:hdr + 8].hex(), 'k': k, 'impl': mine, 'model': ans})
    # (b) typed messages
    opts = Opts(max_depth=2)
    for i in range(ctx.n(120, 2500)):
        g = Gen(rng, opts)
        t = g.type()
        text = module_text([('A', t)])
        for codec in ('ber', 'der'):
            st, sp = impl.compile_text(text, codec)
            if st != 'ok':
                continue
            for _ in range(2):
                v = g.value(t)
                r = impl.encode(sp, 'A', v)
                if r[0] != 'ok':
                    continue
                msg = r[1]
                tail = bytes(rng.getrandbits(8) for _ in range(rng.choice([0, 1, 3, 17])))
                ctx.case(('dwl', msg, tail))
                try:
                    with core.time_limit(10):
                        d1 = sp.decode('A', msg)
                        d2, n = sp.decode_with_length('A', msg + tail)
                except Exception as e:
                    ctx.count('dwl.err.' + type(e).__name__)
                    continue   # failures to decode own output are C01's business
                ctx.count('dwl.ok')
                if n != len(msg) or not py_equal(t, d1, d2):
                    ctx.violation('decode_with_length(msg + tail) differs from (decode(msg), len(msg))',
                                  {'codec': codec, 'module': text, 'msg': msg.hex(), 'tail': tail.hex(), 'length': n, 'expected': len(msg)})
                pl = sp.decode_length(msg + tail)
                if pl != len(msg):
                    ctx.violation('decode_length(msg + tail) != len(msg)', {'codec': codec, 'module': text, 'msg': msg.hex(), 'got': pl})
                if codec != 'ber':
                    continue
                # the same message in other BER forms (padded lengths, segmented strings incl. zero segments, inner indefinite lengths)
                from .. import tlv
                try:
                    node, _ = tlv.parse(msg)
                except Exception:
                    continue
                for forms in (tlv.Forms(pad=0.3, seg=0.8, nest=0.3), tlv.Forms(pad=0.2, seg=0.6, nest=0.2, indef=0.4)):
                    alt = tlv.reser(t, node, True, rng, forms)
                    if alt == msg:
                        continue
                    try:
                        n2, e2 = tlv.parse_any(alt)
                        certified = e2 == len(alt) and tlv.canonical(t, n2) == tlv.canonical(t, node)
                    except Exception:
                        certified = False
                    if not certified:
                        ctx.count('dwl.variant-not-certified')
                        continue
                    ctx.case(('dwl-variant', alt, tail))
                    tail2 = tail if rng.random() < 0.5 else b'\x00\x00' + tail      # (octets that look like end-of-contents right behind the message)
                    try:
                        with core.time_limit(10):
                            d4, n4 = sp.decode_with_length('A', alt + tail2)
                    except Exception as e:
                        ctx.count('dwl.variant.err.' + type(e).__name__)   # acceptance of every valid form is C04's business
                        continue
                    if n4 != len(alt):
                        ctx.violation('decode_with_length(variant + tail) reports another end of the message than the length octets of the variant',
                                      {'codec': codec, 'module': text, 'msg': msg.hex(), 'variant': alt.hex(), 'tail': tail2.hex(), 'length': n4, 'expected': len(alt), 'decoded': repr(d4)[:200]})
                        continue
                    try:
                        with core.time_limit(10):
                            d3 = sp.decode('A', alt)
                    except Exception as e:
                        ctx.count('dwl.variant.err.' + type(e).__name__)
                        continue
                    ctx.count('dwl.variant.ok')
                    if n4 != len(alt) or not py_equal(t, d3, d4) or not py_equal(t, d1, d3):
                        ctx.violation('decode_with_length(variant + tail) differs from (decode(msg), len(variant)) for another BER form of the message',
                                      {'codec': codec, 'module': text, 'msg': msg.hex(), 'variant': alt.hex(), 'tail': tail.hex(), 'length': n4, 'expected': len(alt),
                                       'decode_msg': repr(d1)[:200], 'decode_variant': repr(d3)[:200], 'decode_with_length': repr(d4)[:200]})
                    if alt[len(tlv.parse_tag(alt, 0)[0])] != 0x80:
                        pl = sp.decode_length(alt + tail)
                        if pl != len(alt):
                            ctx.violation('decode_length(variant + tail) != len(variant)', {'codec': codec, 'module': text, 'variant': alt.hex(), 'got': pl})

    # (b') constructed strings with ZERO segments (X.690 8.7.3.2 / 8.21.6: "zero, one or more encodings"): definite length 0 is not "indefinite"
    zs = [('M DEFINITIONS AUTOMATIC TAGS ::= BEGIN A ::= OCTET STRING END', '2400', b''),
          ('M DEFINITIONS AUTOMATIC TAGS ::= BEGIN A ::= OCTET STRING END', '24050401122400', b'\x12'),
          ('M DEFINITIONS AUTOMATIC TAGS ::= BEGIN A ::= IA5String END', '3600', ''),
          ('M DEFINITIONS AUTOMATIC TAGS ::= BEGIN A ::= SEQUENCE { s OCTET STRING, b BOOLEAN } END', '3005a0008101ff', {'s': b'', 'b': True}),
          ('M DEFINITIONS AUTOMATIC TAGS ::= BEGIN A ::= SEQUENCE OF OCTET STRING END', '300724000401412400', [b'', b'A', b''])]
    for text, hx, want in zs:
        st, sp = impl.compile_text(text, 'ber')
        msg = bytes.fromhex(hx)
        for tail in (b'', b'\x00\x00', b'\x04\x01\xaa\x00\x00', b'\xff'):
            ctx.case(('zero-segments', text, hx, tail))
            try:
                with core.time_limit(10):
                    d2, n = sp.decode_with_length('A', msg + tail)
                    pl = sp.decode_length(msg + tail)
            except Exception as e:
                ctx.violation('a constructed string with zero segments followed by %d more octets is not framed (%s)' % (len(tail), type(e).__name__),
                              {'module': text, 'msg': hx, 'tail': tail.hex(), 'error': str(e)[:200]})
                continue
            if n != len(msg) or pl != len(msg) or (want is not None and d2 != want):
                ctx.violation('decode_with_length / decode_length disagree with the length octets on a message that holds a constructed string with zero segments',
                              {'module': text, 'msg': hx, 'tail': tail.hex(), 'decode_with_length': repr((d2, n)), 'decode_length': pl, 'expected_length': len(msg), 'expected_value': repr(want)})

    from .. import scripted
    scripted.choice_unknown_long_tag(ctx)
    # (c) messages of a NEWER version (unknown extension additions / alternatives after known ones): "any valid definite-length
    # encoding" includes those — the receiver's decode_with_length must still report the whole message, whatever it skips inside
    from ..extend import extend, project
    done = 0
    tries = 0
    while done < ctx.n(80, 1500) and tries < 50000:
        tries += 1
        g = Gen(rng, Opts(max_depth=3, allow_exotic=0.0, big_lengths=0.0))
        t1 = g.type()
        t2, nsteps = extend(g, t1, rng.randint(1, 3))
        if nsteps == 0:
            continue
        t3, n2 = extend(g, t2, rng.randint(1, 2))        # V1 knows nothing / V2 knows some / V3 adds more after them
        done += 1
        for rcv_t, snd_t in ((t1, t2), (t2, t3), (t1, t3)):
            rtext, stext = module_text([('A', rcv_t)]), module_text([('A', snd_t)])
            for codec in ('ber', 'der'):
                st1, rcv = impl.compile_text(rtext, codec)
                st2, snd = impl.compile_text(stext, codec)
                if st1 != 'ok' or st2 != 'ok':
                    continue
                for _ in range(2):
                    v = g.value(snd_t)
                    r = impl.encode(snd, 'A', v)
                    if r[0] != 'ok':
                        continue
                    msg = r[1]
                    tail = bytes(rng.getrandbits(8) for _ in range(rng.choice([0, 1, 3, 17])))
                    ctx.case(('dwl-newer', msg, tail, rtext))
                    try:
                        with core.time_limit(10):
                            d1 = rcv.decode('A', msg)
                            d2, n = rcv.decode_with_length('A', msg + tail)
                    except Exception as e:
                        ctx.count('dwl-newer.err.' + type(e).__name__)
                        continue   # C07's business
                    ctx.count('dwl-newer.ok')
                    if n != len(msg) or repr(d1) != repr(d2):
                        ctx.violation('decode_with_length(msg + tail) of a newer version\'s message differs from (decode(msg), len(msg))',
                                      {'codec': codec, 'receiver': rtext, 'sender': stext, 'msg': msg.hex(), 'tail': tail.hex(), 'length': n, 'expected': len(msg),
                                       'decode': repr(d1)[:300], 'decode_with_length': repr(d2)[:300]})
                    pl = rcv.decode_length(msg + tail)
                    if pl != len(msg):
                        ctx.violation('decode_length(msg + tail) != len(msg)', {'codec': codec, 'module': rtext, 'msg': msg.hex(), 'got': pl})


def replay(ctx, path):
    import json
    import asn1tools
    d = json.load(open(path))['replay']
    print(json.dumps(d, indent=1)[:2000])
    if 'prefix_hex' in d:
        spec = asn1tools.compile_string('M DEFINITIONS ::= BEGIN A ::= INTEGER END', 'ber')
        data = bytes.fromhex(d['prefix_hex'])
        print('impl :', spec.decode_length(data))
        print('model:', ctx.model.batch(['probe\t' + (data.hex() or '-')])[0])
