"""C02 — text codecs (JER, XER) round-trip every value and emit well-formed documents.

Stage K, for generated (module, value) with XML-1.0-legal characters, indent in {None, 0, 1, 4}:
  JER: the implementation's bytes must (1) be accepted by the independent RFC 8259 reader written in Lean (`jparse`),
       (2) map back, through the Lean `Jer.ofJson`, to the canonical value (`jdec`), (3) decode with the implementation
       to the same abstract value, (4) equal the Lean model's document byte for byte (`jenc`); the model's document is
       also fed to the real decoder.
  XER: the same four checks with the Lean XML reader / Xer model when the driver has the `xenc/xdec/xparse` ops;
       always: the document is parsed by expat (an independent XML parser) and decodes to the same value.
  REAL (outside the Lean universe): exact IEEE-754 round trip of boundary doubles through both codecs."""
import math
import xml.parsers.expat

from .. import core, impl
from ..codecs import py_equal
from ..gen import Gen, Opts, module_text, ty_sx, val_sx, is_modelled, boundary_cases, ALPHABETS

INDENTS = [None, 0, 1, 4]
REALS = [0.0, 1.0, -1.0, 0.5, 0.1, 1e300, -1e-300, 5e-324, 2.2250738585072014e-308, 1.7976931348623157e308, 123456.789,
         2.0 ** 70, -(2.0 ** -70), 3.141592653589793, 1e22, 1e23, 9007199254740993.0, float('inf'), float('-inf')]


def xml_legal(s):
    return all(c in '\t\n\r' or 0x20 <= ord(c) <= 0xd7ff or 0xe000 <= ord(c) <= 0xfffd or ord(c) >= 0x10000 for c in s)


def strings_ok(t, v, pred):
    k = t['k']
    if v is None:
        return True
    if k == 'str':
        return pred(v)
    if k in ('seqof', 'setof'):
        return all(strings_ok(t['elem'], e, pred) for e in v)
    if k in ('seq', 'set'):
        return all(strings_ok(m['t'], v[m['name']], pred) for m in t['root'] + (t['ext'] or []) if m['name'] in v)
    if k == 'choice':
        for n, a in t['root'] + (t['ext'] or []):
            if n == v[0]:
                return strings_ok(a, v[1], pred)
    return True


def xer_text_safe(s):
    # ElementTree/expat normalise CR and attribute-free text keeps leading/trailing blanks; the property restricts to
    # XML-legal characters; CR cannot round-trip by XML's own end-of-line rules, control characters are not legal
    return xml_legal(s) and '\r' not in s and all(ord(c) >= 0x20 or c in '\t\n' for c in s)


def expat_ok(data):
    p = xml.parsers.expat.ParserCreate()
    try:
        p.Parse(data, True)
        return True
    except xml.parsers.expat.ExpatError:
        return False


def has_group_like_absent_mandatory(t, v):
    from ..codecs import value_tags
    return 'mandatory-addition-missing' in value_tags(t, v, 'jer')


def has_enum(t):
    k = t['k']
    if k == 'enum':
        return True
    if k in ('seqof', 'setof'):
        return has_enum(t['elem'])
    if k in ('seq', 'set'):
        return any(has_enum(m['t']) for m in t['root'] + (t['ext'] or []))
    if k == 'choice':
        return any(has_enum(a) for _, a in t['root'] + (t['ext'] or []))
    return False


def numeric_value(t, v):
    """the same abstract value as it is written for a specification compiled with numeric_enums=True"""
    k = t['k']
    if v is None:
        return v
    if k == 'enum':
        return dict(t['root'] + (t['ext'] or []))[v]
    if k in ('seqof', 'setof'):
        return [numeric_value(t['elem'], e) for e in v]
    if k in ('seq', 'set'):
        ms = {m['name']: m['t'] for m in t['root'] + (t['ext'] or [])}
        return {n: numeric_value(ms[n], x) for n, x in v.items()}
    if k == 'choice':
        for n, a in t['root'] + (t['ext'] or []):
            if n == v[0]:
                return (n, numeric_value(a, v[1]))
    return v


def work_numeric(part, t, text, vals):
    """numeric_enums=True: the documents are those of the name-based specification (the text formats carry names),
    and decoding returns the numbers"""
    for codec in ('jer', 'xer'):
        st, spec = impl.compile_text(text, codec)
        stn, specn = impl.compile_text(text, codec, numeric_enums=True)
        if st != 'ok' or stn != 'ok':
            part.count('numeric.compile.' + stn)
            continue
        for v in vals:
            if codec == 'xer' and not strings_ok(t, v, xer_text_safe):
                continue
            try:
                vn = numeric_value(t, v)
            except KeyError:
                continue
            for indent in (None, 2):
                part.case(('numeric', text, repr(v), codec, indent))
                r0 = impl.encode(spec, 'A', v, indent=indent)
                r = impl.encode(specn, 'A', vn, indent=indent)
                if r0[0] != 'ok':
                    continue
                if r[0] != 'ok' or (codec == 'xer' and r[1] != r0[1]):     # JER writes the numbers themselves; XER has only names
                    part.violation('%s (numeric_enums): the document differs from the one written for the same value with enumeration names' % codec,
                                   {'codec': codec, 'module': text, 'value': repr(vn), 'indent': indent, 'numeric_enums': True,
                                    'document': repr(r[1:])[:1500], 'document_with_names': r0[1].decode('utf-8', 'replace')[:1500]})
                    continue
                d = impl.decode(specn, 'A', r[1])
                d0 = impl.decode(spec, 'A', r0[1])
                if d0[0] != 'ok':
                    continue
                try:
                    want = numeric_value(t, d0[1])
                except KeyError:
                    continue
                if d[0] != 'ok' or not py_equal(t, d[1], want):
                    part.violation('%s (numeric_enums): decoding the document does not give back the value' % codec,
                                   {'codec': codec, 'module': text, 'value': repr(vn), 'indent': indent, 'numeric_enums': True,
                                    'document': r[1].decode('utf-8', 'replace')[:1500], 'decoded': repr(d[1:])[:800], 'expected': repr(want)[:800]})
                else:
                    part.count('%s.numeric_enums.ok' % codec)


def work(job):
    chunk, have_x = job
    part = core.Part()
    model = core.Model()
    reqs, meta = [], []
    for (t, text, vals) in chunk:
        modelled = is_modelled(t)
        tsx = ty_sx(t) if modelled else None
        if has_enum(t):
            work_numeric(part, t, text, vals)
        for codec in ('jer', 'xer'):
            st, spec = impl.compile_text(text, codec)
            if st != 'ok':
                part.count('compile.' + st)
                continue
            for v in vals:
                if codec == 'xer' and not strings_ok(t, v, xer_text_safe):
                    part.count('xer.skipped-not-xml-legal')
                    continue
                for indent in INDENTS:
                    part.case((text, repr(v), codec, indent))
                    r = impl.encode(spec, 'A', v, indent=indent)
                    if r[0] != 'ok':
                        if has_group_like_absent_mandatory(t, v):
                            part.count(codec + '.encode-refused-missing-mandatory-addition')
                            continue
                        part.violation('%s: a checked value is refused by the encoder (%s)' % (codec, r[1]), {'codec': codec, 'module': text, 'value': repr(v), 'indent': indent, 'error': r[2]})
                        continue
                    doc = r[1]
                    d = impl.decode(spec, 'A', doc)
                    if d[0] != 'ok' or not py_equal(t, d[1], v):
                        part.violation('%s: decoding the document does not give back the value' % codec,
                                       {'codec': codec, 'module': text, 'value': repr(v), 'indent': indent, 'document': doc.decode('utf-8', 'replace')[:2000], 'decoded': repr(d[1:])[:800]})
                        continue
                    if codec == 'xer' and not expat_ok(doc):
                        part.violation('xer: the document is not well-formed XML (expat)', {'module': text, 'value': repr(v), 'indent': indent, 'document': doc.decode('utf-8', 'replace')[:2000]})
                        continue
                    part.count('%s.indent=%s.ok' % (codec, indent))
                    if modelled and (codec == 'jer' or have_x):
                        pfx = 'j' if codec == 'jer' else 'x'
                        reqs.append('%sparse\t%s' % (pfx, doc.hex() or '-'))
                        reqs.append('%sdec\t%s\t%s' % (pfx, tsx, doc.hex() or '-'))
                        reqs.append('%senc\t%s\t%s\t%s' % (pfx, tsx, val_sx(t, v), 'none' if indent is None else indent))
                        meta.append((codec, t, text, v, indent, doc, d[1]))
    ans = model.batch(reqs)
    part.count('model_driver_requests', len(reqs))
    for i, (codec, t, text, v, indent, doc, decoded) in enumerate(meta):
        parse, mdec, menc = ans[3 * i], ans[3 * i + 1], ans[3 * i + 2]
        if parse != 'ok':
            part.violation('%s: the document is rejected by the independent %s reader' % (codec, 'RFC 8259 JSON' if codec == 'jer' else 'XML 1.0'),
                           {'codec': codec, 'module': text, 'value': repr(v), 'indent': indent, 'document': doc.decode('utf-8', 'replace')[:2000]})
            continue
        want = 'ok ' + val_sx(t, decoded)
        if mdec != want and not mdec.endswith('unmodelled'):
            # the Lean mapping reads the real document differently from the implementation
            part.disagreement('corr.%s.read_back' % codec, {'module': text, 'value': repr(v)[:300], 'document': doc.decode('utf-8', 'replace')[:600], 'model_reads': mdec[:300], 'impl_reads': want[:300]})
            continue
        mine = 'ok ' + (doc.hex() or '-')
        if menc != mine and not menc.endswith('unmodelled'):
            part.disagreement('corr.%s.encode' % codec, {'module': text, 'value': repr(v)[:300], 'indent': indent, 'impl': doc.decode('utf-8', 'replace')[:400],
                                                         'model': bytes.fromhex(menc[3:]).decode('utf-8', 'replace')[:400] if menc.startswith('ok ') and menc != 'ok -' else menc})
        else:
            part.sample({'codec': codec, 'module': text[:300], 'value': repr(v)[:150], 'indent': indent, 'document': doc.decode('utf-8', 'replace')[:200], 'lean_reader': 'accepts and maps back to the value'}, limit=2)
    return part


def run(ctx):
    rng = ctx.rng
    have_x = ctx.model.batch(['xparse\t3c612f3e'])[0] != 'bad-op'
    ctx.assumptions += ['json.dumps / ElementTree.tostring / repr(float) are trusted externals of the implementation; the independent readers are the RFC 8259 parser (and XML parser when present) written in Lean, plus expat for XML',
                        'XER strings are restricted to XML-1.0-legal characters without CR (XML end-of-line normalisation cannot round-trip CR)',
                        'Lean XML reader / Xer model present: %s' % have_x]
    ctx.extra['rule'] = ('generated modules x 3 values (+ deterministic boundary cases) x {jer, xer} x indent {None,0,1,4}; strings include markup-significant and non-ASCII characters, empty strings, quotes; '
                         'REAL boundary doubles separately; distinct = distinct (module, value, codec, indent)')
    opts = Opts(max_depth=3, allow_exotic=0.0, big_lengths=0.0)
    cases = []
    opts_ext = Opts(max_depth=3, allow_exotic=0.0, big_lengths=0.0, kinds=opts.kinds + ['real', 'oid', 'set', 'setof', 'enum', 'setof'])
    for i in range(ctx.n(170, 3000)):
        g = Gen(rng, opts if i % 4 else opts_ext)
        t = g.type()
        cases.append((t, module_text([('A', t)]), [g.value(t) for _ in range(3)]))
    for t, vals in boundary_cases(rng)[::ctx.n(6, 1)]:
        cases.append((t, module_text([('A', t)]), vals[:3]))
    n = 28
    parts = core.parallel_map(work, [(cases[k::n], have_x) for k in range(n)])
    core.merge(ctx, parts)
    ctx.model.calls += ctx.hist.pop('model_driver_requests', 0)
    # REAL exactness (outside the Lean universe)
    text = 'M DEFINITIONS AUTOMATIC TAGS ::= BEGIN A ::= REAL B ::= SEQUENCE OF REAL END'
    for codec in ('jer', 'xer'):
        st, spec = impl.compile_text(text, codec)
        for x in REALS + [rng.uniform(-1, 1) * 10 ** rng.randint(-300, 300) for _ in range(ctx.n(40, 400))]:
            ctx.case((codec, 'real', x))
            r = impl.encode(spec, 'A', x, limit=5)
            if r[0] != 'ok':
                ctx.violation('%s: REAL %r is refused (%s)' % (codec, x, r[1]), {'codec': codec, 'module': text, 'value': repr(x)})
                continue
            d = impl.decode(spec, 'A', r[1], limit=5)
            ok = d[0] == 'ok' and isinstance(d[1], float) and (d[1] == x or (math.isnan(d[1]) and math.isnan(x))) and math.copysign(1, d[1]) == math.copysign(1, x)
            if not ok:
                ctx.violation('%s: REAL %r does not round-trip exactly' % (codec, x), {'codec': codec, 'module': text, 'value': repr(x), 'document': r[1].decode('utf-8', 'replace'), 'decoded': repr(d[1:])[:200]})
    # witnesses
    st, spec = impl.compile_text(text, 'jer')
    r = impl.encode(spec, 'A', 1)
    d = impl.decode(spec, 'A', r[1]) if r[0] == 'ok' else r
    ctx.case(('jer', 'real-int'))
    if not (d[0] == 'ok' and d[1] == 1.0):
        ctx.violation('jer: REAL given the Python int 1 (accepted by the type checker) does not decode (%s)' % (d[1],), {'codec': 'jer', 'module': text, 'value': '1'})
    g = 'M DEFINITIONS AUTOMATIC TAGS ::= BEGIN A ::= SEQUENCE { a BOOLEAN, ..., [[ g INTEGER, h BOOLEAN ]] } END'
    for codec in ('jer', 'xer'):
        st, spec = impl.compile_text(g, codec)
        r = impl.encode(spec, 'A', {'a': True})
        if r[0] == 'ok':
            ctx.notes.append('stale finding: C02-addition-group-mandatory (%s) no longer reproduces' % codec)
        else:
            ctx.known_finding('C02-addition-group-mandatory', 'witness: %s treats the members of an absent [[ addition group ]] as mandatory (%s)' % (codec, r[1]))
    # members that share a name and a referenced type, each with its own use (SIZE / OPTIONAL / DEFAULT / tag): the compiled-type cache
    from .. import aliasfam
    aliasfam.run_c01(ctx, ctx.rng, ctx.n(60, 800), impl, ['jer', 'xer'], py_equal, only_text_safe=True)
    from .. import timefam as _timefam
    _timefam.run(ctx, 'C02', ctx.rng, ctx.n(25, 300), _timefam.TXT)
    from .. import twomark as _twomark
    _twomark.run(ctx, 'C02', ctx.rng, ctx.n(40, 500), ['jer', 'xer'])


def replay(ctx, path):
    import json
    d = json.load(open(path))['replay']
    print(json.dumps(d, indent=1)[:3000])
