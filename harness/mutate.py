"""Position-wise access to generated values (used by C11 boundary mutation and C12 corruption)."""
import copy


def positions(t, v, path=(), names=()):
    """yield (path, names, type, value): path = access path (member names / list indices / 'alt'),
    names = the dotted location names the library reports (lists add no name)."""
    yield path, names, t, v
    k = t['k']
    if v is None:
        return
    if k in ('seqof', 'setof'):
        for i, e in enumerate(v):
            yield from positions(t['elem'], e, path + (i,), names)
    elif k in ('seq', 'set'):
        for m in t['root'] + (t['ext'] or []):
            if m['name'] in v:
                yield from positions(m['t'], v[m['name']], path + (m['name'],), names + (m['name'],))
    elif k == 'choice':
        for n, at in t['root'] + (t['ext'] or []):
            if n == v[0]:
                yield from positions(at, v[1], path + ('@' + n,), names + (n,))


def replace(t, v, path, new):
    """return a copy of v with the component at path replaced"""
    if not path:
        return new
    k = t['k']
    head, rest = path[0], path[1:]
    if k == 'seqof':
        out = list(v)
        out[head] = replace(t['elem'], v[head], rest, new)
        return out
    if k == 'seq':
        out = dict(v)
        for m in t['root'] + (t['ext'] or []):
            if m['name'] == head:
                out[head] = replace(m['t'], v[head], rest, new)
        return out
    if k == 'choice':
        for n, at in t['root'] + (t['ext'] or []):
            if '@' + n == head:
                return (n, replace(at, v[1], rest, new))
    raise ValueError(path)


def local_ok(t, v):
    """independent interpreter of the single-range constraints of one node"""
    k = t['k']
    if k == 'int':
        if t['ext']:
            return True
        return (t['lo'] is None or v >= t['lo']) and (t['hi'] is None or v <= t['hi'])
    if k in ('octs', 'bits', 'str', 'seqof'):
        n = v[1] if k == 'bits' else len(v)
        ok = True
        if t['size'] and not t['size'][2]:
            lo, hi, _ = t['size']
            ok = lo <= n and (hi is None or n <= hi)
        if ok and k == 'str' and t['kind'] != 'UTF8String':
            from .gen import ALPHABETS
            ok = all(c in ALPHABETS[t['kind']] for c in v)
        return ok
    return True


def admits(t, v):
    return all(local_ok(tt, vv) for _, _, tt, vv in positions(t, v))


def first_violation_names(t, v):
    """names path of the first violating component in the checker's traversal order"""
    for _, names, tt, vv in positions(t, v):
        if not local_ok(tt, vv):
            return names
    return None


def boundary_variants(rng, t, v):
    """values equal to v except for one constrained component moved to / just across a bound"""
    out = []
    cands = [(p, n, tt, vv) for p, n, tt, vv in positions(t, v)
             if (tt['k'] == 'int' and (tt['lo'] is not None or tt['hi'] is not None))
             or (tt['k'] in ('octs', 'bits', 'str', 'seqof') and (tt['size'] or tt['k'] == 'str'))]
    rng.shuffle(cands)
    for p, n, tt, vv in cands[:3]:
        k = tt['k']
        if k == 'int':
            for b in [tt['lo'], tt['hi']]:
                if b is None:
                    continue
                for d in (-1, 0, 1):
                    out.append((replace(t, v, p, b + d), p))
        else:
            lo, hi, ext = tt['size'] if tt['size'] else (0, None, False)
            targets = [lo - 1, lo, lo + 1]
            if hi is not None and hi < 3000:
                targets += [hi - 1, hi, hi + 1]
            for n2 in targets:
                if n2 < 0:
                    continue
                nv = resize(rng, tt, vv, n2)
                if nv is not None:
                    out.append((replace(t, v, p, nv), p))
            if k == 'str' and tt['kind'] != 'UTF8String' and len(vv) > 0:
                bad = 'é' if tt['kind'] != 'NumericString' else 'x'
                out.append((replace(t, v, p, vv[:-1] + bad), p))
    return out


def resize(rng, t, v, n):
    k = t['k']
    if k == 'octs':
        return (bytes(v) + bytes(rng.getrandbits(8) for _ in range(max(0, n - len(v)))))[:n]
    if k == 'bits':
        nb = (n + 7) // 8
        data = (bytes(v[0]) + bytes(nb))[:nb]
        return (data, n)
    if k == 'str':
        from .gen import ALPHABETS
        a = ALPHABETS[t['kind']]
        return (v + ''.join(rng.choice(a) for _ in range(max(0, n - len(v)))))[:n]
    if k == 'seqof':
        if n <= len(v):
            return list(v[:n])
        if not v:
            return None
        return list(v) + [copy.deepcopy(v[rng.randrange(len(v))]) for _ in range(n - len(v))]
    return None
