"""Independent TLV library (written for the BER variants comparison by a sub-agent, see tools/compare_ber_variants.py):
parse definite-length encoder output into a tree, re-serialise it type-directed in other valid X.690 BER forms
(padded long-form lengths, indefinite length + EOC, constructed/segmented strings, mixtures), and mutate
encodings into invalid/unusual inputs (C08)."""

# ------------------------------------------------------------------------------ TLV library
class Node:
    """One BER encoding: identifier octets, constructed flag, contents (bytes) or children."""

    def __init__(self, tag, children=None, content=b''):
        self.tag = bytes(tag)
        self.children = children          # list of Node, or None for primitive
        self.content = bytes(content)

    @property
    def constructed(self):
        return bool(self.tag[0] & 0x20)


def parse_tag(data, pos):
    start = pos
    b = data[pos]
    pos += 1
    if b & 0x1f == 0x1f:
        while data[pos] & 0x80:
            pos += 1
        pos += 1
    return data[start:pos], pos


def parse_len(data, pos):
    b = data[pos]
    pos += 1
    if b < 0x80:
        return b, pos
    n = b & 0x7f
    assert n > 0, 'definite lengths only'
    return int.from_bytes(data[pos:pos + n], 'big'), pos + n


def parse(data, pos=0):
    """definite-length TLV at data[pos:] -> (Node, end position)"""
    tag, pos = parse_tag(data, pos)
    length, pos = parse_len(data, pos)
    end = pos + length
    assert end <= len(data)
    if tag[0] & 0x20:
        children = []
        while pos < end:
            child, pos = parse(data, pos)
            children.append(child)
        assert pos == end
        return Node(tag, children), end
    return Node(tag, None, data[pos:end]), end


def enc_len(n, pad=0):
    if pad == 0 and n < 0x80:
        return bytes([n])
    body = n.to_bytes(max(1, (n.bit_length() + 7) // 8), 'big')
    body = b'\x00' * pad + body
    return bytes([0x80 | len(body)]) + body


class Forms:
    """Which alternative forms to use; every probability is per node (perm: SET components in another order)."""

    def __init__(self, pad=0.0, indef=0.0, seg=0.0, nest=0.0, perm=0.0):
        self.pad, self.indef, self.seg, self.nest, self.perm = pad, indef, seg, nest, perm


def frame(tag, body, constructed, rng, f):
    """tag + length + body in one of the length forms allowed for it"""
    if constructed and rng.random() < f.indef:
        return tag + b'\x80' + body + b'\x00\x00'
    pad = rng.choice([0, 1, 1, 2, 3]) if rng.random() < f.pad else 0
    return tag + enc_len(len(body), pad) + body


def with_constructed(tag, on):
    return bytes([(tag[0] | 0x20) if on else (tag[0] & ~0x20)]) + tag[1:]


def split_points(n, rng):
    k = rng.choice([0, 1, 2, 2, 3, 5]) if n else rng.choice([0, 1, 2])
    return sorted(rng.randint(0, n) for _ in range(k))


def segments(univ, chunks, rng, f, depth=0):
    """chunks: list of primitive contents; -> concatenated segment encodings (UNIVERSAL tag `univ`),
    some of them nested constructed ones"""
    out = b''
    i = 0
    while i < len(chunks):
        if depth < 3 and rng.random() < f.nest:
            j = rng.randint(i, len(chunks))          # nested constructed segment holding chunks[i:j]
            body = segments(univ, chunks[i:j], rng, f, depth + 1)
            out += frame(bytes([univ | 0x20]), body, True, rng, f)
            i = j                                     # j == i: an empty constructed segment
        else:
            out += frame(bytes([univ]), chunks[i], False, rng, f)
            i += 1
    return out


def string_variant(kind, tag, content, rng, f):
    """OCTET STRING / character string (kind 'o') or BIT STRING (kind 'b') with primitive contents
    `content` under identifier `tag`"""
    if rng.random() >= f.seg:
        return frame(with_constructed(tag, False), content, False, rng, f)
    if kind == 'o':
        pts = split_points(len(content), rng)
        chunks = [content[a:b] for a, b in zip([0] + pts, pts + [len(content)])]
        if not content and rng.random() < 0.5:
            chunks = []
        body = segments(0x04, chunks, rng, f)
    else:
        unused, data = content[0], content[1:]
        pts = split_points(len(data), rng)
        parts = [data[a:b] for a, b in zip([0] + pts, pts + [len(data)])]
        # X.690 8.6.4: only the last segment may have unused bits
        if len(data) == 0:
            parts = [b''] if rng.random() < 0.5 else []
        elif parts and len(parts[-1]) == 0:
            parts = [p for p in parts if p] or [data]
        chunks = [b'\x00' + p for p in parts[:-1]] + ([bytes([unused]) + parts[-1]] if parts else [])
        body = segments(0x03, chunks, rng, f)
    return frame(with_constructed(tag, True), body, True, rng, f)


def ctx_number(tag):
    if tag[0] & 0x1f != 0x1f:
        return tag[0] & 0x1f
    n = 0
    for b in tag[1:]:
        n = (n << 7) | (b & 0x7f)
    return n


def reser(t, node, bare, rng, f):
    """type-directed re-serialisation of `node` (an encoding of type `t`; `bare` = the type carries
    its own UNIVERSAL tag / is an untagged CHOICE, otherwise it is a member with tag [i])"""
    k = t['k']
    if k in ('octs', 'str'):
        return string_variant('o', node.tag, node.content, rng, f)
    if k == 'bits':
        return string_variant('b', node.tag, node.content, rng, f)
    if k in ('bool', 'null', 'int', 'enum'):
        return frame(node.tag, node.content, False, rng, f)
    if k in ('seq', 'set'):
        members = t['root'] + (t['ext'] or [])
        parts = []
        for child in node.children:
            m = members[ctx_number(child.tag)]
            parts.append(reser(m['t'], child, False, rng, f))
        if k == 'set' and rng.random() < f.perm:
            rng.shuffle(parts)                        # X.690 8.11.3: any order
        return frame(node.tag, b''.join(parts), True, rng, f)
    if k in ('seqof', 'setof'):
        body = b''.join(reser(t['elem'], child, True, rng, f) for child in node.children)
        return frame(node.tag, body, True, rng, f)
    if k == 'choice':
        alts = t['root'] + (t['ext'] or [])
        if bare:
            return reser(alts[ctx_number(node.tag)][1], node, False, rng, f)
        (inner,) = node.children                      # EXPLICIT wrapper
        body = reser(alts[ctx_number(inner.tag)][1], inner, False, rng, f)
        return frame(node.tag, body, True, rng, f)
    raise ValueError(k)


KINDS = {
    'padlen': Forms(pad=1.0),
    'indef': Forms(indef=1.0),
    'segments': Forms(seg=1.0, nest=0.25),
    'mix': Forms(pad=0.3, indef=0.4, seg=0.5, nest=0.2),
}
SET_KINDS = {
    'perm': Forms(perm=1.0),
    'perm+segments': Forms(perm=1.0, seg=1.0, nest=0.25),
    'perm+indef': Forms(perm=1.0, indef=1.0),
    'perm+mix': Forms(perm=0.8, pad=0.3, indef=0.4, seg=0.5, nest=0.2),
}


# ------------------------------------------------------------------------------ independent reader (certification of variants)
def parse_any(data, pos=0, depth=0):
    """any BER TLV (definite incl. padded long form, indefinite + EOC) at data[pos:] -> (Node, end)"""
    if depth > 60:
        raise ValueError('too deep')
    tag, pos = parse_tag(data, pos)
    b = data[pos]
    pos += 1
    if b == 0x80:
        if not tag[0] & 0x20:
            raise ValueError('indefinite primitive')
        children = []
        while data[pos:pos + 2] != b'\x00\x00':
            child, pos = parse_any(data, pos, depth + 1)
            children.append(child)
        return Node(tag, children), pos + 2
    if b < 0x80:
        length = b
    else:
        n = b & 0x7f
        if n == 0 or pos + n > len(data):
            raise ValueError('bad length')
        length = int.from_bytes(data[pos:pos + n], 'big')
        pos += n
    end = pos + length
    if end > len(data):
        raise ValueError('length beyond data')
    if tag[0] & 0x20:
        children = []
        while pos < end:
            child, pos = parse_any(data, pos, depth + 1)
            children.append(child)
        if pos != end:
            raise ValueError('child overruns parent')
        return Node(tag, children), end
    return Node(tag, None, data[pos:end]), end


def _flatten_string(node, bit):
    """contents of a possibly constructed (nested) string encoding as ONE primitive contents"""
    if node.children is None:
        return node.content
    out, unused = b'', 0
    for i, ch in enumerate(node.children):
        c = _flatten_string(ch, bit)
        if bit:
            if not c:
                raise ValueError('empty BIT STRING segment')
            if unused:
                raise ValueError('unused bits before the last segment')
            unused, c = c[0], c[1:]
        out += c
    return (bytes([unused]) + out) if bit else out


def canonical(t, node, bare=True):
    """definite, minimal-length, primitive-string, tag-sorted-SET re-serialisation of any valid BER encoding of type t:
    two encodings of one value have the same canonical form (members keep their tags; SET OF order is kept)"""
    k = t['k']
    if k in ('octs', 'str', 'bits'):
        return with_constructed(node.tag, False) + enc_len(len(_flatten_string(node, k == 'bits'))) + _flatten_string(node, k == 'bits')
    if k in ('bool', 'null', 'int', 'enum', 'real', 'oid'):
        if node.children is not None:
            raise ValueError('constructed primitive')
        return node.tag + enc_len(len(node.content)) + node.content
    if k in ('seq', 'set'):
        members = t['root'] + (t['ext'] or [])
        parts = [(ch.tag, canonical(members[ctx_number(ch.tag)]['t'], ch, False)) for ch in node.children]
        if k == 'set':
            parts.sort(key=lambda p: (p[0][0] & 0xc0, ctx_number(p[0])))
        body = b''.join(p[1] for p in parts)
        return node.tag + enc_len(len(body)) + body
    if k in ('seqof', 'setof'):
        body = b''.join(canonical(t['elem'], ch, True) for ch in node.children)
        return node.tag + enc_len(len(body)) + body
    if k == 'choice':
        alts = t['root'] + (t['ext'] or [])
        if bare:
            return canonical(alts[ctx_number(node.tag)][1], node, False)
        (inner,) = node.children
        body = canonical(alts[ctx_number(inner.tag)][1], inner, False)
        return node.tag + enc_len(len(body)) + body
    raise ValueError(k)


# ------------------------------------------------------------------------------ mutations
def mutate(data, node, rng):
    x = rng.random()
    b = bytearray(data)
    if x < 0.2 and len(b) > 1:
        return bytes(b[:rng.randrange(len(b))]), 'truncate'
    if x < 0.4 and b:
        i = rng.randrange(len(b))
        b[i] ^= 1 << rng.randrange(8)
        return bytes(b), 'bitflip'
    if x < 0.5 and b:
        i = rng.randrange(len(b))
        b[i] = rng.choice([0, 0x80, 0x81, 0xff, 0x30, 0x1f, 0x9f, 0xa0, rng.randrange(256)])
        return bytes(b), 'setbyte'
    if x < 0.58:
        i = rng.randrange(len(b) + 1)
        return bytes(b[:i]) + bytes(rng.randrange(256) for _ in range(rng.choice([1, 2, 3]))) + bytes(b[i:]), 'insert'
    if x < 0.66 and len(b) > 2:
        i = rng.randrange(len(b))
        return bytes(b[:i] + b[i + 1:]), 'delete'
    if x < 0.70:
        return data + bytes(rng.choice([0, 0, 5, 0x30, rng.randrange(256)]) for _ in range(rng.choice([1, 2, 3, 4]))), 'trailing'
    # structural: reorder / duplicate / drop children of a random constructed node, or stretch / shrink a length
    cons = []

    def walk(n):
        if n.children is not None:
            cons.append(n)
            for c in n.children:
                walk(c)
    if node is not None:
        walk(node)
    if not cons:
        return data + b'\x00', 'trailing'
    target = rng.choice(cons)
    op = rng.choice(['shuffle', 'dup', 'drop', 'longer', 'shorter', 'indef-noeoc', 'indef'])

    def ser(n):
        if n.children is None:
            return n.tag + enc_len(len(n.content)) + n.content
        kids = list(n.children)
        body_of = lambda ks: b''.join(ser(c) for c in ks)
        if n is target:
            if op == 'shuffle':
                rng.shuffle(kids)
            elif op == 'dup' and kids:
                kids.insert(rng.randrange(len(kids) + 1), rng.choice(kids))
            elif op == 'drop' and kids:
                kids.pop(rng.randrange(len(kids)))
            body = body_of(kids)
            if op == 'longer':
                return n.tag + enc_len(len(body) + rng.choice([1, 2, 3])) + body
            if op == 'shorter' and body:
                return n.tag + enc_len(len(body) - rng.choice([1, 2, min(3, len(body))]) if len(body) > 3 else 0) + body
            if op == 'indef-noeoc':
                return n.tag + b'\x80' + body
            if op == 'indef':
                return n.tag + b'\x80' + body + b'\x00\x00'
            return n.tag + enc_len(len(body)) + body
        body = body_of(kids)
        return n.tag + enc_len(len(body)) + body
    return ser(node), op


