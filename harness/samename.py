"""Same-named symbols in different modules (C11, C19).

Two library modules L1, L2 define a value `limit`, a value `low` and a type `Item` under the SAME names with DIFFERENT meanings;
two user modules import them (U1 from L1, U2 from L2) and use them as range / SIZE bounds and as a component type.  The
reference for every user type is the same type written inline in a one-module specification.  Checked for every codec, with and
without check_constraints: encode outcome (octets or error class) and decode outcome of boundary values are those of the inline
type; the order of the modules in the input does not matter.  Needs nothing from the Lean model (name resolution is on the
implementation side only)."""
from . import impl
from .gen import Gen, Opts, type_text

CODECS = ['ber', 'der', 'per', 'uper', 'oer', 'jer', 'xer', 'gser']


def item_type(g, choice=False):
    o = Opts(max_depth=1, allow_exotic=0.0, allow_ext=False, kinds=['bool', 'int', 'enum', 'octs', 'str', 'null'])
    g2 = Gen(g.rng, o)
    if choice:
        # a CHOICE of leaves: whether `i Item` is tagged EXPLICIT or IMPLICIT depends on WHICH module's Item is meant
        alts, seen = [], set()
        for nm in g.rng.sample(['p', 'q', 'r', 's'], g.rng.choice([2, 3])):
            for _ in range(20):
                at = g2.type(depth=1)
                key = (at['k'], at.get('kind'))
                if key not in seen:
                    seen.add(key)
                    alts.append((nm, at))
                    break
        return g2, {'k': 'choice', 'root': alts, 'ext': None}
    return g2, g2.type(depth=1)


def build(rng):
    g = Gen(rng, Opts())
    lims = rng.sample([1, 2, 3, 7, 8, 15, 16, 100, 255, 256, 1000, 65535, 65536], 2)
    lows = rng.sample([-5, -1, 0, 0, 1, 2], 2)
    for i in range(2):
        if lows[i] > lims[i]:
            lows[i] = 0
    items = []
    which = rng.choice([None, 0, 1, 1])
    for i in range(2):
        g2, t = item_type(g, choice=(which == i))
        items.append((g2, t))
    libs, users, inline = [], [], []
    for i in (0, 1):
        it = type_text(items[i][1], 1)
        # alias chains that end in the exporting module (Flag -> Inner -> BOOLEAN, Sel -> Pick -> CHOICE, Blob -> Raw -> OCTET STRING);
        # the importing module may have local types called Inner / Pick / Raw with another meaning
        libs.append('L%d DEFINITIONS AUTOMATIC TAGS ::= BEGIN\nEXPORTS ALL;\nlimit INTEGER ::= %d\nlow INTEGER ::= %d\nItem ::= %s\n'
                    'Flag ::= Inner\nInner ::= BOOLEAN\nSel ::= Pick\nPick ::= CHOICE { a BOOLEAN, b INTEGER (0..7) }\nBlob ::= Raw\nRaw ::= OCTET STRING\nEND\n' % (i + 1, lims[i], lows[i], it))
        local = rng.choice(['', 'Inner ::= INTEGER (0..3)\nPick ::= NULL\nRaw ::= BOOLEAN\n', 'Pick ::= SEQUENCE { z BOOLEAN }\n', 'Inner ::= NULL\n'])
        tagsU = 'AUTOMATIC TAGS'      # (an inline copy is only equivalent under the tagging environment of the defining module)
        ctag = '' if tagsU == 'AUTOMATIC TAGS' else '[5] '
        extra = ",\n  f Flag DEFAULT TRUE,\n  c %sSel OPTIONAL,\n  o Blob DEFAULT 'ABCD'H" % ctag
        iextra = ",\n  f BOOLEAN DEFAULT TRUE,\n  c %sCHOICE { a BOOLEAN, b INTEGER (0..7) } OPTIONAL,\n  o OCTET STRING DEFAULT 'ABCD'H" % ctag
        tagp = lambda x: x if tagsU == 'AUTOMATIC TAGS' else x.replace('  s OCTET', '  s [1] OCTET').replace('  i Item', '  i [2] Item').replace('  i %s' % it, '  i [2] %s' % it).replace('  l SEQ', '  l [3] SEQ').replace('  f ', '  f [4] ').replace('  o ', '  o [6] ').replace('  n INT', '  n [0] INT')
        body = tagp('SEQUENCE {\n  n INTEGER (low..limit),\n  s OCTET STRING (SIZE(0..limit)),\n  i Item,\n  l SEQUENCE (SIZE(0..limit)) OF BOOLEAN OPTIONAL%s\n}' % extra)
        users.append('U%d DEFINITIONS %s ::= BEGIN\nIMPORTS limit, low, Item, Flag, Sel, Blob FROM L%d;\n%sX%d ::= %s\nEND\n' % (i + 1, tagsU, i + 1, local, i + 1, body))
        ibody = tagp('SEQUENCE {\n  n INTEGER (%d..%d),\n  s OCTET STRING (SIZE(0..%d)),\n  i %s,\n  l SEQUENCE (SIZE(0..%d)) OF BOOLEAN OPTIONAL%s\n}' % (lows[i], lims[i], lims[i], it, lims[i], iextra))
        inline.append('I%d DEFINITIONS %s ::= BEGIN\nX%d ::= %s\nEND\n' % (i + 1, tagsU, i + 1, ibody))
        continue
        inline.append('I%d DEFINITIONS AUTOMATIC TAGS ::= BEGIN\nX%d ::= %s\nEND\n' % (i + 1, i + 1, ibody))
    values = []
    for i in (0, 1):
        vs = []
        for n in {lows[i], lims[i], lims[i] + 1, lows[i] - 1, lims[1 - i], lims[1 - i] + 1, lows[1 - i]}:
            for slen in {0, min(lims[i], 300), min(lims[i] + 1, 300), min(lims[1 - i], 300), min(lims[1 - i] + 1, 300)}:
                if rng.random() < 0.5:
                    continue
                v = {'n': n, 's': bytes(slen), 'i': items[i][0].value(items[i][1])}
                if rng.random() < 0.4:
                    v['l'] = [True] * min(rng.choice([lims[i], lims[i] + 1, lims[1 - i]]), 400)
                if rng.random() < 0.6:
                    v['f'] = rng.random() < 0.5
                if rng.random() < 0.6:
                    v['c'] = rng.choice([('a', True), ('a', False), ('b', 5)])
                if rng.random() < 0.6:
                    v['o'] = rng.choice([b'\xab\xcd', b'', b'\x01\x02\x03'])
                vs.append(v)
        values.append(vs[:14])
    return libs, users, inline, values


def outcome(r):
    if r[0] == 'ok':
        return ('ok', r[1])
    return ('err', r[1].split(':')[0] if not r[1].startswith('Foreign') else r[1])


def run(sink, prop, rng, n, codecs=CODECS):
    for case in range(n):
        libs, users, inline, values = build(rng)
        orders = [libs + users, users[::-1] + libs[::-1], [libs[1], users[0], libs[0], users[1]]]
        texts = [''.join(o) for o in orders[:1 + (case % 3 != 0) + (case % 3 == 2)]]
        for codec in codecs:
            ref = []
            for i in (0, 1):
                st, sp = impl.compile_text(inline[i], codec)
                ref.append(sp if st == 'ok' else None)
            if None in ref:
                sink.count('samename.compile-failed.inline')
                continue
            for text in texts:
                st, sp = impl.compile_text(text, codec)
                if st != 'ok':
                    sink.violation('%s: a specification that imports same-named symbols from two modules does not compile (%s), its one-module equivalents do' % (codec, st),
                                   {'codec': codec, 'modules': text, 'error': repr(sp)[:300]})
                    continue
                for i in (0, 1):
                    name = 'X%d' % (i + 1)
                    for v in values[i]:
                        for cc in (False, True):
                            a = outcome(impl.encode(sp, name, v, check_constraints=cc))
                            b = outcome(impl.encode(ref[i], name, v, check_constraints=cc))
                            sink.case((text, name, repr(v), codec, cc))
                            sink.count('samename.%s.%s' % (codec, b[0] if b[0] == 'ok' else b[1]))
                            if a != b:
                                sink.violation('%s: a type whose bounds / component type are imported under names that another module also uses behaves differently from the same type written inline'
                                               % codec, {'codec': codec, 'modules': text, 'inline': inline[i], 'type': name, 'value': repr(v), 'check_constraints': cc,
                                                         'imported': repr(a)[:300], 'inline_result': repr(b)[:300]})
                                continue
                            if b[0] == 'ok':
                                da = impl.decode(sp, name, b[1], check_constraints=cc)
                                db = impl.decode(ref[i], name, b[1], check_constraints=cc)
                                if outcome(da)[0] != outcome(db)[0] or (da[0] == 'ok' and da[1] != db[1]) or (da[0] != 'ok' and outcome(da) != outcome(db)):
                                    sink.violation('%s: decoding differs between the imported and the inline spelling of one type' % codec,
                                                   {'codec': codec, 'modules': text, 'inline': inline[i], 'type': name, 'data': repr(b[1])[:200], 'check_constraints': cc,
                                                    'imported': repr(da)[:300], 'inline_result': repr(db)[:300]})


# ---------------------------------------------------------------------------------------------------------------------
# the same identifier as a NAMED NUMBER of several INTEGER types of one module, used as a bound of each type's own constraint

def build_named(rng):
    ids = rng.choice([('min', 'max'), ('lo', 'hi'), ('first', 'last')])
    types, lits = [], []
    bounds = []
    names = rng.sample(['Volume', 'Level', 'Gain', 'Alpha', 'Zed'], rng.choice([2, 3]))
    for nm in names:
        lo = rng.choice([0, 0, 1, -5, -128])
        hi = lo + rng.choice([1, 7, 100, 255, 256, 70000])
        bounds.append((lo, hi))
        types.append('%s ::= INTEGER { %s(%d), %s(%d) } (%s..%s)' % (nm, ids[0], lo, ids[1], hi, ids[0], ids[1]))
        lits.append('%s ::= INTEGER { %s(%d), %s(%d) } (%d..%d)' % (nm, ids[0], lo, ids[1], hi, lo, hi))
    uses = ['Box ::= SEQUENCE { %s }' % ', '.join('m%d %s' % (i, nm) for i, nm in enumerate(names)),
            'List ::= SEQUENCE OF %s' % names[-1]]
    head = 'M DEFINITIONS AUTOMATIC TAGS ::= BEGIN\n'
    order = list(range(len(names)))
    rng.shuffle(order)
    named = head + '\n'.join([types[i] for i in order] + uses) + '\nEND\n'
    literal = head + '\n'.join([lits[i] for i in order] + uses) + '\nEND\n'
    cases = []
    every = sorted({b for lo, hi in bounds for b in (lo - 1, lo, hi, hi + 1)})
    for i, nm in enumerate(names):
        for x in every:
            cases.append((nm, x))
    for x in every:
        for i, nm in enumerate(names):
            v = {'m%d' % j: bounds[j][0] for j in range(len(names))}
            v['m%d' % i] = x
            cases.append(('Box', v))
        cases.append(('List', [bounds[-1][0], x]))
    return named, literal, cases


def run_named(sink, prop, rng, n, codecs=CODECS):
    for _ in range(n):
        named, literal, cases = build_named(rng)
        for codec in codecs:
            sa, a = impl.compile_text(named, codec)
            sb, b = impl.compile_text(literal, codec)
            if sa != 'ok' or sb != 'ok':
                if sa != sb:
                    sink.violation('%s: named numbers as constraint bounds compile differently from the same bounds written as numbers' % codec,
                                   {'codec': codec, 'named': named, 'literal': literal, 'a': sa, 'b': sb})
                continue
            for name, v in cases:
                ra, rb = impl.encode(a, name, v, check_constraints=True), impl.encode(b, name, v, check_constraints=True)
                sink.case((named, name, repr(v), codec))
                sink.count('named-numbers.%s.%s' % (codec, rb[0] if rb[0] == 'ok' else rb[1].split(':')[0]))
                oa = outcome(ra) + ((ra[2].split(': ')[0],) if ra[0] != 'ok' else ())
                ob = outcome(rb) + ((rb[2].split(': ')[0],) if rb[0] != 'ok' else ())
                if oa != ob:
                    sink.violation('%s: a constraint whose bounds are named numbers of the type behaves differently from the same constraint written with numbers '
                                   '(the same identifiers name other numbers in another type of the module)' % codec,
                                   {'codec': codec, 'module': named, 'literal_module': literal, 'type': name, 'value': repr(v), 'named': repr(oa)[:300], 'literal': repr(ob)[:300]})
                elif ra[0] == 'ok' and codec != 'gser':
                    da, db = impl.decode(a, name, ra[1], check_constraints=True), impl.decode(b, name, ra[1], check_constraints=True)
                    if outcome(da) != outcome(db):
                        sink.violation('%s: decoding differs between named-number bounds and the same bounds written as numbers' % codec,
                                       {'codec': codec, 'module': named, 'type': name, 'data': repr(ra[1])[:100], 'named': repr(da)[:300], 'literal': repr(db)[:300]})
