"""C07: legal extension steps on a generated type (V1 -> V2) and the projection of V2 values onto V1."""
import copy


def extensible_nodes(t, path=()):
    """yield (path, node) for nodes that can legally be extended"""
    k = t['k']
    if k == 'seq' and t['ext'] is not None:
        yield path, t
    if k == 'choice' and t['ext'] is not None:
        yield path, t
    if k == 'enum' and t['ext'] is not None:
        yield path, t
    if k == 'int' and t['ext'] and t['lo'] is not None and t['hi'] is not None:
        yield path, t
    if k in ('seq', 'set'):
        for i, m in enumerate(t['root']):
            yield from extensible_nodes(m['t'], path + (('root', i),))
        for i, m in enumerate(t['ext'] or []):
            yield from extensible_nodes(m['t'], path + (('ext', i),))
    elif k in ('seqof', 'setof'):
        yield from extensible_nodes(t['elem'], path + (('elem',),))
    elif k == 'choice':
        for i, (n, at) in enumerate(t['root']):
            yield from extensible_nodes(at, path + (('croot', i),))
        for i, (n, at) in enumerate(t['ext'] or []):
            yield from extensible_nodes(at, path + (('cext', i),))


def extend(gen, t, steps, groups=False):
    """apply `steps` random legal extension steps; returns (V2 type, number of steps applied)"""
    t2 = copy.deepcopy(t)
    rng = gen.rng
    done = 0
    for _ in range(steps):
        nodes = list(extensible_nodes(t2))
        if not nodes:
            break
        path, node = rng.choice(nodes)
        k = node['k']
        if k == 'seq':
            used = {m['name'] for m in node['root'] + node['ext']}
            name = next(n for n in ['n1', 'n2', 'n3', 'n4', 'n5', 'n6', 'n7', 'n8', 'n9', 'n10', 'n11', 'n12'] if n not in used)
            m = gen.member(gen.o.max_depth - 1, addition=True, name=name)
            if not m['opt'] and m['default'] is None:
                m['opt'] = True      # additions a newer version appends must be omissible for old values
            node['ext'].append(m)
            if groups and rng.random() < 0.4:
                # the new component comes as a version-bracket group [[ ... ]] (possibly with a second member)
                i = len(node['ext']) - 1
                if rng.random() < 0.5:
                    used.add(name)
                    name2 = next(n for n in ['n1', 'n2', 'n3', 'n4', 'n5', 'n6', 'n7', 'n8', 'n9', 'n10', 'n11', 'n12', 'n13'] if n not in used)
                    m2 = gen.member(gen.o.max_depth - 1, addition=True, name=name2)
                    if not m2['opt'] and m2['default'] is None:
                        m2['opt'] = True
                    node['ext'].append(m2)
                node['groups'] = list(node.get('groups') or []) + [(i, len(node['ext']))]
        elif k == 'choice':
            used = {n for n, _ in node['root'] + node['ext']}
            name = next(n for n in ['k1', 'k2', 'k3', 'k4', 'k5', 'k6'] if n not in used)
            node['ext'].append((name, gen.type(gen.o.max_depth - 1)))
            if groups and rng.random() < 0.3:
                node['groups'] = list(node.get('groups') or []) + [(len(node['ext']) - 1, len(node['ext']))]
        elif k == 'enum':
            vals = [v for _, v in node['root'] + node['ext']]
            names = {n for n, _ in node['root'] + node['ext']}
            name = next(n for n in ['q1', 'q2', 'q3', 'q4', 'q5', 'q6', 'q7'] if n not in names)
            node['ext'].append((name, max(vals) + rng.choice([1, 1, 2, 100])))
        elif k == 'int':
            # X.680 extension of a constraint: the root stays, a wider range is added after the marker
            node['ext_range'] = (node['lo'] - rng.choice([0, 1, 100]), node['hi'] + rng.choice([1, 200, 70000]))
        done += 1
    return t2, done


def add_groups(rng, t, p=0.35):
    """mark random runs of extension additions of SEQUENCE / CHOICE nodes as version-bracket groups `[[ ... ]]`
    (in place).  SEQUENCE: only runs whose members are all OPTIONAL / DEFAULT (a group then is present iff one of its
    members is, and the flat value dictionaries of the generator stay valid)."""
    k = t['k']
    if k in ('seq', 'choice') and t['ext'] and not t.get('groups') and rng.random() < p:
        n = len(t['ext'])
        groups, i = [], 0
        while i < n:
            if rng.random() < 0.5:
                j = min(n, i + rng.choice([1, 2, 2, 3]))
                if k == 'choice' or all(m['opt'] or m['default'] is not None for m in t['ext'][i:j]):
                    groups.append((i, j))
                i = j
            else:
                i += 1
        if groups:
            t['groups'] = groups
    if k in ('seq', 'set'):
        for m in t['root'] + (t['ext'] or []):
            add_groups(rng, m['t'], p)
    elif k in ('seqof', 'setof'):
        add_groups(rng, t['elem'], p)
    elif k == 'choice':
        for _, a in t['root'] + (t['ext'] or []):
            add_groups(rng, a, p)


def project(t1, t2, v):
    """the V1 view of a V2 value: unknown additions dropped, unknown alternative / enumeration item -> None"""
    k = t1['k']
    if v is None:
        return None
    if k == 'enum':
        names = [n for n, _ in t1['root'] + (t1['ext'] or [])]
        return v if v in names else None
    if k in ('seqof', 'setof'):
        return [project(t1['elem'], t2['elem'], e) for e in v]
    if k in ('seq', 'set'):
        out = {}
        m2 = {m['name']: m for m in t2['root'] + (t2['ext'] or [])}
        for m in t1['root'] + (t1['ext'] or []):
            if m['name'] in v:
                out[m['name']] = project(m['t'], m2[m['name']]['t'], v[m['name']])
        return out
    if k == 'choice':
        a2 = dict(t2['root'] + (t2['ext'] or []))
        for n, at in t1['root'] + (t1['ext'] or []):
            if n == v[0]:
                return (n, project(at, a2[n], v[1]))
        return (None, None)
    return v
