"""Explicit tagging (C01, C03): the generator's types under every tagging environment except AUTOMATIC TAGS.

The Lean universe and most generated modules use AUTOMATIC TAGS.  This family decorates a generated type with tags written by
hand — context / APPLICATION / PRIVATE classes, numbers up to 2^21, IMPLICIT / EXPLICIT / module default (`EXPLICIT TAGS`,
`IMPLICIT TAGS` or none) — and leaves members UNTAGGED wherever X.680 allows it (24.5, 26.3, 28.3: distinct outermost tags
within a SET / CHOICE and within every run of OPTIONAL / DEFAULT components of a SEQUENCE up to the next mandatory one).
An independent X.690 DER encoder for the decorated type is the oracle for C03; round trips for all codecs are C01's."""
from .gen import default_text
from .codecs import py_equal, value_tags

UNIV = {'bool': 1, 'int': 2, 'bits': 3, 'octs': 4, 'null': 5, 'enum': 10, 'seq': 16, 'seqof': 16, 'set': 17, 'setof': 17, 'real': 9, 'oid': 6}
STR_TAG = {'IA5String': 22, 'VisibleString': 26, 'NumericString': 18, 'PrintableString': 19, 'UTF8String': 12}
CLASS_BITS = {'UNIVERSAL': 0x00, 'APPLICATION': 0x40, '': 0x80, 'PRIVATE': 0xc0}
NUMBERS = [0, 1, 2, 3, 5, 7, 30, 31, 32, 127, 128, 16383, 16384, 2097151]
ANY = ('ANY', 0)


def meet(a, b):
    return bool(a & b) or ANY in a or ANY in b


def univ_tag(t):
    if t['k'] == 'str':
        return STR_TAG[t['kind']]
    return UNIV[t['k']]


def outer(t, tag):
    """set of possible outermost (class, number) of a component of type t carrying `tag` (or None)"""
    if tag:
        return {(tag[0], tag[1])}
    if t['k'] == 'choice' and t['ext'] is not None:
        return {ANY}                  # alternatives of later versions may carry any tag: never leave it untagged next to others
    if t['k'] == 'choice':
        s = set()
        for n, at in t['root'] + (t['ext'] or []):
            s |= outer(at, at.get('alt_tag'))
        return s
    return {('UNIVERSAL', univ_tag(t))}


def fresh_tag(rng, used, t=None):
    """a tag not in `used`; IMPLICIT is never written on a CHOICE type (X.680 31.2.7: not allowed on an untagged choice type)"""
    modes = ['', '', 'EXPLICIT'] if t is not None and t['k'] == 'choice' else ['', '', 'IMPLICIT', 'EXPLICIT']
    for _ in range(200):
        tg = (rng.choice(['', '', '', 'APPLICATION', 'PRIVATE']), rng.choice(NUMBERS))
        if tg not in used:
            return tg + (rng.choice(modes),)
    n = 100000 + len(used)
    return ('', n, '')


def decorate(rng, t, p_tag=0.45):
    """assign tags in place (members: m['tag'], CHOICE alternatives: at['alt_tag']) so that the type is legal WITHOUT automatic tagging"""
    k = t['k']
    if k in ('seqof', 'setof'):
        decorate(rng, t['elem'], p_tag)
        return
    if k in ('seq', 'set'):
        members = t['root'] + (t['ext'] or [])
        for m in members:
            decorate(rng, m['t'], p_tag)
        used = set()
        for m in members:
            m.pop('tag', None)
            if rng.random() < p_tag:
                m['tag'] = fresh_tag(rng, used, m['t'])
                used.add(m['tag'][:2])
        nroot = len(t['root'])

        def conflict():
            outs = [outer(m['t'], m.get('tag')) for m in members]
            if k == 'set' or t['ext'] is not None:
                # SET: all distinct.  Extensible SEQUENCE: additions are absent in version 1, keep every component distinct
                for i in range(len(members)):
                    for j in range(i + 1, len(members)):
                        if meet(outs[i], outs[j]):
                            return i if ANY in outs[i] else j
                return None
            for i, m in enumerate(members):
                if m['opt'] or m['default'] is not None:
                    for j in range(i + 1, len(members)):
                        if meet(outs[i], outs[j]):
                            return i if ANY in outs[i] else j
                        if not (members[j]['opt'] or members[j]['default'] is not None):
                            break
            return None
        for _ in range(200):
            j = conflict()
            if j is None:
                break
            members[j]['tag'] = fresh_tag(rng, used | {x for m in members for x in outer(m['t'], m.get('tag')) if x[0] != 'UNIVERSAL'}, members[j]['t'])
            used.add(members[j]['tag'][:2])
        del nroot
        return
    if k == 'choice':
        alts = t['root'] + (t['ext'] or [])
        for n, at in alts:
            decorate(rng, at, p_tag)
        used = set()
        for n, at in alts:
            at.pop('alt_tag', None)
            if rng.random() < p_tag:
                at['alt_tag'] = fresh_tag(rng, used, at)
                used.add(at['alt_tag'][:2])
        for _ in range(200):
            outs = [outer(at, at.get('alt_tag')) for n, at in alts]
            bad = None
            for i in range(len(alts)):
                for j in range(i + 1, len(alts)):
                    if meet(outs[i], outs[j]):
                        bad = i if ANY in outs[i] else j
            if bad is None:
                break
            alts[bad][1]['alt_tag'] = fresh_tag(rng, used | {x for o in outs for x in o if x[0] != 'UNIVERSAL'}, alts[bad][1])
            used.add(alts[bad][1]['alt_tag'][:2])


# ---------------------------------------------------------------------------------------------------------------------
# independent X.690 DER encoder for decorated types

def der_len(n):
    if n < 128:
        return bytes([n])
    b = n.to_bytes((n.bit_length() + 7) // 8, 'big')
    return bytes([0x80 | len(b)]) + b


def der_int(i):
    n = (i.bit_length() // 8) + 1 if i >= 0 else ((-i - 1).bit_length() // 8) + 1
    return i.to_bytes(n, 'big', signed=True)


def ident(cls, num, constructed):
    first = CLASS_BITS[cls] | (0x20 if constructed else 0)
    if num <= 30:
        return bytes([first | num])
    out = [num & 0x7f]
    num >>= 7
    while num:
        out.append(0x80 | (num & 0x7f))
        num >>= 7
    return bytes([first | 0x1f]) + bytes(reversed(out))


def split_ident(enc):
    first = enc[0]
    if first & 0x1f != 0x1f:
        return first & 0xc0, first & 0x1f, bool(first & 0x20), enc[1:]
    num, i = 0, 1
    while True:
        num = (num << 7) | (enc[i] & 0x7f)
        i += 1
        if not enc[i - 1] & 0x80:
            break
    return first & 0xc0, num, bool(first & 0x20), enc[i:]


def tlv(idn, content):
    return idn + der_len(len(content)) + content


def apply_tag(enc, tag, t, module_mode):
    """X.690 8.14 / X.680 31.2.7: EXPLICIT wraps; IMPLICIT replaces the identifier keeping the P/C bit; a tag on an (untagged) CHOICE
    is always EXPLICIT"""
    if not tag:
        return enc
    cls, num, mode = tag
    mode = mode or module_mode
    if t['k'] == 'choice':
        mode = 'EXPLICIT'
    if mode == 'EXPLICIT':
        return tlv(ident(cls, num, True), enc)
    _, _, constructed, rest = split_ident(enc)
    return ident(cls, num, constructed) + rest


class Skip(Exception):
    pass


def der(t, v, mm):
    if t.get('own_tag'):                      # a named type defined with a tag of its own (harness/ctxfam.py)
        inner = {x: y for x, y in t.items() if x != 'own_tag'}
        return apply_tag(der(inner, v, mm), t['own_tag'], inner, mm)
    k = t['k']
    if k == 'bool':
        return tlv(b'\x01', b'\xff' if v else b'\x00')
    if k == 'int':
        return tlv(b'\x02', der_int(v))
    if k == 'null':
        return tlv(b'\x05', b'')
    if k == 'octs':
        return tlv(b'\x04', bytes(v))
    if k == 'bits':
        data, n = bytes(v[0]), v[1]
        nb = (n + 7) // 8
        data = bytearray(data[:nb])
        unused = (8 - n % 8) % 8
        if unused and data:
            data[-1] &= (0xff << unused) & 0xff
        return tlv(b'\x03', bytes([unused]) + bytes(data))
    if k == 'enum':
        items = dict(list(t['root']) + list(t['ext'] or []))
        return tlv(b'\x0a', der_int(items[v]))
    if k == 'str':
        return tlv(bytes([STR_TAG[t['kind']]]), v.encode('utf-8'))
    if k == 'seqof':
        return tlv(b'\x30', b''.join(der(t['elem'], e, mm) for e in v))
    if k == 'setof':
        return tlv(b'\x31', b''.join(sorted(der(t['elem'], e, mm) for e in v)))
    if k in ('seq', 'set'):
        parts = []
        for m in t['root'] + (t['ext'] or []):
            if m['name'] not in v:
                if not m['opt'] and m['default'] is None:
                    raise Skip('mandatory component absent')
                continue
            if m['default'] is not None and py_equal(m['t'], m['default'], v[m['name']]):
                continue
            parts.append(apply_tag(der(m['t'], v[m['name']], mm), m.get('tag'), m['t'], mm))
        if k == 'set':
            order = {0x00: 0, 0x40: 1, 0x80: 2, 0xc0: 3}
            parts.sort(key=lambda e: (order[split_ident(e)[0]], split_ident(e)[1]))
            return tlv(b'\x31', b''.join(parts))
        return tlv(b'\x30', b''.join(parts))
    if k == 'choice':
        for n, at in t['root'] + (t['ext'] or []):
            if n == v[0]:
                return apply_tag(der(at, v[1], mm), at.get('alt_tag'), at, mm)
        raise Skip('unknown alternative')
    raise Skip(k)


def nested_untagged_choice(t):
    k = t['k']
    if k == 'choice':
        for n, at in t['root'] + (t['ext'] or []):
            if at['k'] == 'choice' and not at.get('alt_tag'):
                return True
            if nested_untagged_choice(at):
                return True
        return False
    if k in ('seqof', 'setof'):
        return nested_untagged_choice(t['elem'])
    if k in ('seq', 'set'):
        return any(nested_untagged_choice(m['t']) for m in t['root'] + (t['ext'] or []))
    return False


def dirty_defaults(rng, t, v):
    """a copy of v in which BIT STRING components that have a DEFAULT are set to that default with junk in the unused bits of the
    last octet (abstractly the default: DER must still omit them); None if the type offers no such component"""
    import copy
    v = copy.deepcopy(v)
    hit = [False]

    def walk(t, v):
        k = t['k']
        if k in ('seq', 'set') and isinstance(v, dict):
            for m in t['root'] + (t['ext'] or []):
                if m['t']['k'] == 'bits' and m['default'] is not None and m['default'][1] % 8 and (t['ext'] is None or m in t['root'] or m['name'] in v):
                    data, n = m['default']
                    data = bytearray(data)
                    data[-1] |= (1 << (8 - n % 8)) - 1
                    v[m['name']] = (bytes(data), n)
                    hit[0] = True
                elif m['name'] in v:
                    walk(m['t'], v[m['name']])
        elif k in ('seqof', 'setof') and isinstance(v, list):
            for e in v:
                walk(t['elem'], e)
        elif k == 'choice' and isinstance(v, tuple):
            for n, at in t['root'] + (t['ext'] or []):
                if n == v[0]:
                    walk(at, v[1])
    walk(t, v)
    return v if hit[0] else None


def has_kind(t, kinds):
    k = t['k']
    if k in kinds:
        return True
    if k in ('seqof', 'setof'):
        return has_kind(t['elem'], kinds)
    if k in ('seq', 'set'):
        return any(has_kind(m['t'], kinds) for m in t['root'] + (t['ext'] or []))
    if k == 'choice':
        return any(has_kind(at, kinds) for n, at in t['root'] + (t['ext'] or []))
    return False


def default_kinds(t, acc):
    k = t['k']
    if k in ('seqof', 'setof'):
        default_kinds(t['elem'], acc)
    elif k in ('seq', 'set'):
        for m in t['root'] + (t['ext'] or []):
            if m['default'] is not None:
                acc.add(m['t']['k'])
            default_kinds(m['t'], acc)
    elif k == 'choice':
        for n, at in t['root'] + (t['ext'] or []):
            default_kinds(at, acc)
    return acc


def run(sink, prop, rng, n, impl, codecs, Gen, Opts, module_text):
    """prop 'C03': der bytes vs the independent encoder (+ identical bytes for equal values); prop 'C01': round trips"""
    opts = Opts(max_depth=3, allow_exotic=0.0, big_lengths=0.0, many_additions=0.05,
                kinds=['bool', 'null', 'int', 'int', 'enum', 'octs', 'bits', 'str', 'seq', 'seq', 'set', 'seqof', 'setof', 'choice'])
    done = 0
    tries = 0
    while done < n and tries < 20 * n:
        tries += 1
        g = Gen(rng, opts)
        t = g.type()
        if t['k'] not in ('seq', 'set', 'choice', 'seqof', 'setof'):
            continue
        decorate(rng, t)
        mode = rng.choice(['', 'EXPLICIT TAGS', 'IMPLICIT TAGS', 'IMPLICIT TAGS'])
        mm = 'IMPLICIT' if mode.startswith('IMPLICIT') else 'EXPLICIT'
        text = module_text([('A', t)], tags=mode)
        vals = [g.value(t) for _ in range(4)]
        vals += [x for x in (dirty_defaults(rng, t, v) for v in vals[:2]) if x is not None]
        done += 1
        for codec in codecs:
            st, spec = impl.compile_text(text, codec)
            if st != 'ok':
                sink.count('tagged.compile.%s.%s' % (codec, st))
                continue        # (per/uper/oer cannot sort the untagged components of a SET: a recorded limit, not a listed property)
            for v in vals:
                tags = value_tags(t, v, codec)
                if 'mandatory-addition-missing' in tags:
                    continue
                sink.case((text, repr(v), codec))
                r = impl.encode(spec, 'A', v)
                sink.count('tagged.%s.enc.%s' % (codec, r[0] if r[0] == 'ok' else r[1].split(':')[0]))
                if r[0] != 'ok':
                    if prop == 'C01' and codec == 'oer' and r[1] == 'Foreign:TypeError' and nested_untagged_choice(t):
                        sink.known_finding('C01-oer-untagged-nested-choice', 'oer: a CHOICE alternative that is itself an untagged CHOICE has no tag of its own; the encoder raises TypeError (len(None))')
                        continue
                    if prop == 'C01' and r[1] != 'Timeout' and not tags:
                        sink.violation('%s: a checked value of an explicitly tagged type is rejected by the encoder (%s)' % (codec, r[1]),
                                       {'codec': codec, 'module': text, 'value': repr(v), 'error': r[2][:200]})
                    continue
                if prop == 'C03' and codec == 'der':
                    try:
                        want = der(t, v, mm)
                    except Skip:
                        want = None
                    if want is not None and want != r[1]:
                        dk = default_kinds(t, set())
                        if dk & {'null', 'seq', 'set', 'seqof', 'setof', 'choice'}:
                            sink.known_finding('C03-default-valued-component-not-elided', 'a NULL / structured DEFAULT equal to the value is encoded')
                        else:
                            sink.violation('der: output differs from the X.690 distinguished encoding of an explicitly tagged type',
                                           {'module': text, 'value': repr(v), 'impl': r[1].hex(), 'x690': want.hex()})
                        continue
                if prop == 'C01':
                    d = impl.decode(spec, 'A', r[1])
                    if d[0] != 'ok' and d[1] == 'Timeout':
                        continue
                    if d[0] != 'ok' or not py_equal(t, d[1], v):
                        if tags:
                            sink.known_finding('C01-' + sorted(tags)[0], 'known shape under explicit tagging')
                            continue
                        sink.violation('%s: a value of an explicitly tagged type does not round-trip' % codec,
                                       {'codec': codec, 'module': text, 'value': repr(v), 'encoded': r[1].hex() if codec not in ('jer', 'xer', 'gser') else repr(r[1])[:300],
                                        'decoded': repr(d[1:])[:400]})


# ---------------------------------------------------------------------------------------------------------------------
# SET: the textual order of the components is not part of the type.  DER, PER, UPER and OER all encode a SET as the SEQUENCE of
# its components in canonical tag order (X.690 10.3, X.691 21.1, X.696 17): writing the same components in another textual order
# (tags spelled out, so that nothing else changes) must give identical octets, whatever is OPTIONAL / DEFAULT / present.

def set_order_case(rng, Gen, Opts):
    g = Gen(rng, Opts(max_depth=1, allow_exotic=0.0, allow_ext=False, kinds=['bool', 'int', 'enum', 'octs', 'null', 'str', 'bits']))
    n = rng.randint(2, 7)
    used = set()
    members = []
    for i in range(n):
        t = g.type(depth=3)
        tg = None
        while tg is None or tg[:2] in used:
            tg = (rng.choice(['', '', 'APPLICATION', 'PRIVATE']), rng.choice([0, 1, 2, 3, 4, 5, 6, 7, 8, 9, 30, 31, 127, 128]), rng.choice(['', 'IMPLICIT', 'EXPLICIT']))
        used.add(tg[:2])
        m = {'name': 'c%d' % i, 't': t, 'opt': False, 'default': None, 'tag': tg}
        x = rng.random()
        if x < 0.45:
            m['opt'] = True
        elif x < 0.65 and t['k'] in ('bool', 'int', 'enum', 'octs'):
            m['default'] = g.value(t, for_default=True)
        members.append(m)
    return g, members


def run_set_order(sink, prop, rng, n, impl, codecs, Gen, Opts, module_text):
    for case in range(n):
        g, members = set_order_case(rng, Gen, Opts)
        orders = [list(members)]
        for _ in range(2):
            o = list(members)
            rng.shuffle(o)
            orders.append(o)
        order_rank = {'': 2, 'APPLICATION': 1, 'PRIVATE': 3}
        orders.append(sorted(members, key=lambda m: (order_rank[m['tag'][0]], m['tag'][1])))
        mode = rng.choice(['', 'EXPLICIT TAGS', 'IMPLICIT TAGS'])
        wrap = rng.random() < 0.4          # the SET nested in a SEQUENCE / as a list element
        texts = []
        for o in orders:
            t = {'k': 'set', 'root': o, 'ext': None}
            if wrap:
                t = {'k': 'seq', 'root': [{'name': 'pre', 't': {'k': 'bool'}, 'opt': False, 'default': None, 'tag': ('', 0, '')},
                                          {'name': 's', 't': t, 'opt': False, 'default': None, 'tag': ('', 1, '')}], 'ext': None}
            texts.append(module_text([('A', t)], tags=mode))
        t0 = {'k': 'set', 'root': members, 'ext': None}
        vals = []
        for _ in range(5):
            v = g.value(t0)
            for m in members:                     # mixed presence
                if (m['opt'] or m['default'] is not None) and rng.random() < 0.5:
                    v.pop(m['name'], None)
            vals.append({'pre': True, 's': v} if wrap else v)
        for codec in codecs:
            specs = []
            for tx in texts:
                st, sp = impl.compile_text(tx, codec)
                specs.append(sp if st == 'ok' else None)
            if None in specs:
                sink.count('setorder.compile-failed.%s' % codec)
                continue
            for v in vals:
                outs = [impl.encode(sp, 'A', v) for sp in specs]
                sink.case((texts[0], repr(v), codec))
                sink.count('setorder.%s.%s' % (codec, outs[0][0] if outs[0][0] == 'ok' else outs[0][1].split(':')[0]))
                if len({o[:2] for o in outs}) > 1:
                    sink.violation('%s: the octets of a SET value depend on the textual order of its components (must be the canonical tag order)' % codec,
                                   {'codec': codec, 'value': repr(v), 'modules': texts, 'encodings': [o[1].hex() if o[0] == 'ok' else o[1] for o in outs]})
                    continue
                if outs[0][0] == 'ok':
                    ds = [impl.decode(sp, 'A', outs[0][1]) for sp in specs]
                    if len({repr(d[:2]) for d in ds}) > 1:
                        sink.violation('%s: decoding of a SET value depends on the textual order of its components' % codec,
                                       {'codec': codec, 'value': repr(v), 'modules': texts, 'decoded': [repr(d[:2])[:200] for d in ds]})


def run_c16(sink, rng, n, impl, codecs, Gen, Opts, module_text):
    """every strict prefix of a valid encoding of an explicitly tagged type (high tag numbers, untagged CHOICE at the top or inside
    indefinite-free constructed values) is the library's decode error — never a value, never a foreign exception"""
    opts = Opts(max_depth=2, allow_exotic=0.0, big_lengths=0.0, many_additions=0.0,
                kinds=['bool', 'null', 'int', 'enum', 'octs', 'bits', 'str', 'seq', 'set', 'seqof', 'choice', 'choice'])
    done = tries = 0
    while done < n and tries < 30 * n:
        tries += 1
        g = Gen(rng, opts)
        t = g.type()
        if t['k'] not in ('seq', 'set', 'choice', 'seqof', 'setof'):
            continue
        decorate(rng, t, p_tag=0.7)
        mode = rng.choice(['', 'EXPLICIT TAGS', 'IMPLICIT TAGS'])
        text = module_text([('A', t)], tags=mode)
        vals = [g.value(t) for _ in range(3)]
        done += 1
        for codec in codecs:
            st, spec = impl.compile_text(text, codec)
            if st != 'ok':
                continue
            for v in vals:
                if value_tags(t, v, codec):
                    continue
                r = impl.encode(spec, 'A', v)
                if r[0] != 'ok':
                    continue
                data = r[1]
                own = impl.decode(spec, 'A', data)
                if own[0] != 'ok' or not py_equal(t, own[1], v):
                    continue
                cuts = range(len(data)) if len(data) <= 48 else list(range(40)) + list(range(len(data) - 8, len(data)))
                for k in cuts:
                    d = impl.decode(spec, 'A', data[:k])
                    sink.case((text, data.hex(), k, codec))
                    sink.count('tagged.prefix.%s.%s' % (codec, 'value' if d[0] == 'ok' else d[1].split(':')[0]))
                    if d[0] == 'ok' or d[1] != 'DecodeError':
                        sink.violation('%s: a strict prefix of a valid encoding of an explicitly tagged type %s' % (codec, 'decodes to a value' if d[0] == 'ok' else 'raises %s' % d[1]),
                                       {'codec': codec, 'module': text, 'value': repr(v), 'encoded': data.hex(), 'prefix_length': k, 'result': repr(d[1:])[:300]})
                        break


# ---------------------------------------------------------------------------------------------------------------------
# C04 for explicitly tagged types: a SHAPE tree of the DER encoding (which nodes are strings, which are SETs) drives an
# independent re-serialiser into the other forms X.690 allows and the certification of every variant by the independent reader.
#   ('P', ident, content)            primitive, not a string
#   ('S', ident, 'o' | 'b', content) OCTET / character string ('o') or BIT STRING ('b'); ident in primitive form
#   ('C', ident, [children], is_set) constructed

def shape(t, v, mm):
    if t.get('own_tag'):
        inner = {x: y for x, y in t.items() if x != 'own_tag'}
        return shape_tag(shape(inner, v, mm), t['own_tag'], inner, mm)
    k = t['k']
    if k in ('bool', 'int', 'null', 'enum'):
        e = der(t, v, mm)                    # one identifier octet; the length octets are re-derived by the re-serialisers
        _, _, _, rest = split_ident(e)
        n_len = 1 if rest[0] < 0x80 else 1 + (rest[0] & 0x7f)
        return ('P', e[:len(e) - len(rest)], rest[n_len:])
    if k == 'octs':
        return ('S', b'\x04', 'o', bytes(v))
    if k == 'str':
        return ('S', bytes([STR_TAG[t['kind']]]), 'o', v.encode('utf-8'))
    if k == 'bits':
        return ('S', b'\x03', 'b', _bits_content(v))
    if k == 'seqof':
        return ('C', b'\x30', [shape(t['elem'], e_, mm) for e_ in v], False)
    if k == 'setof':
        kids = [shape(t['elem'], e_, mm) for e_ in v]
        kids.sort(key=shape_der)
        return ('C', b'\x31', kids, False)        # SET OF: the order of the encoder output is kept (any order is the same multiset)
    if k in ('seq', 'set'):
        parts = []
        for m in t['root'] + (t['ext'] or []):
            if m['name'] not in v:
                if not m['opt'] and m['default'] is None:
                    raise Skip('mandatory component absent')
                continue
            if m['default'] is not None and py_equal(m['t'], m['default'], v[m['name']]):
                continue
            parts.append(shape_tag(shape(m['t'], v[m['name']], mm), m.get('tag'), m['t'], mm))
        return ('C', b'\x31' if k == 'set' else b'\x30', parts, k == 'set')
    if k == 'choice':
        for n, at in t['root'] + (t['ext'] or []):
            if n == v[0]:
                return shape_tag(shape(at, v[1], mm), at.get('alt_tag'), at, mm)
        raise Skip('unknown alternative')
    raise Skip(k)


def _bits_content(v):
    data, n = bytes(v[0]), v[1]
    nb = (n + 7) // 8
    data = bytearray(data[:nb])
    unused = (8 - n % 8) % 8
    if unused and data:
        data[-1] &= (0xff << unused) & 0xff
    return bytes([unused]) + bytes(data)


def shape_tag(sh, tag, t, module_mode):
    if not tag:
        return sh
    cls, num, mode = tag
    mode = mode or module_mode
    if t['k'] == 'choice':
        mode = 'EXPLICIT'
    if mode == 'EXPLICIT':
        return ('C', ident(cls, num, True), [sh], False)
    if sh[0] == 'C':
        return ('C', ident(cls, num, True), sh[2], sh[3])
    return (sh[0], ident(cls, num, False)) + tuple(sh[2:])


def _set_key(e):
    order = {0x00: 0, 0x40: 1, 0x80: 2, 0xc0: 3}
    c, n, _, _ = split_ident(e)
    return (order[c], n)


def shape_der(sh):
    if sh[0] == 'P':
        return tlv(sh[1], sh[2])
    if sh[0] == 'S':
        return tlv(sh[1], sh[3])
    kids = [shape_der(c) for c in sh[2]]
    if sh[3]:
        kids.sort(key=_set_key)
    return tlv(sh[1], b''.join(kids))


def shape_variant(sh, rng, f):
    from . import tlv as T
    if sh[0] == 'P':
        return T.frame(sh[1], sh[2], False, rng, f)
    if sh[0] == 'S':
        return T.string_variant(sh[2], sh[1], sh[3], rng, f)
    kids = [shape_variant(c, rng, f) for c in sh[2]]
    if sh[3] and rng.random() < f.perm:
        rng.shuffle(kids)
    return T.frame(sh[1], b''.join(kids), True, rng, f)


def shape_canon(node, sh):
    """DER re-serialisation of a parsed BER variant, guided by the shape (raises ValueError when the variant is not a valid form)"""
    from . import tlv as T
    if sh[0] == 'P':
        if node.children is not None or node.tag != sh[1]:
            raise ValueError('primitive expected')
        return tlv(node.tag, node.content)
    if sh[0] == 'S':
        if T.with_constructed(node.tag, False) != sh[1]:
            raise ValueError('string identifier')
        return tlv(sh[1], T._flatten_string(node, sh[2] == 'b'))
    if node.children is None or node.tag != sh[1] or len(node.children) != len(sh[2]):
        raise ValueError('constructed expected')
    kids = list(node.children)
    if sh[3]:
        def first(s):
            return T.with_constructed(s[1], False)
        want = {first(c): c for c in sh[2]}
        pairs = [(ch, want[T.with_constructed(ch.tag, False)]) for ch in kids]
        parts = [shape_canon(ch, c) for ch, c in pairs]
        parts.sort(key=_set_key)
    else:
        parts = [shape_canon(ch, c) for ch, c in zip(kids, sh[2])]
    return tlv(sh[1], b''.join(parts))


def variants_check(sink, impl, spec, name, t, v, mm, text, rng, per_kind=2, encoded=None):
    """every kind of re-serialisation of the encoder output of (t, v), certified, must decode to v"""
    from . import tlv as T
    try:
        sh = shape(t, v, mm)
    except Skip:
        return
    want = shape_der(sh)
    if encoded is not None and encoded != want:
        sink.count('tagged.c04.encoder-output-is-not-the-der-form')  # BER keeps the SET / SET OF order of the value; the variants below are forms of the DER encoding of the same value
    seen = {want}
    kinds = dict(T.KINDS)
    kinds.update(T.SET_KINDS)
    for kind, forms in kinds.items():
        for _ in range(per_kind):
            alt = shape_variant(sh, rng, forms)
            if alt in seen:
                continue
            seen.add(alt)
            sink.case((text, name, alt.hex()))
            try:
                n2, e2 = T.parse_any(alt)
                ok = e2 == len(alt) and shape_canon(n2, sh) == want
            except Exception:
                ok = False
            if not ok:
                sink.count('tagged.c04.variant-not-certified.' + kind)
                continue
            d = impl.decode(spec, name, alt)
            sink.count('tagged.c04.%s.%s' % (kind, 'accepted' if d[0] == 'ok' else d[1].split(':')[0]))
            if d[0] == 'ok' and py_equal(t, d[1], v):
                continue
            if d[0] != 'ok' and d[1] == 'Timeout':
                continue
            sink.violation('ber: a valid re-serialisation (%s) of an encoder output of an explicitly tagged type is not decoded to the value that was encoded' % kind,
                           {'module': text, 'type': name, 'value': repr(v), 'variant': alt.hex(), 'kind': kind, 'impl': repr(d)[:400], 'encoder_output': want.hex()})


def run_c04(sink, rng, n, impl, Gen, Opts, module_text):
    opts = Opts(max_depth=3, allow_exotic=0.0, big_lengths=0.0, many_additions=0.05,
                kinds=['bool', 'null', 'int', 'enum', 'octs', 'octs', 'bits', 'str', 'str', 'seq', 'seq', 'set', 'seqof', 'setof', 'choice'])
    done = tries = 0
    while done < n and tries < 20 * n:
        tries += 1
        g = Gen(rng, opts)
        t = g.type()
        if t['k'] not in ('seq', 'set', 'choice', 'seqof', 'setof'):
            continue
        decorate(rng, t)
        mode = rng.choice(['', 'EXPLICIT TAGS', 'IMPLICIT TAGS', 'IMPLICIT TAGS'])
        mm = 'IMPLICIT' if mode.startswith('IMPLICIT') else 'EXPLICIT'
        text = module_text([('A', t)], tags=mode)
        st, spec = impl.compile_text(text, 'ber')
        if st != 'ok':
            sink.count('tagged.c04.compile.' + st)
            continue
        done += 1
        for _ in range(3):
            v = g.value(t)
            if value_tags(t, v, 'ber'):
                continue
            r = impl.encode(spec, 'A', v)
            if r[0] != 'ok':
                continue
            own = impl.decode(spec, 'A', r[1])
            if own[0] != 'ok' or not py_equal(t, own[1], v):
                continue            # C01's business
            variants_check(sink, impl, spec, 'A', t, v, mm, text, rng, encoded=r[1])
