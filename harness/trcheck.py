"""Translator validation: the definitions that harness/py2lean.py emits into lean/Asn1Model/Translated.lean are run
(compiled, `trdriver`) against the Python functions they were translated from, imported from the tree under test, on
boundary-biased inputs and — for `per.Encoder` — on random method-call sequences applied to a real object, comparing the
complete object state after every call.  A difference means the translator (trusted base of the bridge theorems) or its
declared domain is wrong for the current source: it is reported as a broken correspondence, never as a violation of a
property by itself.

Domains (documented preconditions of the translation, see py2lean's doc string): integers that the callers pass as
non-negative are generated non-negative; shift counts / bit counts are non-negative; octet values are 0..255."""
import importlib
import os
import random
import subprocess

from . import core

TRDRIVER = os.path.join(core.LEAN, '.lake', 'build', 'bin', 'trdriver')

EDGES = sorted(set([0, 1, 2, 3, 7, 8, 9, 15, 16, 17, 30, 31, 32, 39, 40, 62, 63, 64, 65, 79, 80, 119, 120, 127, 128, 129, 255, 256, 257,
                    4095, 4096, 4097, 16383, 16384, 16385, 32767, 32768, 32769, 49151, 49152, 49153, 65535, 65536, 65537,
                    1677725, 1677726, 1677727, 2097151, 2097152, 16777215, 16777216, 16777217, 2 ** 31 - 1, 2 ** 31, 2 ** 32 - 1,
                    2 ** 32, 2 ** 32 + 1, 2 ** 63 - 1, 2 ** 63, 2 ** 64 - 1, 2 ** 64, 2 ** 64 + 1, 2 ** 127, 2 ** 128 - 1, 2 ** 128]))


def nat(rng):
    r = rng.random()
    if r < 0.45:
        return rng.choice(EDGES)
    if r < 0.55:
        return max(0, rng.choice(EDGES) + rng.randint(-2, 2))
    return rng.getrandbits(rng.choice([1, 3, 6, 7, 8, 9, 14, 15, 16, 17, 24, 31, 32, 33, 56, 63, 64, 65, 100, 200]))


def anyint(rng):
    n = nat(rng)
    return -n if rng.random() < 0.5 else n


def small(rng, hi=70):
    return rng.choice([0, 1, 2, 7, 8, 9, 15, 16, 17, rng.randint(0, hi)])


def octets(rng, n=None):
    n = rng.choice([0, 1, 2, 3, 8, 17]) if n is None else n
    return bytes(rng.choice([0, 1, 0x7f, 0x80, 0xff, rng.randrange(256)]) for _ in range(n))


def to_sx(v):
    if isinstance(v, bool):
        return 'T' if v else 'F'
    if isinstance(v, int):
        return str(v)
    if v is None:
        return 'none'
    if isinstance(v, (bytes, bytearray)):
        return '(' + ' '.join(str(b) for b in v) + ')'
    if isinstance(v, (list, tuple)):
        return '(' + ' '.join(to_sx(x) for x in v) + ')'
    if isinstance(v, str):
        return 's:' + v
    raise TypeError('no wire form for %r' % (v,))


RICH_KEYS = {'ber.skip_tag', 'ber.decode_length', 'ber.read_tag', 'ber.skip_tag_length_contents', 'ber.detect_end_of_contents_tag', 'ber.decode_full_length'}


def call(f, *args, rich=False):
    try:
        return to_sx(f(*args))
    except Exception as e:                                   # the exception class (and, for the BER framing errors, its attributes) is the observable
        if rich:
            extra = [getattr(e, a) for a in ('offset', 'expected_length') if isinstance(getattr(e, a, None), int)]
            return '(err %s%s)' % (type(e).__name__, ''.join(' %d' % x for x in extra))
        return '(err %s)' % type(e).__name__


def enc_state(e):
    return [e.number_of_bits, e.value, e.chunks_number_of_bits, [list(c) for c in e.chunks]]


def norm(s):
    return ' '.join(s.replace('(', ' ( ').replace(')', ' ) ').split())


# which translated definitions each property's check validates (and whose bridge theorems are among its obligations)
TR_PREFIXES = {
    'C01': ['ber.encode_object_identifier_subidentifier', 'ber.decode_object_identifier_subidentifier', 'compiler.lowest_set_bit',
            'per.Encoder', 'per.Decoder', 'oer.Encoder', 'oer.Decoder'],
    'C08': ['per.Decoder', 'oer.Decoder'],
    'C16': ['per.Decoder', 'oer.Decoder', 'ber.skip_tag', 'ber.decode_length', 'ber.skip_tag_length_contents', 'ber.detect_end_of_contents_tag'],
    'C04': ['ber.skip_tag', 'ber.decode_length', 'ber.detect_end_of_contents_tag'],
    'C03': ['ber.encode_length_definite', 'ber.encode_tag'],
    'C05': ['per.'],
    'C06': ['oer.'],
    'C09': ['c_uper.'],
    'C10': ['c_oer.'],
    'C15': ['ber.encode_length_definite', 'ber.encode_tag', 'ber.skip_tag', 'ber.decode_length', 'ber.read_tag', 'ber.skip_tag_length_contents',
            'ber.detect_end_of_contents_tag', 'ber.decode_full_length'],
}

def tlv_like(rng):
    """octets shaped like BER identifier + length (+ contents), cut at arbitrary places"""
    x = rng.random()
    tag = bytes([rng.choice([0x30, 0x04, 0x02, 0x1f, 0x5f, 0x9f, 0xbf, 0x7f, rng.randrange(256)])])
    if tag[0] & 0x1f == 0x1f:
        tag += bytes(rng.choice([0x81, 0x80, 0xff]) for _ in range(rng.choice([0, 0, 1, 2, 5]))) + bytes([rng.choice([0x00, 0x1f, 0x7f, rng.randrange(128)])])
    n = rng.choice([0, 1, 5, 127, 128, 129, 255, 256, 300])
    ln = rng.choice([bytes([n]) if n < 128 else bytes([0x81, n & 0xff]), bytes([0x80]), bytes([0x82, n >> 8, n & 0xff]), bytes([0x83, 0, n >> 8, n & 0xff]),
                     bytes([0x84, 0xff, 0xff, 0xff, 0xff]), bytes([0xff]) + bytes(3)])
    body = bytes(rng.randrange(256) for _ in range(min(n, 40) if x < 0.5 else n))
    d = tag + ln + body + octets(rng, rng.choice([0, 0, 2]))
    if rng.random() < 0.5:
        d = d[:rng.randint(0, len(d))]
    if rng.random() < 0.1:
        d = octets(rng)
    return d


FUNCTION_DOMAINS = {
    'ber.skip_tag': lambda r: (lambda d: [d, r.randint(0, len(d) + 1)])(tlv_like(r)),
    'ber.decode_length': lambda r: (lambda d: [d, r.randint(0, len(d) + 1)])(tlv_like(r)),
    'ber.read_tag': lambda r: (lambda d: [d, r.randint(0, len(d) + 1)])(tlv_like(r)),
    'ber.skip_tag_length_contents': lambda r: (lambda d: [d, r.choice([0, 0, 0, r.randint(0, len(d) + 1)])])(tlv_like(r)),
    'ber.detect_end_of_contents_tag': lambda r: (lambda d: [d, r.randint(0, len(d) + 1)])(r.choice([b'\x00\x00', b'\x00', b'', b'\x00\x01', octets(r), b'\x05\x00\x00\x00'])),
    'ber.decode_full_length': lambda r: [tlv_like(r)],
    'ber.encode_length_definite': lambda r: [nat(r)],
    'ber.encode_tag': lambda r: [nat(r), r.choice([0, 0x20, 0x40, 0x60, 0x80, 0xa0, 0xc0, 0xe0])],
    'ber.encode_object_identifier_subidentifier': lambda r: [nat(r)],
    'ber.decode_object_identifier_subidentifier': lambda r: (lambda d: [d, r.randint(0, len(d))])(octets(r)),
    'oer.encode_tag': lambda r: [nat(r), r.choice([0, 0x40, 0x80, 0xc0])],
    'per.integer_as_number_of_bits': lambda r: [nat(r)],
    'per.integer_as_number_of_bits_power_of_two': lambda r: [nat(r)],
    'per.size_as_number_of_bytes': lambda r: [nat(r)],
    'per.to_byte_array': lambda r: [nat(r), small(r, 300)],
    'c_oer.get_length_determinant_length': lambda r: [nat(r)],
    'c_uper.does_bits_match_range': lambda r: (lambda lo, w: [small(r), lo, lo + w - 1 if r.random() < 0.5 else lo + nat(r)])(anyint(r), 2 ** small(r)),
    'compiler.lowest_set_bit': lambda r: [nat(r)],
}

MODULES = {'ber': 'asn1tools.codecs.ber', 'oer': 'asn1tools.codecs.oer', 'per': 'asn1tools.codecs.per',
           'c_oer': 'asn1tools.source.c.oer', 'c_uper': 'asn1tools.source.c.uper', 'compiler': 'asn1tools.codecs.compiler'}


def encoder_op(rng, e):
    """one random method call on a per.Encoder within the domain of the translation: (method name, args)"""
    m = rng.choice(['append_bit', 'append_non_negative_binary_integer', 'append_non_negative_binary_integer', 'append_bits', 'append_bytes',
                    'append_length_determinant', 'append_normally_small_non_negative_whole_number', 'append_normally_small_length',
                    'append_constrained_whole_number', 'append_unconstrained_whole_number', 'align_always', 'align', 'number_of_bytes',
                    '__iadd__', 'big', 'as_bytearray'])
    if m == 'append_bit':
        return m, [rng.randint(0, 1)]
    if m == 'append_non_negative_binary_integer':
        w = small(rng, 80)
        return m, [rng.getrandbits(w) if w else 0, w]
    if m == 'big':                                           # crosses the 4096-bit chunk threshold
        w = rng.choice([4090, 4096, 4097, 5000])
        return 'append_non_negative_binary_integer', [rng.getrandbits(w), w]
    if m == 'append_bits':
        d = octets(rng, rng.choice([1, 2, 3, 9]))
        return m, [d, rng.randint(0, 8 * len(d))]
    if m == 'append_bytes':
        return m, [octets(rng, rng.choice([1, 2, 5]))]
    if m == 'append_length_determinant':
        return m, [nat(rng) % 200000]
    if m == 'append_normally_small_non_negative_whole_number':
        return m, [nat(rng)]
    if m == 'append_normally_small_length':
        return m, [rng.choice([1, 2, 63, 64, 65, 127, 128, 200, rng.randint(1, 300)])]
    if m == 'append_constrained_whole_number':
        lo = anyint(rng)
        rngw = rng.choice([1, 2, 255, 256, 257, 65535, 65536, 65537, nat(rng) + 1])
        hi = lo + rngw - 1
        v = rng.choice([lo, hi, rng.randint(lo, hi)])
        return m, [v, lo, hi, (hi - lo).bit_length()]
    if m == 'append_unconstrained_whole_number':
        return m, [anyint(rng)]
    return m, []


OBJ_FIELDS = {'oer.Encoder': ['number_of_bits', 'value'], 'oer.Decoder': ['number_of_bits', 'total_number_of_bits', 'value'],
              'per.Decoder': ['number_of_bits', 'total_number_of_bits', 'value']}
PURE_METHODS = {'number_of_bytes', 'number_of_read_bits', 'peek_bit', 'as_bytearray'}


def oer_encoder_op(rng, e):
    m = rng.choice(['append_bit', 'append_non_negative_binary_integer', 'append_bits', 'append_u8', 'append_bytes', 'append_length_determinant',
                    'append_integer', 'append_unsigned_integer', 'align', 'number_of_bytes', '__iadd__', 'as_bytearray'])
    if m == 'append_bit':
        return m, [rng.randint(0, 1)]
    if m == 'append_non_negative_binary_integer':
        w = small(rng, 80)
        return m, [rng.getrandbits(w) if w else 0, w]
    if m == 'append_bits':
        d = octets(rng, rng.choice([1, 2, 3, 9]))
        return m, [d, rng.randint(0, 8 * len(d))]
    if m == 'append_u8':
        return m, [rng.randrange(256)]
    if m == 'append_bytes':
        return m, [octets(rng, rng.choice([1, 2, 5]))]
    if m == 'append_length_determinant':
        return m, [rng.choice([nat(rng), 2 ** (8 * 127) - 1, 2 ** (8 * 127), 2 ** (8 * 127) + 5])]
    if m == 'append_integer':
        return m, [anyint(rng)]
    if m == 'append_unsigned_integer':
        return m, [nat(rng)]
    return m, []


def oer_decoder_op(rng, d):
    m, args = _oer_decoder_op(rng, d)
    if m == 'read_bits':
        args = [8 * ((args[0] + 7) // 8)]      # the OER codec reads whole octets with read_bits (read_bytes); other widths are outside its domain
    return m, args


def _oer_decoder_op(rng, d):
    m = rng.choice(['align', 'number_of_read_bits', 'skip_bits', 'peek_bit', 'read_bit', 'read_bits', 'read_byte', 'read_bytes',
                    'read_non_negative_binary_integer', 'read_length_determinant', 'read_integer', 'read_unsigned_integer', 'read_tag'])
    if m in ('skip_bits', 'read_non_negative_binary_integer'):
        return m, [rng.choice([0, 1, 3, 7, 8, 9, 16, d.number_of_bits, d.number_of_bits + 1, rng.randint(0, 40)])]
    if m == 'read_bits':
        return m, [rng.choice([1, 3, 7, 8, 9, 16, max(1, d.number_of_bits), d.number_of_bits + 1, rng.randint(1, 40)])]
    if m == 'read_bytes':
        return m, [rng.choice([1, 2, 3, max(1, d.number_of_bits // 8), d.number_of_bits // 8 + 1])]
    return m, []


def per_decoder_op(rng, d):
    m = rng.choice(['align_always', 'align', 'number_of_read_bits', 'skip_bits', 'read_bit', 'read_bits', 'read_bytes',
                    'read_non_negative_binary_integer', 'read_length_determinant', 'read_normally_small_non_negative_whole_number',
                    'read_normally_small_length', 'read_constrained_whole_number', 'read_unconstrained_whole_number'])
    if m in ('skip_bits', 'read_non_negative_binary_integer'):
        return m, [rng.choice([0, 1, 3, 7, 8, 9, 16, d.number_of_bits, d.number_of_bits + 1, rng.randint(0, 40)])]
    if m == 'read_bits':
        return m, [rng.choice([1, 3, 7, 8, 9, 16, max(1, d.number_of_bits), d.number_of_bits + 1, rng.randint(1, 40)])]
    if m == 'read_bytes':
        return m, [rng.choice([1, 2, 3, max(1, d.number_of_bits // 8), d.number_of_bits // 8 + 1])]
    if m == 'read_constrained_whole_number':
        lo = anyint(rng)
        w = rng.choice([1, 2, 255, 256, 257, 65535, 65536, 65537, nat(rng) % (2 ** 40) + 1])
        return m, [lo, lo + w - 1, (w - 1).bit_length()]
    return m, []


def run(sink, prefixes, seed, n_fn=300, n_seq=60, seq_len=25):
    """sink: Ctx or Part (count / disagreement / case).  prefixes: which translated keys to validate, e.g. ['per.', 'ber.encode_tag']."""
    if not os.path.exists(TRDRIVER):
        sink.disagreement('translated.driver', 'trdriver is not built (the translated definitions do not compile?)')
        return
    rng = random.Random(seed * 7919 + 13)
    requests, expected, labels = [], [], []
    for key, dom in sorted(FUNCTION_DOMAINS.items()):
        if not any(key.startswith(p) for p in prefixes):
            continue
        mod, fname = key.split('.', 1)
        try:
            f = getattr(importlib.import_module(MODULES[mod]), fname)
        except Exception as e:
            sink.disagreement('translated.' + key, 'cannot import the Python function: %r' % (e,))
            continue
        for i in range(n_fn):
            args = dom(rng)
            requests.append(key + '\t' + '\t'.join(to_sx(a) for a in args))
            expected.append(call(f, *args, rich=key in RICH_KEYS))
            labels.append((key, args))
    if any('per.Encoder'.startswith(p) or p.startswith('per.Encoder') for p in prefixes):
        per = importlib.import_module(MODULES['per'])
        # the sequences are generated first (the expected states come from the real object), then replayed by the driver
        for s in range(n_seq):
            e = per.Encoder()
            for step in range(seq_len):
                m, args = encoder_op(rng, e)
                before = enc_state(e)
                key = 'per.Encoder.' + m
                if m == '__iadd__':
                    o = per.Encoder()
                    for _ in range(rng.randint(0, 4)):
                        om, oargs = encoder_op(rng, o)
                        if om not in ('__iadd__', 'number_of_bytes'):
                            try:
                                getattr(o, om)(*oargs)
                            except NotImplementedError:
                                pass
                    req = key + '\t' + to_sx(before) + '\t' + to_sx(enc_state(o))
                    e += o
                    exp = to_sx(enc_state(e))
                else:
                    req = key + '\t' + '\t'.join([to_sx(before)] + [to_sx(a) for a in args])
                    try:
                        r = getattr(e, m)(*args)
                        if m in ('number_of_bytes', 'as_bytearray'):
                            exp = to_sx(r)
                        elif r is None:
                            exp = to_sx(enc_state(e))
                        else:
                            exp = to_sx([enc_state(e), r])
                    except Exception as ex:
                        exp = '(err %s)' % type(ex).__name__
                requests.append(req)
                expected.append(exp)
                labels.append((key, args))
    for cls_key, gen in (('oer.Encoder', oer_encoder_op), ('oer.Decoder', oer_decoder_op), ('per.Decoder', per_decoder_op)):
        if not any(cls_key.startswith(p) or p.startswith(cls_key) for p in prefixes):
            continue
        mod = importlib.import_module(MODULES[cls_key.split('.')[0]])
        cls = getattr(mod, cls_key.split('.')[1])
        fields = OBJ_FIELDS[cls_key]
        for sq in range(n_seq):
            obj = cls() if cls_key.endswith('Encoder') else cls(octets(rng, rng.choice([0, 1, 2, 3, 5, 9, 20, 140])))
            for step in range(seq_len):
                m, args = gen(rng, obj)
                before = [getattr(obj, f) for f in fields]
                key = cls_key + '.' + m
                if m == '__iadd__':
                    o = cls()
                    for _ in range(rng.randint(0, 3)):
                        om, oargs = gen(rng, o)
                        if om != '__iadd__':
                            try:
                                getattr(o, om)(*oargs)
                            except Exception:
                                pass
                    req = key + '\t' + to_sx(before) + '\t' + to_sx([getattr(o, f) for f in fields])
                    obj += o
                    exp = to_sx([getattr(obj, f) for f in fields])
                    failed = False
                else:
                    req = key + '\t' + '\t'.join([to_sx(before)] + [to_sx(a) for a in args])
                    failed = False
                    try:
                        r = getattr(obj, m)(*args)
                        after = [getattr(obj, f) for f in fields]
                        if m in PURE_METHODS:
                            exp = to_sx(r)
                        elif r is None:
                            exp = to_sx(after)
                        else:
                            exp = to_sx([after, r])
                    except Exception as ex:
                        exp = '(err %s)' % type(ex).__name__
                        failed = True
                requests.append(req)
                expected.append(exp)
                labels.append((key, args))
                if failed:
                    break                                    # the object may be half-updated after an exception
    for cls_key in ('per.Decoder', 'oer.Decoder'):
        if not any(cls_key.startswith(p) or p.startswith(cls_key) for p in prefixes):
            continue
        cls = getattr(importlib.import_module(MODULES[cls_key.split('.')[0]]), 'Decoder')
        for i in range(max(20, n_fn // 6)):
            data = octets(rng, rng.choice([0, 0, 1, 2, 3, 9, 33, 600]))
            obj = cls(data)
            requests.append(cls_key + '.__init__\t' + to_sx(data))
            expected.append(to_sx([getattr(obj, f) for f in OBJ_FIELDS[cls_key]]))
            labels.append((cls_key + '.__init__', [data]))
    if not requests:
        return
    p = subprocess.run([TRDRIVER], input='\n'.join(requests) + '\n', stdout=subprocess.PIPE, stderr=subprocess.PIPE, text=True, timeout=600)
    got = p.stdout.split('\n')[:-1]
    if len(got) != len(requests):
        sink.disagreement('translated.driver', 'trdriver answered %d lines for %d requests: %s' % (len(got), len(requests), p.stderr[-200:]))
        return
    bad = 0
    for req, exp, g, (key, args) in zip(requests, expected, got, labels):
        sink.count('translated.' + key)
        if norm(exp) != norm(g):
            bad += 1
            if bad <= 3:
                sink.disagreement('translated.' + key, {'request': req[:400], 'python': exp[:300], 'translated_lean': g[:300]})
    sink.count('translated.requests', len(requests))
    sink.count('translated.mismatches', bad)


# ---------------------------------------------------------------------------------------------------------------------
# FAILING-INPUT SEARCH at the level of the translated helpers.  Independent re-statements (written from X.690 / X.691 / X.696,
# not from the code) of what each helper must compute; when a bridge theorem no longer checks, or simply on every run, the
# Python function of the tree under test is compared with them on boundary sweeps far beyond what a whole-codec test can
# reach (lengths of 2^32 octets, tag numbers of 2^70, the 4096-bit chunk threshold of the bit buffer ...).  A difference is a
# concrete failing input of the helper and is reported as a violation of the properties whose statement covers that helper.

def _b128(n):
    out = [n & 0x7f]
    n >>= 7
    while n:
        out.append(0x80 | (n & 0x7f))
        n >>= 7
    return out[::-1]


def _minbytes(n):
    return list(n.to_bytes(max(1, (n.bit_length() + 7) // 8), 'big')) if n else []


def ref_ber_length(n):
    if n <= 127:
        return [n]
    b = _minbytes(n)
    return [0x80 | len(b)] + b


def ref_tag(limit):
    def f(number, flags):
        if number < limit:
            return [flags | number]
        return [flags | limit] + _b128(number)
    return f


def ref_pow2(n):
    if n == 0:
        return 0
    bl, p = n.bit_length(), 1
    while p < bl:
        p *= 2
    return p


def ref_lendet_len(n):
    return 1 if n < 128 else 1 + max(1, (n.bit_length() + 7) // 8)


def _ref_header(data, offset):
    """(offset of the length octets, value of the length field or 'indef', offset of the contents) or None when the header is cut"""
    if offset >= len(data):
        return None
    i = offset + 1
    if data[offset] & 0x1f == 0x1f:
        while True:
            if i >= len(data):
                return None
            i += 1
            if not data[i - 1] & 0x80:
                break
    if i >= len(data):
        return None
    first = data[i]
    if first < 0x80:
        return i, first, i + 1
    if first == 0x80:
        return i, 'indef', i + 1
    k = first & 0x7f
    if i + 1 + k > len(data):
        return None
    return i, int.from_bytes(data[i + 1:i + 1 + k], 'big'), i + 1 + k


def ref_decode_full_length(data):
    h = _ref_header(bytes(data), 0)
    if h is None:
        return None
    if h[1] == 'indef':
        return 'raised DecodeError'
    return h[2] + h[1]


def ref_skip_tag(data, offset):
    h = _ref_header(bytes(data), offset)
    if h is None:
        # skip_tag needs the identifier octets and one more octet
        d = bytes(data)
        i = offset + 1
        if offset >= len(d):
            return 'raised OutOfByteDataError'
        if d[offset] & 0x1f == 0x1f:
            while True:
                if i >= len(d):
                    return 'raised OutOfByteDataError'
                i += 1
                if not d[i - 1] & 0x80:
                    break
        return i if i < len(d) else 'raised OutOfByteDataError'
    return h[0]


REFERENCES = {
    'ber.decode_full_length': (ref_decode_full_length, None),
    'ber.skip_tag': (ref_skip_tag, None),
    'ber.encode_length_definite': (ref_ber_length, lambda n: n < 256 ** 127),
    'ber.encode_tag': (ref_tag(31), None),
    'oer.encode_tag': (ref_tag(63), None),
    'ber.encode_object_identifier_subidentifier': (_b128, None),
    'per.integer_as_number_of_bits': (lambda n: n.bit_length(), None),
    'per.integer_as_number_of_bits_power_of_two': (ref_pow2, None),
    'per.size_as_number_of_bytes': (lambda n: max(1, (n.bit_length() + 7) // 8), None),
    'per.to_byte_array': (lambda num, nbits: list((num % (256 ** ((nbits + 7) // 8))).to_bytes((nbits + 7) // 8, 'big')), None),
    'c_oer.get_length_determinant_length': (ref_lendet_len, lambda n: n < 2 ** 32),     # the generated C counts lengths in uint32_t
    'c_uper.does_bits_match_range': (lambda nb, lo, hi: 2 ** nb == hi - lo + 1, None),
    'compiler.lowest_set_bit': (lambda n: (n & -n).bit_length() - 1 if n else 0, None),
}
SWEEP = sorted(set([0, 1, 2] + [2 ** k + d for k in list(range(1, 80)) + [127, 128, 255, 256, 511, 512, 1000, 1015, 1016, 1017, 1023, 1024] for d in (-1, 0, 1)]
                   + [256 ** k + d for k in (1, 2, 3, 4, 5, 8, 16, 126) for d in (-1, 0, 1)] + [1677725, 1677726, 16777215, 16777216]))
KNOWN_DEVIATION = {
    # the recorded finding C10-lendet-typo: a 4-octet length determinant is predicted for lengths that need 5 ... and vice versa
    'c_oer.get_length_determinant_length': lambda args: 1677726 <= args[0] < 16777216,
}


def canon_out(v):
    if isinstance(v, (bytes, bytearray)):
        return list(v)
    if isinstance(v, tuple):
        return [canon_out(x) for x in v]
    return v


def reference_search(sink, prefixes, seed, n_rand=400):
    """Python helper of the tree under test vs the independent reference; returns the number of deviations found"""
    rng = random.Random(seed * 104729 + 7)
    found = 0
    for key, (ref, dom) in sorted(REFERENCES.items()):
        if not any(key.startswith(p) for p in prefixes):
            continue
        mod, fname = key.split('.', 1)
        try:
            f = getattr(importlib.import_module(MODULES[mod]), fname)
        except Exception:
            continue
        gen = FUNCTION_DOMAINS[key]
        arity = len(gen(rng))
        cases = [gen(rng) for _ in range(n_rand)]
        first_is_int = isinstance(cases[0][0], int) and not isinstance(cases[0][0], bool)
        if not first_is_int:
            pass                                                  # (octet strings: the random / shaped generator is the sweep)
        elif arity == 1:
            cases += [[n] for n in SWEEP]
        elif key != 'c_uper.does_bits_match_range':              # (its first argument is an exponent)
            cases += [[n] + gen(rng)[1:] for n in SWEEP]
        for args in cases:
            if dom is not None and not dom(*args):
                continue
            try:
                got = canon_out(f(*args))
            except Exception as e:
                got = 'raised ' + type(e).__name__
                if key == 'ber.skip_tag' and got != 'raised OutOfByteDataError' and isinstance(e, Exception):
                    got = 'raised ' + type(e).__name__
            want = canon_out(ref(*args))
            sink.count('reference.' + key)
            if got != want:
                if key in KNOWN_DEVIATION and KNOWN_DEVIATION[key](args):
                    sink.known_finding('C10-lendet-typo', 'get_length_determinant_length(%d) = %r, the run-time length determinant has %r octets' % (args[0], got, want))
                    continue
                found += 1
                if found <= 3:
                    sink.violation('helper %s deviates from what the standard prescribes for it' % key,
                                   {'function': key, 'arguments': [str(a) for a in args], 'returned': repr(got)[:300], 'prescribed': repr(want)[:300]})
        # OID subidentifier round trip through the decoder helper
        if key == 'ber.encode_object_identifier_subidentifier':
            dec = getattr(importlib.import_module(MODULES['ber']), 'decode_object_identifier_subidentifier')
            for n in SWEEP + [nat(rng) for _ in range(200)]:
                e = f(n)
                rest = octets(rng, rng.choice([0, 1, 3]))
                try:
                    got = dec(bytes(e) + rest, 0)
                except Exception as ex:
                    got = 'raised ' + type(ex).__name__
                sink.count('reference.ber.decode_object_identifier_subidentifier')
                if got != (n, len(e)):
                    found += 1
                    sink.violation('OBJECT IDENTIFIER subidentifier does not round-trip through encode/decode_object_identifier_subidentifier',
                                   {'subidentifier': str(n), 'encoded': bytes(e).hex(), 'decoded': repr(got)})
                    break
    return found


# --- bit buffer references --------------------------------------------------------------------------------------------

def _bits(v, n):
    return format(v, '0%db' % n) if n else ''


def _lendet_bits(n):
    if n < 128:
        return _bits(n, 8), n
    if n < 16384:
        return _bits(0x8000 | n, 16), n
    k = min(n // 16384, 4)
    return _bits(0xc0 | k, 8), 16384 * k


def _twos(i):
    k = (i.bit_length() // 8 + 1) if i >= 0 else ((-i - 1).bit_length() // 8 + 1)
    return k, _bits(i % (1 << (8 * k)), 8 * k)


def per_encoder_bits(e):
    return ''.join(_bits(v, n) for v, n in e.chunks) + _bits(e.value, e.number_of_bits)


def per_encoder_expected(before_bits, m, args, other_bits=None):
    """bits that method m must append to a buffer holding before_bits; (appended bits, return value) or the exception name"""
    if m == 'append_bit':
        return str(args[0]), None
    if m == 'append_non_negative_binary_integer':
        return _bits(args[0], args[1]), None
    if m == 'append_bits':
        return ''.join(_bits(b, 8) for b in args[0])[:args[1]], None
    if m == 'append_bytes':
        return ''.join(_bits(b, 8) for b in args[0]), None
    if m == 'append_length_determinant':
        return _lendet_bits(args[0])
    if m == 'append_normally_small_non_negative_whole_number':
        v = args[0]
        if v < 64:
            return _bits(v, 7), None
        k = (v.bit_length() + 7) // 8
        return '1' + _lendet_bits(k)[0] + _bits(v, 8 * k), None
    if m == 'append_normally_small_length':
        v = args[0]
        if v <= 64:
            return _bits(v - 1, 7), None
        if v <= 127:
            return _bits(0x100 | v, 9), None
        return 'NotImplementedError'
    if m in ('align', 'align_always'):
        return '0' * (-len(before_bits) % 8), None
    if m == 'append_constrained_whole_number':
        value, lo, hi, nb = args
        rng_ = hi - lo + 1
        pad = '0' * (-len(before_bits) % 8)
        if rng_ <= 255:
            return _bits(value - lo, nb), None
        if rng_ == 256:
            return pad + _bits(value - lo, 8), None
        if rng_ <= 65536:
            return pad + _bits(value - lo, 16), None
        return pad + _bits(value - lo, nb), None
    if m == 'append_unconstrained_whole_number':
        k, body = _twos(args[0])
        return _lendet_bits(k)[0] + body, None
    if m == '__iadd__':
        return other_bits, None
    raise KeyError(m)


def encoder_reference_search(sink, seed, n_seq=40, seq_len=30):
    per = importlib.import_module(MODULES['per'])
    rng = random.Random(seed * 15485863 + 3)
    found = 0
    for s in range(n_seq):
        e = per.Encoder()
        hist = []
        for step in range(seq_len):
            m, args = encoder_op(rng, e)
            if m == 'as_bytearray':
                sink.count('reference.per.Encoder.as_bytearray')
                bits = per_encoder_bits(e)
                bits += '0' * (-len(bits) % 8)
                want = bytes(int(bits[i:i + 8], 2) for i in range(0, len(bits), 8))
                if bytes(e.as_bytearray()) != want:
                    found += 1
                    sink.violation('per.Encoder.as_bytearray is not the octets of the bits written (zero padded)', {'history': hist[-6:], 'returned': bytes(e.as_bytearray()).hex()[-60:], 'prescribed': want.hex()[-60:]})
                continue
            if m == 'number_of_bytes':
                sink.count('reference.per.Encoder.number_of_bytes')
                if e.number_of_bytes() != (len(per_encoder_bits(e)) + 7) // 8:
                    found += 1
                    sink.violation('per.Encoder.number_of_bytes is not the number of octets of the bits written', {'history': hist[-6:], 'returned': e.number_of_bytes(), 'bits_written': len(per_encoder_bits(e))})
                continue
            before = per_encoder_bits(e)
            other_bits = None
            try:
                if m == '__iadd__':
                    o = per.Encoder()
                    for _ in range(rng.randint(0, 4)):
                        om, oargs = encoder_op(rng, o)
                        if om not in ('__iadd__', 'number_of_bytes'):
                            try:
                                getattr(o, om)(*oargs)
                            except NotImplementedError:
                                pass
                    other_bits = per_encoder_bits(o)
                    e += o
                    ret = None
                else:
                    ret = getattr(e, m)(*args)
                got = (per_encoder_bits(e), ret)
            except Exception as ex:
                got = type(ex).__name__
            exp = per_encoder_expected(before, m, args, other_bits)
            want = exp if isinstance(exp, str) else (before + exp[0], exp[1])
            hist.append('%s(%s)' % (m, ', '.join(repr(a)[:40] for a in args)))
            sink.count('reference.per.Encoder.' + m)
            if got != want:
                found += 1
                if found <= 3:
                    def short(x):
                        return x if isinstance(x, str) and len(x) < 30 else (('...' + x[0][-80:], x[1]) if not isinstance(x, str) else x)
                    sink.violation('per.Encoder.%s does not append the bits X.691 prescribes (bit buffer primitive)' % m,
                                   {'history_of_calls_on_one_Encoder': hist[-8:], 'bits_before': len(before), 'got_tail_and_return': repr(short(got))[:300], 'prescribed_tail_and_return': repr(short(want))[:300]})
                break
            if isinstance(got, str):
                break
    return found


def run_for_property(ctx):
    prefixes = TR_PREFIXES.get(ctx.prop)
    if not prefixes:
        return
    quick = ctx.tier != 'thorough'
    run(ctx, prefixes, ctx.seed, n_fn=300 if quick else 3000, n_seq=60 if quick else 600)
    reference_search(ctx, prefixes, ctx.seed, n_rand=400 if quick else 4000)
    if any(p == 'per.' or p.startswith('per.Encoder') for p in prefixes):
        encoder_reference_search(ctx, ctx.seed, n_seq=40 if quick else 400)
    which = [k for k in ('per.Decoder', 'oer.Decoder') if any(k.startswith(p) or p.startswith(k) for p in prefixes)]
    if which:
        decoder_reference_search(ctx, ctx.seed, which, n_seq=60 if quick else 600)
    ctx.assumptions.append('translator harness/py2lean.py (Python subset -> Lean) and its declared argument domains: validated on this run by executing '
                           'the translated definitions against the Python functions of the tree under test (histogram keys translated.*)')


# --- bit reader references ------------------------------------------------------------------------------------------------

class RefReader:
    """what the decoder primitives must do, stated over the string of remaining bits (X.691 10.5-10.9, X.696 8.6, 10)"""

    def __init__(self, bits, total):
        self.bits, self.total = bits, total

    def take(self, n):
        if n > len(self.bits):
            raise EOFError()
        out, self.bits = self.bits[:n], self.bits[n:]
        return out

    def nat(self, n):
        b = self.take(n)
        return int(b, 2) if b else 0

    def pos(self):
        return self.total - len(self.bits)

    def align(self):
        self.bits = self.bits[(-self.pos()) % 8:] if (-self.pos()) % 8 <= len(self.bits) else self.bits

    def octets(self, n):
        b = self.take(n)
        b += '0' * (-len(b) % 8)
        return bytes(int(b[i:i + 8], 2) for i in range(0, len(b), 8))

    # PER
    def per_lendet(self):
        v = self.nat(8)
        if v < 128:
            return v
        if v < 192:
            return ((v & 0x7f) << 8) | self.nat(8)
        if v in (0xc1, 0xc2, 0xc3, 0xc4):
            return 16384 * (v & 7)
        raise ValueError('DecodeError')

    def per(self, m, args):
        if m in ('align', 'align_always'):
            self.align()
            return None
        if m == 'number_of_read_bits':
            return self.pos()
        if m == 'skip_bits':
            self.take(args[0])
            return None
        if m == 'read_bit':
            return self.nat(1)
        if m == 'read_non_negative_binary_integer':
            return self.nat(args[0])
        if m == 'read_bits':
            return self.octets(args[0])
        if m == 'read_bytes':
            return self.octets(8 * args[0])
        if m == 'read_length_determinant':
            return self.per_lendet()
        if m == 'read_normally_small_non_negative_whole_number':
            if not self.nat(1):
                return self.nat(6)
            return self.nat(8 * self.per_lendet())
        if m == 'read_normally_small_length':
            if not self.nat(1):
                return self.nat(6) + 1
            if not self.nat(1):
                return self.nat(7)
            raise NotImplementedError()
        if m == 'read_constrained_whole_number':
            lo, hi, nb = args
            r = hi - lo + 1
            if r <= 255:
                return lo + self.nat(nb)
            self.align()
            return lo + self.nat(8 if r == 256 else 16 if r <= 65536 else nb)
        if m == 'read_unconstrained_whole_number':
            k = self.per_lendet()
            v = self.nat(8 * k)
            if k == 0:
                raise ArithmeticError()          # the code computes 1 << -1: a foreign ValueError (outside C08 / C16's scope: not a prefix of a valid encoding)
            return v - (1 << (8 * k)) if v >> (8 * k - 1) else v
        raise KeyError(m)

    # OER
    def oer_lendet(self):
        v = self.nat(8)
        return self.nat(8 * (v & 0x7f)) if v & 0x80 else v

    def oer(self, m, args):
        if m == 'align':
            self.bits = self.bits[len(self.bits) % 8:]
            return None
        if m == 'number_of_read_bits':
            return self.pos()
        if m == 'skip_bits':
            self.take(args[0])
            return None
        if m == 'peek_bit':
            if not self.bits:
                raise EOFError()
            return int(self.bits[0])
        if m == 'read_bit':
            return self.nat(1)
        if m == 'read_non_negative_binary_integer':
            return self.nat(args[0])
        if m == 'read_byte':
            return self.nat(8)
        if m == 'read_bits':
            return self.octets(args[0])
        if m == 'read_bytes':
            return self.octets(8 * args[0])
        if m == 'read_length_determinant':
            return self.oer_lendet()
        if m == 'read_unsigned_integer':
            return self.nat(8 * self.oer_lendet())
        if m == 'read_integer':
            k = self.oer_lendet()
            v = self.nat(8 * k)
            if k == 0:
                raise ArithmeticError()
            return v - (1 << (8 * k)) if v >> (8 * k - 1) else v
        if m == 'read_tag':
            b = self.nat(8)
            out = [b]
            if b & 0x3f == 0x3f:
                while True:
                    b = self.nat(8)
                    out.append(b)
                    if not b & 0x80:
                        break
            return bytes(out)
        raise KeyError(m)


def decoder_reference_search(sink, seed, which, n_seq=60, seq_len=25):
    """real per.Decoder / oer.Decoder objects vs RefReader on random call sequences (result, error class, remaining bits)"""
    rng = random.Random(seed * 32452843 + 11)
    found = 0
    for cls_key, gen in (('per.Decoder', per_decoder_op), ('oer.Decoder', oer_decoder_op)):
        if cls_key not in which:
            continue
        mod = importlib.import_module(MODULES[cls_key.split('.')[0]])
        cls = getattr(mod, 'Decoder')
        for sq in range(n_seq):
            data = octets(rng, rng.choice([0, 1, 2, 3, 5, 9, 20, 140]))
            obj = cls(data)
            ref = RefReader(''.join(format(b, '08b') for b in data), 8 * len(data))
            hist = []
            for step in range(seq_len):
                m, args = gen(rng, obj)
                hist.append('%s(%s)' % (m, ', '.join(repr(a)[:30] for a in args)))
                try:
                    want = ('ok', getattr(ref, cls_key.split('.')[0])(m, args))
                except EOFError:
                    want = ('err', 'OutOfDataError')
                except ValueError:
                    want = ('err', 'DecodeError')
                except NotImplementedError:
                    want = ('err', 'NotImplementedError')
                except ArithmeticError:
                    want = ('err', 'ValueError')
                try:
                    got = ('ok', getattr(obj, m)(*args))
                except Exception as ex:
                    got = ('err', type(ex).__name__)
                sink.count('reference.%s.%s' % (cls_key, m))
                same = got == want or (got[0] == want[0] == 'ok' and bytes(got[1]) == bytes(want[1]) if isinstance(want[1], bytes) and isinstance(got[1], (bytes, bytearray)) else got == want)
                if same and got[0] == 'ok' and obj.number_of_bits != len(ref.bits):
                    same = False
                if not same:
                    found += 1
                    if found <= 3:
                        sink.violation('%s.%s does not read what the encoding rules prescribe (bit reader primitive)' % (cls_key, m),
                                       {'input_octets': data.hex(), 'history_of_calls_on_one_Decoder': hist[-8:], 'returned': repr(got)[:200], 'bits_left': obj.number_of_bits,
                                        'prescribed': repr(want)[:200], 'prescribed_bits_left': len(ref.bits)})
                    break
                if got[0] == 'err':
                    break
    return found
