"""Translator validation: the definitions that harness/py2lean.py emits into lean/Asn1Model/Translated.lean are run
(compiled, `trdriver`) against the Python functions they were translated from, imported from the tree under test, on
boundary-biased inputs and — for `per.Encoder` — on random method-call sequences applied to a real object, comparing the
complete object state after every call.  A difference means the translator (trusted base of the bridge theorems) or its
declared domain is wrong for the current source: it is reported as a broken correspondence, never as a violation of a
property by itself.

Domains (documented preconditions of the translation, see py2lean's doc string): integers that the callers pass as
non-negative are generated non-negative; shift counts / bit counts are non-negative; octet values are 0..255."""
import importlib
import os
import random
import subprocess

from . import core

TRDRIVER = os.path.join(core.LEAN, '.lake', 'build', 'bin', 'trdriver')

EDGES = sorted(set([0, 1, 2, 3, 7, 8, 9, 15, 16, 17, 30, 31, 32, 39, 40, 62, 63, 64, 65, 79, 80, 119, 120, 127, 128, 129, 255, 256, 257,
                    4095, 4096, 4097, 16383, 16384, 16385, 32767, 32768, 32769, 49151, 49152, 49153, 65535, 65536, 65537,
                    1677725, 1677726, 1677727, 2097151, 2097152, 16777215, 16777216, 16777217, 2 ** 31 - 1, 2 ** 31, 2 ** 32 - 1,
                    2 ** 32, 2 ** 32 + 1, 2 ** 63 - 1, 2 ** 63, 2 ** 64 - 1, 2 ** 64, 2 ** 64 + 1, 2 ** 127, 2 ** 128 - 1, 2 ** 128]))


def nat(rng):
    r = rng.random()
    if r < 0.45:
        return rng.choice(EDGES)
    if r < 0.55:
        return max(0, rng.choice(EDGES) + rng.randint(-2, 2))
    return rng.getrandbits(rng.choice([1, 3, 6, 7, 8, 9, 14, 15, 16, 17, 24, 31, 32, 33, 56, 63, 64, 65, 100, 200]))


def anyint(rng):
    n = nat(rng)
    return -n if rng.random() < 0.5 else n


def small(rng, hi=70):
    return rng.choice([0, 1, 2, 7, 8, 9, 15, 16, 17, rng.randint(0, hi)])


def octets(rng, n=None):
    n = rng.choice([0, 1, 2, 3, 8, 17]) if n is None else n
    return bytes(rng.choice([0, 1, 0x7f, 0x80, 0xff, rng.randrange(256)]) for _ in range(n))


def to_sx(v):
    if isinstance(v, bool):
        return 'T' if v else 'F'
    if isinstance(v, int):
        return str(v)
    if v is None:
        return 'none'
    if isinstance(v, (bytes, bytearray)):
        return '(' + ' '.join(str(b) for b in v) + ')'
    if isinstance(v, (list, tuple)):
        return '(' + ' '.join(to_sx(x) for x in v) + ')'
    if isinstance(v, str):
        return 's:' + v
    raise TypeError('no wire form for %r' % (v,))


def call(f, *args):
    try:
        return to_sx(f(*args))
    except Exception as e:                                   # the exception class is the observable
        return '(err %s)' % type(e).__name__


def enc_state(e):
    return [e.number_of_bits, e.value, e.chunks_number_of_bits, [list(c) for c in e.chunks]]


def norm(s):
    return ' '.join(s.replace('(', ' ( ').replace(')', ' ) ').split())


# which translated definitions each property's check validates (and whose bridge theorems are among its obligations)
TR_PREFIXES = {
    'C01': ['ber.encode_object_identifier_subidentifier', 'ber.decode_object_identifier_subidentifier', 'compiler.lowest_set_bit'],
    'C03': ['ber.encode_length_definite', 'ber.encode_tag'],
    'C05': ['per.'],
    'C06': ['oer.'],
    'C09': ['c_uper.'],
    'C10': ['c_oer.'],
    'C15': ['ber.encode_length_definite', 'ber.encode_tag'],
}

FUNCTION_DOMAINS = {
    'ber.encode_length_definite': lambda r: [nat(r)],
    'ber.encode_tag': lambda r: [nat(r), r.choice([0, 0x20, 0x40, 0x60, 0x80, 0xa0, 0xc0, 0xe0])],
    'ber.encode_object_identifier_subidentifier': lambda r: [nat(r)],
    'ber.decode_object_identifier_subidentifier': lambda r: (lambda d: [d, r.randint(0, len(d))])(octets(r)),
    'oer.encode_tag': lambda r: [nat(r), r.choice([0, 0x40, 0x80, 0xc0])],
    'per.integer_as_number_of_bits': lambda r: [nat(r)],
    'per.integer_as_number_of_bits_power_of_two': lambda r: [nat(r)],
    'per.size_as_number_of_bytes': lambda r: [nat(r)],
    'per.to_byte_array': lambda r: [nat(r), small(r, 300)],
    'c_oer.get_length_determinant_length': lambda r: [nat(r)],
    'c_uper.does_bits_match_range': lambda r: (lambda lo, w: [small(r), lo, lo + w - 1 if r.random() < 0.5 else lo + nat(r)])(anyint(r), 2 ** small(r)),
    'compiler.lowest_set_bit': lambda r: [nat(r)],
}

MODULES = {'ber': 'asn1tools.codecs.ber', 'oer': 'asn1tools.codecs.oer', 'per': 'asn1tools.codecs.per',
           'c_oer': 'asn1tools.source.c.oer', 'c_uper': 'asn1tools.source.c.uper', 'compiler': 'asn1tools.codecs.compiler'}


def encoder_op(rng, e):
    """one random method call on a per.Encoder within the domain of the translation: (method name, args)"""
    m = rng.choice(['append_bit', 'append_non_negative_binary_integer', 'append_non_negative_binary_integer', 'append_bits', 'append_bytes',
                    'append_length_determinant', 'append_normally_small_non_negative_whole_number', 'append_normally_small_length',
                    'append_constrained_whole_number', 'append_unconstrained_whole_number', 'align_always', 'align', 'number_of_bytes',
                    '__iadd__', 'big'])
    if m == 'append_bit':
        return m, [rng.randint(0, 1)]
    if m == 'append_non_negative_binary_integer':
        w = small(rng, 80)
        return m, [rng.getrandbits(w) if w else 0, w]
    if m == 'big':                                           # crosses the 4096-bit chunk threshold
        w = rng.choice([4090, 4096, 4097, 5000])
        return 'append_non_negative_binary_integer', [rng.getrandbits(w), w]
    if m == 'append_bits':
        d = octets(rng, rng.choice([1, 2, 3, 9]))
        return m, [d, rng.randint(0, 8 * len(d))]
    if m == 'append_bytes':
        return m, [octets(rng, rng.choice([1, 2, 5]))]
    if m == 'append_length_determinant':
        return m, [nat(rng) % 200000]
    if m == 'append_normally_small_non_negative_whole_number':
        return m, [nat(rng)]
    if m == 'append_normally_small_length':
        return m, [rng.choice([1, 2, 63, 64, 65, 127, 128, 200, rng.randint(1, 300)])]
    if m == 'append_constrained_whole_number':
        lo = anyint(rng)
        rngw = rng.choice([1, 2, 255, 256, 257, 65535, 65536, 65537, nat(rng) + 1])
        hi = lo + rngw - 1
        v = rng.choice([lo, hi, rng.randint(lo, hi)])
        return m, [v, lo, hi, (hi - lo).bit_length()]
    if m == 'append_unconstrained_whole_number':
        return m, [anyint(rng)]
    return m, []


OBJ_FIELDS = {'oer.Encoder': ['number_of_bits', 'value'], 'oer.Decoder': ['number_of_bits', 'total_number_of_bits', 'value'],
              'per.Decoder': ['number_of_bits', 'total_number_of_bits', 'value']}
PURE_METHODS = {'number_of_bytes', 'number_of_read_bits', 'peek_bit'}


def oer_encoder_op(rng, e):
    m = rng.choice(['append_bit', 'append_non_negative_binary_integer', 'append_bits', 'append_u8', 'append_bytes', 'append_length_determinant',
                    'append_integer', 'append_unsigned_integer', 'align', 'number_of_bytes', '__iadd__'])
    if m == 'append_bit':
        return m, [rng.randint(0, 1)]
    if m == 'append_non_negative_binary_integer':
        w = small(rng, 80)
        return m, [rng.getrandbits(w) if w else 0, w]
    if m == 'append_bits':
        d = octets(rng, rng.choice([1, 2, 3, 9]))
        return m, [d, rng.randint(0, 8 * len(d))]
    if m == 'append_u8':
        return m, [rng.randrange(256)]
    if m == 'append_bytes':
        return m, [octets(rng, rng.choice([1, 2, 5]))]
    if m == 'append_length_determinant':
        return m, [rng.choice([nat(rng), 2 ** (8 * 127) - 1, 2 ** (8 * 127), 2 ** (8 * 127) + 5])]
    if m == 'append_integer':
        return m, [anyint(rng)]
    if m == 'append_unsigned_integer':
        return m, [nat(rng)]
    return m, []


def oer_decoder_op(rng, d):
    m = rng.choice(['align', 'number_of_read_bits', 'skip_bits', 'peek_bit', 'read_bit', 'read_bits', 'read_byte', 'read_bytes',
                    'read_non_negative_binary_integer', 'read_length_determinant', 'read_integer', 'read_unsigned_integer', 'read_tag'])
    if m in ('skip_bits', 'read_non_negative_binary_integer'):
        return m, [rng.choice([0, 1, 3, 7, 8, 9, 16, d.number_of_bits, d.number_of_bits + 1, rng.randint(0, 40)])]
    if m == 'read_bits':
        return m, [rng.choice([1, 3, 7, 8, 9, 16, max(1, d.number_of_bits), d.number_of_bits + 1, rng.randint(1, 40)])]
    if m == 'read_bytes':
        return m, [rng.choice([1, 2, 3, max(1, d.number_of_bits // 8), d.number_of_bits // 8 + 1])]
    return m, []


def per_decoder_op(rng, d):
    m = rng.choice(['align_always', 'align', 'number_of_read_bits', 'skip_bits', 'read_bit', 'read_bits', 'read_bytes',
                    'read_non_negative_binary_integer', 'read_length_determinant', 'read_normally_small_non_negative_whole_number',
                    'read_normally_small_length', 'read_constrained_whole_number', 'read_unconstrained_whole_number'])
    if m in ('skip_bits', 'read_non_negative_binary_integer'):
        return m, [rng.choice([0, 1, 3, 7, 8, 9, 16, d.number_of_bits, d.number_of_bits + 1, rng.randint(0, 40)])]
    if m == 'read_bits':
        return m, [rng.choice([1, 3, 7, 8, 9, 16, max(1, d.number_of_bits), d.number_of_bits + 1, rng.randint(1, 40)])]
    if m == 'read_bytes':
        return m, [rng.choice([1, 2, 3, max(1, d.number_of_bits // 8), d.number_of_bits // 8 + 1])]
    if m == 'read_constrained_whole_number':
        lo = anyint(rng)
        w = rng.choice([1, 2, 255, 256, 257, 65535, 65536, 65537, nat(rng) % (2 ** 40) + 1])
        return m, [lo, lo + w - 1, (w - 1).bit_length()]
    return m, []


def run(sink, prefixes, seed, n_fn=300, n_seq=60, seq_len=25):
    """sink: Ctx or Part (count / disagreement / case).  prefixes: which translated keys to validate, e.g. ['per.', 'ber.encode_tag']."""
    if not os.path.exists(TRDRIVER):
        sink.disagreement('translated.driver', 'trdriver is not built (the translated definitions do not compile?)')
        return
    rng = random.Random(seed * 7919 + 13)
    requests, expected, labels = [], [], []
    for key, dom in sorted(FUNCTION_DOMAINS.items()):
        if not any(key.startswith(p) for p in prefixes):
            continue
        mod, fname = key.split('.', 1)
        try:
            f = getattr(importlib.import_module(MODULES[mod]), fname)
        except Exception as e:
            sink.disagreement('translated.' + key, 'cannot import the Python function: %r' % (e,))
            continue
        for i in range(n_fn):
            args = dom(rng)
            requests.append(key + '\t' + '\t'.join(to_sx(a) for a in args))
            expected.append(call(f, *args))
            labels.append((key, args))
    if any('per.Encoder'.startswith(p) or p.startswith('per.Encoder') for p in prefixes):
        per = importlib.import_module(MODULES['per'])
        # the sequences are generated first (the expected states come from the real object), then replayed by the driver
        for s in range(n_seq):
            e = per.Encoder()
            for step in range(seq_len):
                m, args = encoder_op(rng, e)
                before = enc_state(e)
                key = 'per.Encoder.' + m
                if m == '__iadd__':
                    o = per.Encoder()
                    for _ in range(rng.randint(0, 4)):
                        om, oargs = encoder_op(rng, o)
                        if om not in ('__iadd__', 'number_of_bytes'):
                            try:
                                getattr(o, om)(*oargs)
                            except NotImplementedError:
                                pass
                    req = key + '\t' + to_sx(before) + '\t' + to_sx(enc_state(o))
                    e += o
                    exp = to_sx(enc_state(e))
                else:
                    req = key + '\t' + '\t'.join([to_sx(before)] + [to_sx(a) for a in args])
                    try:
                        r = getattr(e, m)(*args)
                        if m == 'number_of_bytes':
                            exp = to_sx(r)
                        elif r is None:
                            exp = to_sx(enc_state(e))
                        else:
                            exp = to_sx([enc_state(e), r])
                    except Exception as ex:
                        exp = '(err %s)' % type(ex).__name__
                requests.append(req)
                expected.append(exp)
                labels.append((key, args))
    for cls_key, gen in (('oer.Encoder', oer_encoder_op), ('oer.Decoder', oer_decoder_op), ('per.Decoder', per_decoder_op)):
        if not any(cls_key.startswith(p) or p.startswith(cls_key) for p in prefixes):
            continue
        mod = importlib.import_module(MODULES[cls_key.split('.')[0]])
        cls = getattr(mod, cls_key.split('.')[1])
        fields = OBJ_FIELDS[cls_key]
        for sq in range(n_seq):
            obj = cls() if cls_key.endswith('Encoder') else cls(octets(rng, rng.choice([0, 1, 2, 3, 5, 9, 20, 140])))
            for step in range(seq_len):
                m, args = gen(rng, obj)
                before = [getattr(obj, f) for f in fields]
                key = cls_key + '.' + m
                if m == '__iadd__':
                    o = cls()
                    for _ in range(rng.randint(0, 3)):
                        om, oargs = gen(rng, o)
                        if om != '__iadd__':
                            try:
                                getattr(o, om)(*oargs)
                            except Exception:
                                pass
                    req = key + '\t' + to_sx(before) + '\t' + to_sx([getattr(o, f) for f in fields])
                    obj += o
                    exp = to_sx([getattr(obj, f) for f in fields])
                    failed = False
                else:
                    req = key + '\t' + '\t'.join([to_sx(before)] + [to_sx(a) for a in args])
                    failed = False
                    try:
                        r = getattr(obj, m)(*args)
                        after = [getattr(obj, f) for f in fields]
                        if m in PURE_METHODS:
                            exp = to_sx(r)
                        elif r is None:
                            exp = to_sx(after)
                        else:
                            exp = to_sx([after, r])
                    except Exception as ex:
                        exp = '(err %s)' % type(ex).__name__
                        failed = True
                requests.append(req)
                expected.append(exp)
                labels.append((key, args))
                if failed:
                    break                                    # the object may be half-updated after an exception
    if not requests:
        return
    p = subprocess.run([TRDRIVER], input='\n'.join(requests) + '\n', stdout=subprocess.PIPE, stderr=subprocess.PIPE, text=True, timeout=600)
    got = p.stdout.split('\n')[:-1]
    if len(got) != len(requests):
        sink.disagreement('translated.driver', 'trdriver answered %d lines for %d requests: %s' % (len(got), len(requests), p.stderr[-200:]))
        return
    bad = 0
    for req, exp, g, (key, args) in zip(requests, expected, got, labels):
        sink.count('translated.' + key)
        if norm(exp) != norm(g):
            bad += 1
            if bad <= 3:
                sink.disagreement('translated.' + key, {'request': req[:400], 'python': exp[:300], 'translated_lean': g[:300]})
    sink.count('translated.requests', len(requests))
    sink.count('translated.mismatches', bad)


def run_for_property(ctx):
    prefixes = TR_PREFIXES.get(ctx.prop)
    if not prefixes:
        return
    quick = ctx.tier != 'thorough'
    run(ctx, prefixes, ctx.seed, n_fn=300 if quick else 3000, n_seq=60 if quick else 600)
    ctx.assumptions.append('translator harness/py2lean.py (Python subset -> Lean) and its declared argument domains: validated on this run by executing '
                           'the translated definitions against the Python functions of the tree under test (histogram keys translated.*)')
